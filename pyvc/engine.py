"""PyVC engine: forward symbolic execution of real Python ASTs with contracts, producing verification
conditions for z3/cvc5.

Design (DESIGN.md section 2):
* one path at a time; a path is determined by its list of branch decisions and the function is re-executed
  from the start for every path (simple, and every sub-expression may branch);
* loops are cut at the head by the invariant of the contract (entry / preservation per path / use at exit);
* calls are replaced by the callee's contract (FuncV implementations assert `pre`, return a fresh result and
  assume `post`); nothing is ever inlined unless the contract file says so explicitly;
* anything outside the supported subset raises Unsupported -> the obligation is *ungenerated* (never silently
  approximated).

Python semantics assumed: A-INT, A-TRUTH, A-EVAL, A-SEQ, A-SET, A-HEAP (identity of mutable python-level
containers = identity of the ListV/ObjV carrying them), A-EXC, A-BIND (see DESIGN 2.2).
"""
import ast
import itertools

import z3
from z3 import And, BoolVal, If, Implies, Int, IntVal, Not, Or

from . import bits


class Unsupported(Exception):
    pass


class PathEnd(Exception):
    pass


class BodyEnd(PathEnd):
    """a loop body has been executed and its invariant obligations recorded (the path ends here)"""


class PyRaise(Exception):
    def __init__(self, exc, value=None):
        self.exc, self.value = exc, value


class _Return(Exception):
    def __init__(self, value):
        self.value = value


class _Continue(Exception):
    pass


class _Break(Exception):
    pass


# ---------------------------------------------------------------------------------------------
# values

class Val:
    pass


class IntV(Val):
    def __init__(self, t, tag=None):
        self.t = t if z3.is_expr(t) else IntVal(t)
        self.tag = tag

    def __repr__(self):
        return 'IntV(%s%s)' % (self.t, ':' + self.tag if self.tag else '')


class BoolV(Val):
    def __init__(self, t):
        self.t = t if z3.is_expr(t) else BoolVal(bool(t))

    def __repr__(self):
        return 'BoolV(%s)' % self.t


class NoneV(Val):
    def __repr__(self):
        return 'NoneV'


class TermV(Val):
    """A value of an uninterpreted sort (e.g. a label of sort Name): equality only."""

    def __init__(self, t):
        self.t = t

    def __repr__(self):
        return 'TermV(%s)' % self.t


NONE = NoneV()


class StrV(Val):
    """A string: concrete python str, or an f-string with symbolic parts (value=None):
    parts = [('lit', text) | ('fmt', Val, conversion, format_spec)]."""

    def __init__(self, value=None, term=None, parts=None):
        self.value, self.term, self.parts = value, term, parts

    def __repr__(self):
        return 'StrV(%r)' % (self.value,)


class TupleV(Val):
    def __init__(self, items):
        self.items = list(items)

    def __repr__(self):
        return 'TupleV(%r)' % (self.items,)


class ListV(Val):
    """Mutable list of concrete length; identity = python identity of this object."""

    def __init__(self, items):
        self.items = list(items)


class DictV(Val):
    """dict with concrete string keys (insertion ordered); identity = python identity."""

    def __init__(self, items=None):
        self.items = dict(items or {})


class SeqV(Val):
    """Immutable sequence of symbolic length: at(IntTerm)->Val, length IntTerm; `elem_fact(k)` optional facts."""

    def __init__(self, at, length, name='seq'):
        self.at, self.length, self.name = at, length, name


class FilterV(Val):
    """[elt(x) for x in base if cond(x)] over a contract iterable: base (IterV/SeqV), cond(k) -> Bool formula, elt(k) -> Val"""

    def __init__(self, base, cond, elt):
        self.base, self.cond, self.elt = base, cond, elt


class MapV(Val):
    """{key(x): value(x) for x in base} over a contract iterable: base, kv(k) -> (key Val, value Val)"""

    def __init__(self, base, kv):
        self.base, self.kv = base, kv


class IterV(Val):
    """An iterable given by a contract: element sequence at(k) for 0<=k<length, evaluated once (A-EVAL)."""

    def __init__(self, at, length, name='iter', facts=None):
        self.at, self.length, self.name, self.facts = at, length, name, facts


class ObjV(Val):
    def __init__(self, cls, fields=None, name=None):
        self.cls, self.fields, self.name = cls, dict(fields or {}), name

    def __repr__(self):
        return 'ObjV(%s)' % (self.name or self.cls)


class FuncV(Val):
    """fn(path, args, kwargs) -> Val ; may call path.oblige (pre) / path.assume (post) / raise PyRaise."""

    def __init__(self, name, fn):
        self.name, self.fn = name, fn


class ClosureV(Val):
    """A nested function: its AST node and the environment it closes over (by reference)."""

    def __init__(self, node, env):
        self.node, self.env = node, env


class DeadListV(ListV):
    """A python list whose every known reference was redirected to a heap object of the contract (comprehension clause run on the loop
    spelling): any remaining use is rejected, so that a reference the redirection missed cannot be read as a stale list."""

    @property
    def items(self):
        raise Unsupported('a list that was replaced by the heap object of a comprehension clause is still referenced')


def replace_references(env, old, new):
    """redirect every reference to the value `old` that the program can reach from its environment (locals, enclosing environments,
    fields of objects, items of tuples / lists / dicts, conditional values, closures) to `new`"""
    seen = set()

    def sub(v):
        return new if v is old else v

    def walk(v):
        if id(v) in seen or v is new:
            return
        seen.add(id(v))
        if isinstance(v, ChainEnv):
            for k_ in list(v.own()):
                x = dict.__getitem__(v, k_)
                dict.__setitem__(v, k_, sub(x))
                walk(x)
            walk(v.parent)
        elif isinstance(v, dict):
            for k_ in list(v):
                x = v[k_]
                v[k_] = sub(x)
                walk(x)
        elif isinstance(v, ObjV):
            walk(v.fields)
        elif type(v) in (TupleV, ListV):
            v.items[:] = [sub(x) for x in v.items]
            for x in v.items:
                walk(x)
        elif isinstance(v, DictV):
            walk(v.items)
        elif isinstance(v, IteV):
            v.a, v.b = sub(v.a), sub(v.b)
            walk(v.a)
            walk(v.b)
        elif isinstance(v, ClosureV):
            walk(v.env)
    walk(env)


class PoisonV(Val):
    """The value of a local after a loop havoc when no arbitrary value of its kind can be constructed: unreadable."""

    def __init__(self, name, kind):
        self.name, self.kind = name, kind


class ClassV(Val):
    def __init__(self, name, bases=()):
        self.name, self.bases = name, tuple(bases)


class IteV(Val):
    def __init__(self, c, a, b):
        self.c, self.a, self.b = c, a, b


EXC = {n: ClassV(n, b) for n, b in [('Exception', ()), ('ValueError', ('Exception',)), ('KeyError', ('LookupError', 'Exception')),
                                    ('IndexError', ('LookupError', 'Exception')), ('LookupError', ('Exception',)),
                                    ('TypeError', ('Exception',)), ('RuntimeError', ('Exception',)),
                                    ('NotImplementedError', ('RuntimeError', 'Exception')),
                                    ('StopIteration', ('Exception',)), ('AssertionError', ('Exception',)),
                                    ('AttributeError', ('Exception',))]}


def exc_matches(raised, handler):
    """raised: exception class name; handler: ClassV or TupleV of ClassV."""
    if isinstance(handler, TupleV):
        return any(exc_matches(raised, h) for h in handler.items)
    if not isinstance(handler, ClassV):
        raise Unsupported('except clause with non-class')
    return raised == handler.name or handler.name in EXC.get(raised, ClassV(raised)).bases


def truthy(v):
    if isinstance(v, BoolV):
        return v.t
    if isinstance(v, IntV):
        return v.t != 0
    if isinstance(v, NoneV):
        return BoolVal(False)
    if isinstance(v, (TupleV, ListV)):
        return BoolVal(len(v.items) > 0)
    if isinstance(v, SeqV):
        return v.length > 0
    if isinstance(v, StrV) and v.value is not None:
        return BoolVal(len(v.value) > 0)
    if isinstance(v, (ObjV, FuncV, ClassV)):
        if isinstance(v, ObjV) and getattr(v, 'truth_fn', None) is not None:
            return v.truth_fn()
        return BoolVal(True)
    if isinstance(v, IteV):
        return If(v.c, truthy(v.a), truthy(v.b))
    raise Unsupported('truthiness of %r' % (v,))


def ite(c, a, b):
    if isinstance(a, IntV) and isinstance(b, IntV):
        return IntV(If(c, a.t, b.t), a.tag if a.tag == b.tag else None)
    if isinstance(a, BoolV) and isinstance(b, BoolV):
        return BoolV(If(c, a.t, b.t))
    if z3.is_true(z3.simplify(c)):
        return a
    if z3.is_false(z3.simplify(c)):
        return b
    return IteV(c, a, b)


# ---------------------------------------------------------------------------------------------

class VC:
    def __init__(self, name, kind, hyps, goal, decisions):
        self.name, self.kind, self.hyps, self.goal, self.decisions = name, kind, hyps, goal, decisions
        self.status, self.backend, self.seconds, self.detail = None, None, 0.0, ''
        self.occ = 0       # n-th obligation of this name on this decision prefix (a statement executed twice, two calls of one callee)

    def key(self):
        return (self.name, tuple(self.decisions), self.occ)

    def cls(self):
        """Obligation class for the ledger: name without the path part."""
        return self.name


class Path:
    def __init__(self, eng, decisions):
        self.eng = eng
        self.decisions = list(decisions)
        self.pos = 0
        self.pc = []
        self.out = []          # yielded values (concrete-length ghost sequence)
        self.ghost = {}
        self.occ = {}
        self.trace = []        # ghost call trace (e.g. graphviz calls)

    # -- logical state
    def assume(self, f):
        if isinstance(f, (list, tuple)):
            for g in f:
                self.assume(g)
            return
        if f is True:
            return
        self.pc.append(f)

    def oblige(self, name, kind, goal):
        """Record `pc |- goal` as a VC, then assume the goal."""
        if isinstance(goal, bool):
            goal = BoolVal(goal)
        vc = VC(name, kind, list(self.pc), goal, self.decisions[:self.pos])
        k = (name, tuple(vc.decisions))
        vc.occ = self.occ[k] = self.occ.get(k, -1) + 1
        self.eng.add_vc(vc)
        self.pc.append(goal)

    def fresh_int(self, hint='v'):
        return Int('%s!%d' % (hint, next(self.eng.counter)))

    def fresh_bool(self, hint='b'):
        return z3.Bool('%s!%d' % (hint, next(self.eng.counter)))

    # -- branching
    def choose(self, conds, label=''):
        """Pick one of the mutually exclusive, exhaustive conditions; returns its index and assumes it."""
        for c in conds:
            _const_names(c, self.eng.branch_consts)      # audited at the end of the run against the bound variables of the VCs
        if self.pos < len(self.decisions):
            k = self.decisions[self.pos]
            self.pos += 1
            self.pc.append(conds[k])
            return k
        feas = [k for k, c in enumerate(conds) if self.eng.feasible(self.pc + [c])]
        if not feas:
            raise PathEnd('infeasible')
        prefix = self.decisions[:self.pos]
        for k in feas[1:]:
            self.eng.worklist.append(prefix + [k])
        k = feas[0]
        self.decisions.append(k)
        self.pos += 1
        self.pc.append(conds[k])
        return k

    def branch(self, cond):
        cond = z3.simplify(cond)
        if z3.is_true(cond):
            return True
        if z3.is_false(cond):
            return False
        return self.choose([cond, Not(cond)]) == 0

    def truth(self, v):
        """Truthiness of a value as a formula; for a symbolic int x the fact `x != 0 -> bit(x, w)` with a fresh
        skolem witness w is added (every non-zero int has a set bit; DESIGN 2.4)."""
        c = truthy(v)
        if isinstance(v, IntV) and not z3.is_int_value(v.t):
            w = self.fresh_int('w')
            self.pc.append(Implies(v.t != 0, And(w >= 0, bits.bit(v.t, w))))
        return c

    def branch_truthy(self, v):
        return self.branch(self.truth(v))


def accumulator_shape(st):
    """(steps, append-call) if the for-loop body is `[target = e;]* [if c:] NAME.append(e)` (lets may unpack tuples), else None"""
    steps, body = loop_steps(st.body)
    if len(body) != 1 or not isinstance(body[0], ast.Expr) or not isinstance(body[0].value, ast.Call):
        return None
    call = body[0].value
    if not (isinstance(call.func, ast.Attribute) and call.func.attr == 'append' and isinstance(call.func.value, ast.Name)
            and len(call.args) == 1 and not call.keywords):
        return None
    if st.orelse:
        return None
    return steps, call


def loop_steps(body):
    """(steps, rest) for a loop body `[target = e;]* [if c:]* <rest>`: the local bindings and conditions in front of the last statements"""
    body = list(body)
    steps = []
    while True:
        while len(body) > 1 and isinstance(body[0], ast.Assign) and len(body[0].targets) == 1 \
                and isinstance(body[0].targets[0], (ast.Name, ast.Tuple)):
            steps.append(('let', body[0].targets[0], body[0].value))
            body = body[1:]
        if len(body) == 1 and isinstance(body[0], ast.If) and not body[0].orelse:
            steps.append(('if', body[0].test))
            body = list(body[0].body)
            continue
        break
    return steps, body


def yield_shape(st):
    """(steps, element expression) if the for-loop body is `[target = e;]* [if c:]* yield e`: the loop of a generator FUNCTION that is
    the generator expression `(e for target in it if c)`, else None"""
    steps, body = loop_steps(st.body)
    if st.orelse or len(body) != 1 or not isinstance(body[0], ast.Expr) or not isinstance(body[0].value, ast.Yield) \
            or body[0].value.value is None:
        return None
    for s_ in steps:         # a yield anywhere else (inside a binding or a condition) is not this shape
        for n in ast.walk(s_[-1]):
            if isinstance(n, (ast.Yield, ast.YieldFrom)):
                return None
    for n in ast.walk(body[0].value.value):
        if isinstance(n, (ast.Yield, ast.YieldFrom)):
            return None
    return steps, body[0].value.value


def index_loop_shape(st):
    """(index name, bound expression) if the while loop is the index spelling of a `for` loop over positions:
           while I < BOUND:  <body without another assignment to I and without `continue`>;  I += 1
    else None.  (`for i, x in enumerate(seq)` / `for i in range(n)` written as `i = 0; while i < len(seq): x = seq[i]; ...; i += 1`.)"""
    t = st.test
    if st.orelse or not (isinstance(t, ast.Compare) and len(t.ops) == 1 and len(t.comparators) == 1):
        return None
    if isinstance(t.ops[0], ast.Lt) and isinstance(t.left, ast.Name):
        name, bound = t.left.id, t.comparators[0]
    elif isinstance(t.ops[0], ast.Gt) and isinstance(t.comparators[0], ast.Name):
        name, bound = t.comparators[0].id, t.left
    else:
        return None
    if not st.body:
        return None
    last = st.body[-1]
    one = lambda n: isinstance(n, ast.Constant) and type(n.value) is int and n.value == 1
    if isinstance(last, ast.AugAssign) and isinstance(last.op, ast.Add) and isinstance(last.target, ast.Name) and last.target.id == name \
            and one(last.value):
        pass
    elif isinstance(last, ast.Assign) and len(last.targets) == 1 and isinstance(last.targets[0], ast.Name) and last.targets[0].id == name \
            and isinstance(last.value, ast.BinOp) and isinstance(last.value.op, ast.Add) \
            and ((isinstance(last.value.left, ast.Name) and last.value.left.id == name and one(last.value.right))
                 or (isinstance(last.value.right, ast.Name) and last.value.right.id == name and one(last.value.left))):
        pass
    else:
        return None
    if name in assigned_names(st.body[:-1]) or name in assigned_names([ast.Expr(bound)]):
        return None
    todo = list(st.body)
    while todo:          # a `continue` of THIS loop would skip the increment
        n = todo.pop()
        if isinstance(n, ast.Continue):
            return None
        if isinstance(n, (ast.For, ast.While, ast.FunctionDef, ast.Lambda, ast.ClassDef)):
            continue
        todo.extend(ast.iter_child_nodes(n))
    return name, bound


def consuming_positions(root):
    """{id(call node): 'collect' | 'iterate'} for every call expression inside `root` whose VALUE is consumed at the call site and
    nowhere else (the value never gets a name, so it cannot be consumed twice or partially elsewhere):
      'collect'  f(*CALL) as the only starred argument source, list(CALL), tuple(CALL): the consumer exhausts the iterable before
                 anything else happens (a pure collector does nothing between two items);
      'iterate'  for x in CALL: ..., a comprehension `for x in CALL`, yield from CALL: the consumer's own code runs between the items."""
    out = {}
    for n in ast.walk(root):
        if isinstance(n, ast.Call):
            for a in n.args:
                if isinstance(a, ast.Starred) and isinstance(a.value, ast.Call):
                    out[id(a.value)] = 'collect'
            if isinstance(n.func, ast.Name) and n.func.id in ('list', 'tuple') and len(n.args) == 1 and not n.keywords \
                    and isinstance(n.args[0], ast.Call):
                out[id(n.args[0])] = 'collect'
        elif isinstance(n, ast.For) and isinstance(n.iter, ast.Call):
            out[id(n.iter)] = 'iterate'
        elif isinstance(n, (ast.ListComp, ast.GeneratorExp, ast.SetComp, ast.DictComp)):
            for g in n.generators:
                if isinstance(g.iter, ast.Call):
                    out[id(g.iter)] = 'iterate'
        elif isinstance(n, ast.YieldFrom) and isinstance(n.value, ast.Call):
            out[id(n.value)] = 'iterate'
    return out


_API_DEFAULTS = None


def _api_defaults():
    global _API_DEFAULTS
    if _API_DEFAULTS is None:
        import json
        import os
        p = os.path.join(os.path.dirname(os.path.dirname(os.path.abspath(__file__))), 'checks', 'api_defaults.json')
        try:
            with open(p) as f:
                _API_DEFAULTS = json.load(f)['defaults']
        except OSError:
            _API_DEFAULTS = {}
    return _API_DEFAULTS


class CompView:
    """A one-generator comprehension `[elt for target in iter if c1 if c2 ...]` seen independently of the way the source spells it:
    as a comprehension node (`closed_form` clause) or as the accumulator loop `acc = []; for target in iter: [y = e;]* [if c:]* acc.append(elt)`
    (`accumulator_form` clause).  A contract that supplies the closed form of such a list states it once, against this view:
      source()  -> the value of the iterable expression (evaluated in the current environment),
      at(item)  -> (list of condition formulas, element Val) for the target bound to `item` (local bindings evaluated in order),
      kind      -> 'ListComp' | 'GeneratorExp' | 'SetComp' | 'Accumulator' (the accumulator builds a list)."""

    def __init__(self, interp, env, kind, iter_node, target, steps, elt_node, source=None):
        self.interp, self.env, self.kind = interp, env, kind
        self.iter_node, self.target, self.steps, self.elt_node = iter_node, target, steps, elt_node
        self._source = source

    @classmethod
    def of_comprehension(cls, interp, env, node):
        if len(node.generators) != 1:
            raise Unsupported('nested comprehension as a one-generator view')
        g = node.generators[0]
        return cls(interp, env, type(node).__name__, g.iter, g.target, [('if', c) for c in g.ifs], node.elt)

    def source(self):
        if self._source is None:
            self._source = self.interp.eval(self.iter_node, self.env)
        return self._source

    def at(self, item):
        inner = flat_env(self.env)
        self.interp.assign(self.target, item, inner)
        conds = []
        for s_ in self.steps:
            if s_[0] == 'let':
                self.interp.assign(s_[1], self.interp.eval(s_[2], inner), inner)
            else:
                conds.append(truthy(self.interp.eval(s_[1], inner)))
        return conds, self.interp.eval(self.elt_node, inner)


class LoopSpec:
    """invariant(E[, k]) -> list of (name, formula); decreases(E) -> Int term or None.
    For `for` loops over an IterV the invariant takes the ghost index k (elements 0..k-1 processed)."""

    def __init__(self, invariant, decreases=None, ghost_havoc=None, phased=False):
        self.invariant, self.decreases, self.ghost_havoc = invariant, decreases, ghost_havoc
        # phased: the invariant callback takes phase='entry' | 'assume' | 'preserve' and may give the quantified form where the
        # invariant is assumed and an instance for fresh constants (with `use lemma` instances) where it is to be proved
        self.phased = phased

    def inv(self, phase, *args):
        if self.phased:
            return self.invariant(*args, phase=phase)
        return self.invariant(*args)

    def is_indexed(self):
        """the invariant REQUIRES the ghost index k (the clause of a `for` loop: k items processed); a clause whose k is optional serves
        both loop statements"""
        import inspect
        try:
            ps = [q for q in inspect.signature(self.invariant).parameters.values()
                  if q.name != 'phase' and q.kind in (q.POSITIONAL_ONLY, q.POSITIONAL_OR_KEYWORD) and q.default is q.empty]
        except (TypeError, ValueError):
            return False
        return len(ps) >= 2


class EnvView:
    """What invariants and postconditions see: z3 terms of int/bool variables by attribute, Vals otherwise."""

    def __init__(self, env, path, extra=None):
        object.__setattr__(self, '_env', env)
        object.__setattr__(self, '_path', path)
        object.__setattr__(self, '_extra', extra or {})

    def __getattr__(self, name):
        if name in self._extra:
            return self._extra[name]
        if name not in self._env:
            raise Unsupported('contract refers to variable %r which is not bound at this point' % name)
        v = self._env[name]
        if isinstance(v, (IntV, BoolV, TermV)):
            return v.t
        return v

    def val(self, name):
        return self._env[name]

    def has(self, name):
        return name in self._env


class Engine:
    """Runs one function under one contract harness and collects VCs."""

    def __init__(self, fname, axioms, feas_timeout_ms=300):
        self.fname = fname
        self.axioms = list(axioms)       # list of (name, formula)
        self.vcs = {}
        self.body_ends = []     # (decisions, pc) at the end of every executed loop body: vacuity probes
        self.worklist = []
        self.counter = itertools.count()
        self.feas_timeout_ms = feas_timeout_ms
        self.errors = []
        self.inlined_helpers = set()      # helpers of the same module / class executed in place (Interp.helper_closure)
        self.branch_consts = set()        # names of the constants path decisions were taken on
        self.paths = 0
        self._feas_solver = None

    def add_vc(self, vc):
        vc.name = '%s:%s' % (self.fname, vc.name)
        self.vcs.setdefault(vc.key(), vc)

    def feasible(self, fs):
        s = z3.Solver()
        s.set('timeout', self.feas_timeout_ms)
        s.set('auto_config', False)
        s.set('smt.mbqi', False)
        for _, a in self.axioms:
            s.add(a)
        for f in fs:
            s.add(f)
        return s.check() != z3.unsat

    def run_lemma(self, prove):
        """A lemma unit: no code, `prove(path)` posts the goals (each is a VC from the axioms alone)."""
        path = Path(self, [])
        try:
            prove(path)
        except PathEnd:
            pass
        self.lemma_pc = list(path.pc)
        return list(self.vcs.values())

    def run(self, extracted, harness, max_paths=400):
        """harness(path) -> (env, loops, finish) where finish(path, env, outcome) records post obligations.
        outcome = ('return', Val) | ('raise', excname)."""
        self.worklist = [[]]
        while self.worklist:
            decisions = self.worklist.pop()
            self.paths += 1
            if self.paths > max_paths:
                self.errors.append('path explosion (> %d paths)' % max_paths)
                break
            path = Path(self, decisions)
            try:
                env, loops, finish = harness(path)
                interp = Interp(self, path, loops, extracted, env)
                path.interp = interp
                try:
                    interp.bind_defaults(env)
                    try:
                        interp.exec_block(extracted.body(), env)
                        outcome = ('return', NONE)
                    except _Return as r:
                        outcome = ('return', r.value)
                    except PyRaise as r:
                        outcome = ('raise', r.exc)
                    finish(path, env, outcome)
                except BodyEnd:
                    self.body_ends.append((list(path.decisions[:path.pos]), list(path.pc)))
                except PathEnd:
                    pass
            except BodyEnd:
                self.body_ends.append((list(path.decisions[:path.pos]), list(path.pc)))
            except PathEnd:
                pass
            except Unsupported as e:
                self.errors.append('unsupported: %s [path %s]' % (e, decisions))
            except z3.Z3Exception:
                raise
            except (KeyError, AttributeError, TypeError, IndexError, ValueError, AssertionError) as e:
                # the contract harness does not fit the current shape of the function: its obligations cannot be generated
                import traceback
                tb = traceback.format_exc().strip().splitlines()
                self.errors.append('ungenerated: contract harness does not apply to the current tree (%s: %s) at %s [path %s]'
                                   % (type(e).__name__, e, tb[-3].strip() if len(tb) >= 3 else '', decisions))
        # soundness guard: a path decision must never be about a variable that some VC binds by a quantifier (a library contract that
        # evaluates an element expression under a quantifier has to use `bound`): names of decision constants vs. bound variable names
        bn = set()
        for vc in self.vcs.values():
            for h in vc.hyps:
                _bound_names(h, bn)
            _bound_names(vc.goal, bn)
        clash = sorted(self.branch_consts & bn)
        if clash:
            self.errors.append('unsupported: a path decision was taken on a quantified variable (%s)' % ', '.join(clash[:5]))
        return list(self.vcs.values())


def _walk_terms(e, on_quant, on_const):
    seen, todo = set(), [e]
    while todo:
        x = todo.pop()
        i = x.get_id()
        if i in seen:
            continue
        seen.add(i)
        if z3.is_quantifier(x):
            if on_quant:
                on_quant(x)
            todo.append(x.body())
        elif z3.is_app(x):
            if on_const and x.num_args() == 0 and x.decl().kind() == z3.Z3_OP_UNINTERPRETED:
                on_const(x.decl().name())
            todo.extend(x.children())


def _const_names(e, acc):
    if z3.is_expr(e):
        _walk_terms(e, None, acc.add)


def _bound_names(e, acc):
    if z3.is_expr(e):
        _walk_terms(e, lambda q: acc.update(q.var_name(i) for i in range(q.num_vars())), None)


def values_equal(a, b):
    if isinstance(a, TermV) and isinstance(b, TermV):
        return a.t == b.t if a.t.sort() == b.t.sort() else BoolVal(False)
    """Structural equality of a computed value with a specification value (tuples element-wise, ints by term)."""
    if isinstance(a, IntV) and isinstance(b, IntV):
        return And(a.t == b.t, BoolVal(a.tag == b.tag or b.tag is None))
    if isinstance(a, BoolV) and isinstance(b, BoolV):
        return a.t == b.t
    if isinstance(a, (TupleV, ListV)) and type(a) is type(b) and len(a.items) == len(b.items):
        return And(*[values_equal(x, y) for x, y in zip(a.items, b.items)]) if a.items else BoolVal(True)
    if isinstance(a, ObjV) and isinstance(b, ObjV) and getattr(a, 'ident', None) is not None and getattr(b, 'ident', None) is not None:
        return a.ident == b.ident
    if isinstance(a, StrV) and isinstance(b, StrV):
        if a.value is not None or b.value is not None:
            return BoolVal(a.value is not None and a.value == b.value)
        if a.parts is not None and b.parts is not None and len(a.parts) == len(b.parts):
            fs = []
            for x, y in zip(a.parts, b.parts):
                if x[0] != y[0]:
                    return BoolVal(False)
                if x[0] == 'lit':
                    fs.append(BoolVal(x[1] == y[1]))
                else:
                    fs.append(And(values_equal(x[1], y[1]), BoolVal(x[2:] == y[2:])))
            return And(*fs) if fs else BoolVal(True)
        return BoolVal(a is b)
    if isinstance(a, NoneV) and isinstance(b, NoneV):
        return BoolVal(True)
    if a is b:
        return BoolVal(True)
    return BoolVal(False)



def bound(p, fn):
    """Evaluate fn() for a BOUND variable (the body of a quantifier a library contract is about to build, e.g. the element of the
    iterable handed to all()/any()): a path decision taken inside would be a decision about the bound variable, and the formula
    built from one branch would be asserted for every value.  Boolean operators are evaluated without branching (Interp.eval,
    `quant` mode); anything else that still branches is Unsupported."""
    pos = p.pos
    p.quant = getattr(p, 'quant', 0) + 1
    try:
        r = fn()
    finally:
        p.quant -= 1
    if p.pos != pos:
        raise Unsupported('a path decision inside the element of a quantified closed form')
    return r


def assigned_names(stmts):
    names = set()
    for st in stmts:
        for node in ast.walk(st):
            if isinstance(node, ast.Name) and isinstance(node.ctx, (ast.Store, ast.Del)):
                names.add(node.id)
    return names


def names_reaching_head(stmts):
    """The names a loop body may have assigned when control comes back to the loop head (the iteration ends by falling off the end of
    the body or by `continue`).  An assignment that is followed, on every path, by `break` / `return` / `raise` never reaches the head:
    at the head (and at the normal exit) such a name still has the value it had before the loop, so it is not part of the loop's havoc
    set (`found = False; for x in xs: if c(x): found = True; break`).  Nested loops, try and with blocks are taken as a whole (all
    their assigned names, control may continue after them)."""
    def block(stmts, pre):
        """pre: names assigned so far on this path, or None if the path is dead.  -> (names at fall-through or None, names at continue)"""
        cont = set()
        for st in stmts:
            if pre is None:
                break
            if isinstance(st, (ast.Break, ast.Return, ast.Raise)):
                pre = None
            elif isinstance(st, ast.Continue):
                cont |= pre
                pre = None
            elif isinstance(st, ast.If):
                here = pre | assigned_names([ast.Expr(st.test)])
                f1, c1 = block(st.body, set(here))
                f2, c2 = block(st.orelse, set(here))
                cont |= c1 | c2
                pre = None if f1 is None and f2 is None else (f1 or set()) | (f2 or set())
            else:
                pre = pre | assigned_names([st])
        return pre, cont
    fall, cont = block(stmts, set())
    return (fall or set()) | cont


def flat_env(env):
    """a plain-dict snapshot of an environment (ChainEnv: own names over the defining environment)"""
    if isinstance(env, ChainEnv):
        d = flat_env(env.parent)
        d.update({k: dict.__getitem__(env, k) for k in env.own()})
        return d
    return dict(env)


class ChainEnv(dict):
    """Local variables of a nested function call; other names resolve in the defining environment."""

    def __init__(self, parent):
        dict.__init__(self)
        self.parent = parent

    def own(self):
        return dict.keys(self)

    def __contains__(self, k):
        return dict.__contains__(self, k) or k in self.parent

    def __missing__(self, k):
        return self.parent[k]

    def get(self, k, default=None):
        return self[k] if k in self else default


_HELPER_REJECT = (ast.AsyncFor, ast.Global, ast.Nonlocal, ast.Try, ast.With, ast.AsyncWith, ast.Await, ast.AsyncFunctionDef, ast.ClassDef)


def helper_shape_ok(fn, receiver):
    """the static part of `Interp.helper_closure`: may the function `fn` of the same module (receiver False) / method of the same class
    (receiver True) be executed in place?  -> (ok, is_generator)"""
    a = fn.args
    if a.vararg or a.kwarg or a.posonlyargs:
        return False, False
    gen = _is_generator(fn)
    for n in ast.walk(fn):
        if isinstance(n, _HELPER_REJECT):
            return False, gen
        if gen and (isinstance(n, ast.YieldFrom) or (isinstance(n, ast.Return) and n.value is not None)
                    or (isinstance(n, (ast.FunctionDef, ast.Lambda)) and n is not fn)):
            return False, gen        # a generator helper is its sequence of plain `yield e` statements, nothing else
    if gen and receiver:
        return False, gen
    return True, gen


def method_helper_ok(deco, own_deco, receiver_kind):
    """binding rules for a method of the same class called as `X.name(...)`: receiver_kind 'first' (X is the first parameter of the
    function under contract: `self` of a method, `cls` of a classmethod) or 'instance' (X is another instance of the class, created
    by `__new__` in the function under contract).  A classmethod helper gets the receiver itself as `cls` only when the function under
    contract is a classmethod too and X is its `cls`; `cls.method(...)` of a plain method is an unbound call (not modelled)."""
    if deco not in ([], ['staticmethod'], ['classmethod']):
        return False
    if deco == ['classmethod'] and (own_deco != ['classmethod'] or receiver_kind != 'first'):
        return False
    if deco == [] and receiver_kind == 'first' and own_deco in (['classmethod'], ['staticmethod']):
        return False
    return True


def _deco_names(fn):
    d = [x.id for x in fn.decorator_list if isinstance(x, ast.Name)]
    return d if len(d) == len(fn.decorator_list) else None


class _Scope:
    """names of one function text: parameters, nested function definitions, other bindings (own statements only: nested function and
    class bodies are scopes of their own)"""

    def __init__(self, fn):
        a = fn.args
        self.fn = fn
        self.params = [x.arg for x in a.posonlyargs + a.args]
        self.all_params = set(self.params) | {x.arg for x in a.kwonlyargs} | {x.arg for x in (a.vararg, a.kwarg) if x is not None}
        self.defs, self.stores, self.new_locals, self.complex = {}, {}, {}, False
        self.nodes = []            # own nodes (statements and expressions), pre-order
        todo = list(reversed(fn.body))
        while todo:
            n = todo.pop()
            self.nodes.append(n)
            if isinstance(n, (ast.FunctionDef, ast.AsyncFunctionDef)):
                self.defs.setdefault(n.name, []).append(n)
                continue
            if isinstance(n, ast.ClassDef):
                self.stores[n.name] = self.stores.get(n.name, 0) + 1
                continue
            if isinstance(n, ast.Lambda):
                continue
            if isinstance(n, (ast.Global, ast.Nonlocal)):
                self.complex = True
            if isinstance(n, ast.Name) and isinstance(n.ctx, (ast.Store, ast.Del)):
                self.stores[n.id] = self.stores.get(n.id, 0) + 1
            if isinstance(n, (ast.Import, ast.ImportFrom)):
                for al in n.names:
                    nm = (al.asname or al.name).split('.')[0]
                    self.stores[nm] = self.stores.get(nm, 0) + 1
            if isinstance(n, ast.ExceptHandler) and n.name:
                self.stores[n.name] = self.stores.get(n.name, 0) + 1
            if isinstance(n, ast.Assign) and len(n.targets) == 1 and isinstance(n.targets[0], ast.Name) and isinstance(n.value, ast.Call) \
                    and isinstance(n.value.func, ast.Attribute) and n.value.func.attr == '__new__':
                self.new_locals[n.targets[0].id] = self.new_locals.get(n.targets[0].id, 0) + 1
            todo.extend(reversed(list(ast.iter_child_nodes(n))))

    def binds(self, name):
        return name in self.all_params or name in self.defs or self.stores.get(name, 0) > 0

    def the_def(self, name):
        """the nested function `name` if that is the only binding of the name in this scope"""
        if name in self.all_params or self.stores.get(name, 0) or len(self.defs.get(name, ())) != 1:
            return None
        d = self.defs[name][0]
        return d if isinstance(d, ast.FunctionDef) else None

    def new_instance(self, name):
        """`name` is bound exactly once in this scope, by `name = <class>.__new__(...)`: an instance of the class being constructed"""
        return self.new_locals.get(name, 0) == 1 and self.stores.get(name, 0) == 1 and name not in self.all_params and name not in self.defs


class Expansion:
    """The text of the function under contract WITH the text of every function it calls that the engine executes in place: nested
    functions, undecorated helper functions of the same module, helper methods of the same class called on the receiver (or on an
    instance made by `__new__`), sibling nested functions of the enclosing function -- resolved statically, by name, under the same
    conditions as `Interp.call_closure` / `Interp.helper_closure` apply at run time.  Contract clauses are addressed by ordinals IN
    THIS EXPANSION (`loop #k`, `ListComp#k`, `Accumulator#k`, `If#k`, `assert#k`): a loop, comprehension or statement is the same
    clause's wherever it lives -- in the function itself or in a helper it was moved to -- and a helper called twice contributes its
    text twice (a node is identified by the chain of call sites that leads to it plus the node itself).
      * loops: breadth-first over the function (the historical numbering of `ast.walk`), the body of a callee standing at the place
        and depth of the STATEMENT that contains the call, right after that statement;
      * comprehensions, statements, accumulator loops: source order, the body of a callee standing where the call expression ends.
    A nested function that is called in place somewhere is numbered at its call sites only; one that is only handed around (a sort
    key, a returned closure) stays numbered where it is defined.  Reading the expansion wrongly can only lose obligations: a loop that
    gets no clause (or another loop's clause) stops generation or fails its own entry / preservation obligations."""

    MAX_DEPTH = 4

    def __init__(self, x, env=None, loops=None):
        self.x = x
        self.env0 = env if env is not None else {}
        self.conf = loops or {}
        self.enabled = self.conf.get('inline_helpers', True)
        self.scopes = {}
        self.parent = {}             # id(nested def) -> the function it is defined in
        self.kind = {id(x.node): 'unit'}
        self.callee = {}             # (chain, id(call)) -> (def node, kind)
        self.loop_ordinals, self.stmt_ordinals, self.accumulator_ordinals = {}, {}, {}
        self.loops = []              # [(chain, loop node)] by ordinal
        self.module_defs = None
        self.expanded_defs = set()
        for final in (False, True):
            self.callee.clear()
            self._number_loops()
            self._number_source_order()
            self.expanded_defs = {id(d) for d, k in self.callee.values() if k == 'nested'}
        self.sites = set(self.callee)

    # ---- scopes and static resolution
    def scope(self, fn):
        s = self.scopes.get(id(fn))
        if s is None:
            s = self.scopes[id(fn)] = _Scope(fn)
            for ds in s.defs.values():
                for d in ds:
                    self.parent[id(d)] = fn
                    self.kind.setdefault(id(d), 'nested')
        return s

    def lexical(self, fn):
        out = [fn]
        while id(out[-1]) in self.parent:
            out.append(self.parent[id(out[-1])])
        return out

    def _module_def(self, name):
        if self.module_defs is None:
            self.module_defs = {}
            rel = getattr(self.x, 'relpath', None)
            if rel:
                from . import extract as _x
                try:
                    _, tree = _x.parse_file(rel)
                    for st in tree.body:
                        if isinstance(st, ast.FunctionDef):
                            self.module_defs.setdefault(st.name, []).append(st)
                        elif isinstance(st, ast.Assign):
                            for t in st.targets:
                                if isinstance(t, ast.Name):
                                    self.module_defs.setdefault('=' + t.id, []).append(st)
                except Exception:
                    pass
        return self.module_defs.get(name, [])

    def resolve(self, call, fn):
        """the function definition a call expression in the text of `fn` is executed in place from, with its kind
        ('nested' | 'sibling' | 'module' | 'method'), or None"""
        if not self.enabled:
            return None
        f = call.func
        lex = self.lexical(fn)
        root = lex[-1]
        rkind = self.kind.get(id(root), 'unit')
        if isinstance(f, ast.Name):
            name = f.id
            for sc in lex:
                s = self.scope(sc)
                if s.complex:
                    return None
                d = s.the_def(name)
                if d is not None:
                    a = d.args
                    if d.decorator_list or a.vararg or a.kwarg or a.kwonlyargs or a.posonlyargs:
                        return None
                    return d, 'nested'
                if s.binds(name):
                    return None
            if rkind in ('unit', 'sibling'):
                if name in self.env0:
                    return None
                enc = getattr(self.x, 'enclosing', None)
                if enc is not None:
                    es = self.scope(enc)
                    d = es.the_def(name)
                    if d is not None and d is not self.x.node and not es.complex:
                        ok, gen = helper_shape_ok(d, False)
                        if not ok or gen or d.decorator_list or d.args.kwonlyargs:
                            return None
                        return d, 'sibling'
                    if es.binds(name):
                        return None
            if name in self.conf.get('globals', {}) or name in EXC:
                return None
            if self.conf.get('module_constants') and self._module_def('=' + name):
                return None
            found = self._module_def(name)
            if len(found) != 1 or found[0] is self.x.node or found[0].decorator_list:
                return None
            ok, gen = helper_shape_ok(found[0], False)
            return (found[0], 'module') if ok else None
        if isinstance(f, ast.Attribute) and isinstance(f.value, ast.Name) and self.x.cls is not None and rkind in ('unit', 'method'):
            recv, attr = f.value.id, f.attr
            rk = None
            for sc in lex:
                s = self.scope(sc)
                if s.complex:
                    return None
                if sc is root and s.params and s.params[0] == recv and not (rkind == 'method' and _deco_names(root) == ['staticmethod']):
                    rk = 'first'
                    break
                if s.new_instance(recv):
                    rk = 'instance'
                    break
                if s.binds(recv):
                    return None
            if rk is None:
                return None
            if rkind == 'unit' and rk == 'first':
                v = self.env0.get(recv)
                if isinstance(v, ObjV) and (attr in v.fields or '__getattr__' in v.fields):
                    return None        # the contract knows the attribute
            found = [st for st in self.x.cls.body if isinstance(st, ast.FunctionDef) and st.name == attr]
            if len(found) != 1 or found[0] is self.x.node:
                return None
            deco, own = _deco_names(found[0]), _deco_names(self.x.node)
            if deco is None or own is None:
                return None
            if rkind == 'method' and rk == 'first':
                # `self` of a helper method executed in place is the receiver it was called on: an instance (or the class object when
                # the helper is a classmethod called from a classmethod)
                hd = _deco_names(root)
                rk = 'first' if hd == ['classmethod'] else ('instance' if own in (['classmethod'], ['staticmethod']) else 'first')
            if not method_helper_ok(deco, own, rk):
                return None
            ok, gen = helper_shape_ok(found[0], True)
            return (found[0], 'method') if ok else None
        return None

    def _enter(self, call, fn, chain):
        """the callee of a call in the text of `fn` (reached through `chain`) if it is expanded here, registered as a call site"""
        if len(chain) >= self.MAX_DEPTH:
            return None
        r = self.resolve(call, fn)
        if r is None:
            return None
        d, kind = r
        if any(self.callee.get((chain[:i], chain[i]), (None,))[0] is d for i in range(len(chain))):
            return None              # recursion
        self.callee[(chain, id(call))] = (d, kind)
        if kind != 'nested':
            self.kind[id(d)] = kind
        return d

    @staticmethod
    def _header_calls(st):
        """the call expressions of a statement's own expressions (not of the statements nested in it, not inside a lambda), in the
        order in which their evaluation ENDS"""
        out = []
        todo = [c for c in ast.iter_child_nodes(st) if not isinstance(c, (ast.stmt, ast.excepthandler, getattr(ast, 'match_case', ())))]
        while todo:
            n = todo.pop()
            if isinstance(n, ast.Lambda):
                continue
            if isinstance(n, ast.Call):
                out.append(n)
            todo.extend(ast.iter_child_nodes(n))
        out.sort(key=lambda c: (c.end_lineno, c.end_col_offset))
        return out

    # ---- loops: breadth-first, callee bodies at the place and depth of the calling statement
    def _number_loops(self):
        from collections import deque
        self.loop_ordinals.clear()
        del self.loops[:]
        queue = deque()
        generator_loop = {}

        def visit(node, chain, fn):
            if isinstance(node, (ast.FunctionDef, ast.AsyncFunctionDef)):
                if id(node) in self.expanded_defs:
                    return                     # numbered where it is called
                self.scope(fn)
                for c in ast.iter_child_nodes(node):
                    queue.append((c, chain, node))
                return
            if isinstance(node, (ast.While, ast.For)):
                if isinstance(node, ast.For) and accumulator_shape(node) is not None:
                    # `acc = []; for x in it: [y = e;] [if c:] acc.append(e)` is a comprehension written as a loop: it takes no loop
                    # contract (closed form, see accumulator_loop) and does not shift the ordinals of the other loops
                    self.loop_ordinals[(chain, id(node))] = -1
                elif generator_loop is not None and node is generator_loop.get(id(fn)):
                    self.loop_ordinals[(chain, id(node))] = -1      # the one loop of a generator helper that IS a generator expression
                else:
                    self.loop_ordinals[(chain, id(node))] = len(self.loops)
                    self.loops.append((chain, node))
            if isinstance(node, ast.stmt):
                # (convention: the calling statement first -- it may be a loop itself --, then the text of what it calls)
                for call in self._header_calls(node):
                    d = self._enter(call, fn, chain)
                    if d is not None:
                        if self.callee[(chain, id(call))][1] == 'module' and _is_generator(d):
                            b = [x_ for x_ in _body_without_docstring(d) if not (isinstance(x_, ast.Return) and x_.value is None)]
                            if len(b) == 1 and isinstance(b[0], ast.For) and yield_shape(b[0]) is not None:
                                generator_loop[id(d)] = b[0]
                        for st in _body_without_docstring(d):
                            visit(st, chain + (id(call),), d)
            for c in ast.iter_child_nodes(node):
                queue.append((c, chain, fn))
        for c in ast.iter_child_nodes(self.x.node):
            queue.append((c, (), self.x.node))
        while queue:
            visit(*queue.popleft())

    # ---- comprehensions, statements, accumulator loops: source order, callee bodies where the call expression ends
    def _number_source_order(self):
        self.stmt_ordinals.clear()
        self.accumulator_ordinals.clear()
        counts = {}
        comps, stmts, accs = [], [], []

        def segment(fn, chain, body_nodes):
            items = []

            def gather(f, nodes):
                """own nodes of f (and of the nested functions that are not expanded at a call site)"""
                todo = list(reversed(nodes))
                while todo:
                    n = todo.pop()
                    if isinstance(n, (ast.FunctionDef, ast.AsyncFunctionDef)):
                        items.append(((n.lineno, n.col_offset), 0, n, f))
                        if id(n) not in self.expanded_defs:
                            self.scope(f)
                            gather(n, list(ast.iter_child_nodes(n)))
                        continue
                    if hasattr(n, 'lineno'):
                        if isinstance(n, (ast.stmt, ast.ListComp, ast.GeneratorExp, ast.SetComp, ast.DictComp)):
                            items.append(((n.lineno, n.col_offset), 0, n, f))
                        if isinstance(n, ast.Call) and not in_lambda.get(id(n)):
                            items.append(((n.end_lineno, n.end_col_offset), 1, n, f))
                    if isinstance(n, ast.Lambda):
                        for c in ast.walk(n):
                            in_lambda[id(c)] = True
                    todo.extend(reversed(list(ast.iter_child_nodes(n))))
            in_lambda = {}
            gather(fn, body_nodes)
            items.sort(key=lambda it: (it[0], it[1]))
            for _, is_call, n, f in items:
                if is_call:
                    d = self._enter(n, f, chain)
                    if d is not None:
                        segment(d, chain + (id(n),), list(_body_without_docstring(d)))
                    continue
                if isinstance(n, (ast.ListComp, ast.GeneratorExp, ast.SetComp, ast.DictComp)):
                    comps.append((chain, n))
                else:
                    stmts.append((chain, n))
                    if isinstance(n, ast.For) and self.loop_ordinals.get((chain, id(n))) == -1:
                        accs.append((chain, n))
        stmts.append(((), self.x.node))            # (the function itself is FunctionDef#0, as in a walk over the whole node)
        segment(self.x.node, (), list(ast.iter_child_nodes(self.x.node)))
        for chain, n in comps + stmts:
            t = type(n).__name__
            self.stmt_ordinals[(chain, id(n))] = '%s#%d' % (t, counts.get(t, 0))
            counts[t] = counts.get(t, 0) + 1
        for i, (chain, n) in enumerate(accs):
            self.accumulator_ordinals[(chain, id(n))] = 'Accumulator#%d' % i


def _body_without_docstring(fn):
    body = fn.body
    if body and isinstance(body[0], ast.Expr) and isinstance(body[0].value, ast.Constant) and isinstance(body[0].value.value, str):
        body = body[1:]
    return body


def expanded_loops(extracted, env=None, loops=None):
    """the loop statements of the function under contract in the order of their clause ordinals, those of the helpers executed in
    place included (Expansion): for contracts that read the roles of loop variables off the real code"""
    return [node for _, node in Expansion(extracted, env, loops).loops]


class Interp:
    def __init__(self, eng, path, loops, extracted, env=None):
        self.eng, self.path, self.loops, self.x = eng, path, loops or {}, extracted
        self.try_stack = []         # (handlers, env) of the try statements whose try suite is being executed, innermost last
        # clause ordinals: loops, comprehensions, statements and accumulator loops are numbered in the EXPANSION of the function (its own
        # text with the text of the functions executed in place at their call sites, see Expansion); a node is looked up under the
        # chain of call sites through which it is being executed
        self.exp = Expansion(extracted, env, self.loops)
        self.call_chain = ()
        self._pending_call = None
        self.env0 = env if env is not None else {}
        self.loop_ordinals = {nid: n for (chain, nid), n in self.exp.loop_ordinals.items() if not chain}      # the function's own loops, by id(node)
        self.stmt_ordinals = {nid: n for (chain, nid), n in self.exp.stmt_ordinals.items() if not chain}
        self.accumulator_ordinals = {nid: n for (chain, nid), n in self.exp.accumulator_ordinals.items() if not chain}
        self.walrus_in_comprehension = set()
        self.consumers = {}
        self.index_expressions(extracted.node)

    def loop_ordinal(self, st):
        """clause ordinal of a loop statement being executed: its number in the expansion (-1: accumulator-shaped, a closed form; None: a
        loop the expansion does not reach -- it runs only over a sequence of concrete length)"""
        return self.exp.loop_ordinals.get((self.call_chain, id(st)))

    def stmt_ordinal(self, node):
        """'If#0', 'ListComp#2', ... of a statement / comprehension being executed (ordinal among the nodes of its type in the expansion)"""
        return self.exp.stmt_ordinals.get((self.call_chain, id(node)))

    def accumulator_ordinal(self, st):
        return self.exp.accumulator_ordinals.get((self.call_chain, id(st)))

    def enter_call(self, clo):
        """the chain of call sites under which the body of a function executed in place is looked up: the current chain plus the call
        expression being evaluated when the expansion resolved that call to this function; otherwise the function is numbered where
        it is defined (a closure invoked by a contract, e.g. a sort key)"""
        site, self._pending_call = self._pending_call, None
        key = (self.call_chain, id(site)) if site is not None else None
        if key is not None and self.exp.callee.get(key, (None,))[0] is clo.node:
            return self.call_chain + (id(site),)
        return getattr(clo, 'def_chain', ())

    def index_expressions(self, root):
        """static facts about the expressions of a function text that is executed (the function under contract, a helper executed in
        place): assignment expressions inside comprehensions, call expressions in a consuming position"""
        self.walrus_in_comprehension |= {id(w) for c in ast.walk(root)
                                         if isinstance(c, (ast.ListComp, ast.GeneratorExp, ast.SetComp, ast.DictComp, ast.Lambda))
                                         for w in ast.walk(c) if isinstance(w, ast.NamedExpr)}
        self.consumers.update(consuming_positions(root))

    def index_helper(self, fn):
        """static facts about the expressions of a helper executed in place (its loops, comprehensions and statements have their
        ordinals from the expansion)"""
        done = self.__dict__.setdefault('_indexed_helpers', set())
        if id(fn) not in done:
            done.add(id(fn))
            self.index_expressions(fn)

    def call_closure(self, clo, args, kwargs):
        """Call of a nested function of the function under contract: its body is executed in place (it is part of the
        verified text), free variables resolve in the defining environment."""
        if not getattr(clo, 'callable', False):
            raise Unsupported('call of nested function %s with a complex signature' % clo.node.name)
        if getattr(clo, 'generator_helper', False):
            raise Unsupported('generator helper %s whose value is not consumed at the call site' % clo.node.name)
        outer_chain, self.call_chain = self.call_chain, self.enter_call(clo)
        try:
            return self.run_closure(clo, args, kwargs)
        finally:
            self.call_chain = outer_chain

    def run_closure(self, clo, args, kwargs):
        inner = self.bind_closure_args(clo, args, kwargs)
        body = clo.node.body
        if body and isinstance(body[0], ast.Expr) and isinstance(body[0].value, ast.Constant) and isinstance(body[0].value.value, str):
            body = body[1:]
        ghook = self.loops.get('generator_closure')
        if ghook is not None and _is_generator(clo.node):
            # a nested generator function under a `generator_closure` clause: its body is run to exhaustion at the call and the
            # segments it yields are handed to the contract (which states why eager evaluation is admissible and builds the iterable)
            outer_out = self.path.out
            self.path.out = []
            try:
                try:
                    self.exec_block(body, inner)
                except _Return:
                    pass
                segs = self.path.out
            finally:
                self.path.out = outer_out
            return ghook(self.path, clo.node.name, segs)
        helper = getattr(clo, 'generator_helper', None) is not None      # a helper executed in place (helper_closure): bounded nesting
        if helper:
            self._helper_depth = getattr(self, '_helper_depth', 0) + 1
        try:
            self.exec_block(body, inner)
        except _Return as r:
            return r.value
        finally:
            if helper:
                self._helper_depth -= 1
        return NONE

    def bind_closure_args(self, clo, args, kwargs):
        params = [x.arg for x in clo.node.args.args]
        kwonly = [x.arg for x in clo.node.args.kwonlyargs]      # keyword-only parameters (helpers executed in place)
        if len(args) > len(params):
            raise PyRaise('TypeError')
        inner = ChainEnv(clo.env)
        for nm, v in zip(params, args):
            inner[nm] = v
        for nm, v in kwargs.items():
            if (nm not in params and nm not in kwonly) or nm in inner.own():
                raise PyRaise('TypeError')
            inner[nm] = v
        nd = len(clo.defaults)
        for nm, v in zip(params[len(params) - nd:], clo.defaults):
            if nm not in inner.own():
                inner[nm] = v
        for nm, v in getattr(clo, 'kw_defaults', {}).items():
            if nm not in inner.own():
                inner[nm] = v
        for nm in params + kwonly:
            if nm not in inner.own():
                raise PyRaise('TypeError')
        return inner

    def helper_closure(self, name, receiver):
        """A helper the function under contract calls and the contract does not know (typically the product of an `extract function`
        refactoring).  Its real body is executed in place, like a nested function: it is part of the verified text, every obligation
        downstream is generated from what it really does.  Candidates:
          * a plain module-level function of the same file (receiver None);
          * when the function under contract is itself a nested function: a sibling nested function of the enclosing function (receiver
            None) -- its free variables are those of the enclosing scope, which the harness gives as the free variables of the function
            under contract (the parameters and locals of that function are not visible to the sibling);
          * a method of the same class called on the first parameter of the method under contract, or on an object the harness marks as
            another instance of that class (`own_instance`, e.g. the result of `object.__new__(cls)`): receiver = that object.
        Only undecorated helpers (methods: also @staticmethod / @classmethod, see method_helper_ok) with a simple signature and without
        try / with / global / nonlocal qualify.  A loop inside is a loop of the expansion (Expansion): it runs under the clause of its
        ordinal there, over a sequence of concrete length, or as the closed form of an accumulator loop.  A GENERATOR helper is executed
        in place only where its value is consumed at the call site, see `call_generator_helper`.  Anything else stays Unsupported."""
        if not self.loops.get('inline_helpers', True):
            return None
        rel = getattr(self.x, 'relpath', None)
        if not rel:
            return None
        if getattr(self, '_helper_depth', 0) > 3:
            return None
        own_deco = _deco_names(self.x.node)
        if own_deco is None:
            return None
        if receiver is not None:
            a0 = self.x.node.args.posonlyargs + self.x.node.args.args
            is_first = a0 and getattr(self, 'receiver0', None) is receiver
            if self.x.cls is None or not (is_first or getattr(receiver, 'own_instance', False)):
                return None
            found = [st for st in self.x.cls.body if isinstance(st, ast.FunctionDef) and st.name == name]
            if len(found) != 1 or found[0] is self.x.node:
                return None
            fn = found[0]
            deco = _deco_names(fn)
            if deco is None or not method_helper_ok(deco, own_deco, 'first' if is_first else 'instance'):
                return None
            ok, gen = helper_shape_ok(fn, True)
            if not ok:
                return None
            parent_env = {}
        else:
            fn = None
            enc = getattr(self.x, 'enclosing', None)
            if enc is not None:
                es = _Scope(enc)
                d = es.the_def(name)
                if d is not None and d is not self.x.node and not es.complex and not d.decorator_list and not d.args.kwonlyargs:
                    fn = d
                    # the enclosing scope as the harness gives it: the initial environment without the names the function under contract
                    # binds itself (its parameters and locals are not visible to a sibling)
                    own = _Scope(self.x.node)
                    parent_env = {k: v for k, v in self.env0.items() if not own.binds(k)}
                elif es.binds(name):
                    return None
            if fn is None:
                from . import extract as _x
                try:
                    _, tree = _x.parse_file(rel)
                except Exception:
                    return None
                found = [st for st in tree.body if isinstance(st, ast.FunctionDef) and st.name == name]
                if len(found) != 1 or found[0] is self.x.node or found[0].decorator_list:
                    return None
                fn = found[0]
                parent_env = {}
            ok, gen = helper_shape_ok(fn, False)
            if not ok or (gen and parent_env):
                return None
            deco = []
        a = fn.args
        self.index_helper(fn)
        clo = ClosureV(fn, ChainEnv(parent_env))
        clo.callable = True
        clo.defaults = [self.eval(d, {}) for d in a.defaults]
        clo.kw_defaults = {arg.arg: self.eval(d, {}) for arg, d in zip(a.kwonlyargs, a.kw_defaults) if d is not None}
        clo.generator_helper = gen
        self.eng.inlined_helpers.add(name if receiver is None else '%s.%s' % (self.x.cls.name, name))
        if receiver is None:
            return clo
        if deco == ['staticmethod']:
            return FuncV('helper.' + name, lambda p, args, kw, _c=clo: self.call_closure(_c, list(args), kw))
        return FuncV('helper.' + name, lambda p, args, kw, _c=clo, _o=receiver: self.call_closure(_c, [_o] + list(args), kw))

    def call_generator_helper(self, clo, args, kwargs, consumer):
        """Call of a generator helper of the same module (helper_closure) whose value is consumed at the call site
        (`consumer`, see consuming_positions; a generator object that gets a name could be consumed partially, twice, or interleaved with
        anything -- unsupported).  Python runs the body lazily, one segment per item the consumer asks for; the engine runs it at the
        call.  That is the same computation exactly when nothing the body does is interleaved with something the consumer does:

          (1) the body is ONE loop `for x in it: [y = e;]* [if c:]* yield e` over a contract iterable: the generator IS the generator
              expression `(e for x in it if c)` (local bindings per item, in order) and gets the engine's closed form of a
              comprehension (item k is computed from it[k] alone, on demand), under the same standing assumption as every closed form:
              the element and the conditions are side-effect free (contract functions called there are pure).  Any consumer.
          (2) any other body (straight-line yields, loops over sequences of concrete length) is run to exhaustion at the call and gives
              the list of the yielded values -- admissible for a COLLECTING consumer only (`f(*g(..))`, `list(g(..))`, `tuple(g(..))`):
              it exhausts the generator before anything else happens and does nothing between two items, so every effect of the body
              precedes everything after the call in both evaluation orders, and an exception of the body leaves at the same point.
              With an iterating consumer (`for`, a comprehension, `yield from`) the consumer's code would run between the segments:
              unsupported."""
        outer_chain, self.call_chain = self.call_chain, self.enter_call(clo)
        try:
            return self.run_generator_helper(clo, args, kwargs, consumer)
        finally:
            self.call_chain = outer_chain

    def run_generator_helper(self, clo, args, kwargs, consumer):
        fn = clo.node
        inner = self.bind_closure_args(clo, args, kwargs)
        body = list(fn.body)
        if body and isinstance(body[0], ast.Expr) and isinstance(body[0].value, ast.Constant) and isinstance(body[0].value.value, str):
            body = body[1:]
        while body and isinstance(body[-1], ast.Return) and body[-1].value is None:
            body = body[:-1]
        if len(body) == 1 and isinstance(body[0], ast.For) and yield_shape(body[0]) is not None:
            st = body[0]
            steps, elt = yield_shape(st)
            it = _chars(self.eval(st.iter, inner))
            if isinstance(it, ObjV) and '__iter__' in it.fields:
                it = self.call(it.fields['__iter__'], [it], {})
            if isinstance(it, (IterV, SeqV)):
                return self.closed_loop_form(st.target, steps, elt, it, inner)
        if consumer != 'collect':
            raise Unsupported('generator helper %s consumed by an iterating consumer and not of the one-loop form' % fn.name)
        outer_out = self.path.out
        self.path.out = []
        depth = getattr(self, '_helper_depth', 0)
        self._helper_depth = depth + 1
        try:
            try:
                self.exec_block(body, inner)
            except _Return:
                pass
            segs = self.path.out
        finally:
            self.path.out = outer_out
            self._helper_depth = depth
        return ListV(segs)

    def bind_defaults(self, env):
        """Parameters the harness leaves unbound get their default expression from the real signature
        (evaluated in the contract's globals, as at definition time)."""
        a = self.x.node.args
        pos = a.posonlyargs + a.args
        self.receiver0 = env.get(pos[0].arg) if pos and self.x.cls is not None and pos[0].arg in env else None
        self.check_api_defaults(a, pos)
        for arg, d in zip(pos[len(pos) - len(a.defaults):], a.defaults):
            if arg.arg not in env:
                env[arg.arg] = self.eval(d, {})
        for arg, d in zip(a.kwonlyargs, a.kw_defaults):
            if d is not None and arg.arg not in env:
                env[arg.arg] = self.eval(d, {})
        for arg in pos + a.kwonlyargs:
            if arg.arg not in env:
                raise Unsupported('parameter %r is not bound by the harness and has no default' % arg.arg)

    def check_api_defaults(self, a, pos):
        """The default values in the real signature are part of the function's contract (callers rely on them, and a harness that
        binds the parameter to a symbolic value would never read them): one obligation per defaulted parameter against the
        committed table checks/api_defaults.json."""
        rel = getattr(self.x, 'relpath', None)
        if not rel or rel.startswith('ABS:'):
            return
        table = _api_defaults().get(rel, {}).get(self.x.qualname, {})
        have = {}
        for arg, d in zip(pos[len(pos) - len(a.defaults):], a.defaults):
            have[arg.arg] = ast.unparse(d)
        for arg, d in zip(a.kwonlyargs, a.kw_defaults):
            if d is not None:
                have[arg.arg] = ast.unparse(d)
        for name in sorted(set(have) | set(table)):
            self.path.oblige('signature/default-of-%s' % name, 'signature', BoolVal(have.get(name) == table.get(name)))

    # ---- statements
    def exec_block(self, stmts, env):
        for st in stmts:
            self.exec_stmt(st, env)

    def exec_stmt(self, st, env):
        p = self.path
        hooks = self.loops.get('before')
        if hooks:
            h = hooks.get(self.stmt_ordinal(st))
            if h is not None:
                h(p, EnvView(env, p))      # `use lemma` hints attached to a statement ordinal
        if isinstance(st, ast.Expr):
            if isinstance(st.value, ast.Constant) and isinstance(st.value.value, str):
                return
            if isinstance(st.value, ast.Yield):
                p.out.append(self.eval(st.value.value, env) if st.value.value else NONE)
                hook = self.loops.get('on_yield')
                if hook:
                    hook(p, env, p.out[-1])
                return
            if isinstance(st.value, ast.YieldFrom):
                # `yield from E` as a statement: one yield per item of a concrete sequence; a contract iterable (symbolic length)
                # is handed to the contract's `on_yield_from` clause (the ghost sequence p.out gets a marker, so that a
                # `yields` clause or a count of p.out never overlooks it)
                v = self.eval(st.value.value, env)
                if isinstance(v, (TupleV, ListV)):
                    hook = self.loops.get('on_yield')
                    for item in list(v.items):
                        p.out.append(item)
                        if hook:
                            hook(p, env, item)
                    return
                hook = self.loops.get('on_yield_from')
                if hook is None:
                    raise Unsupported('yield from a contract iterable without an on_yield_from clause')
                if self.loops.get('yield_from_marker', True):
                    marker = ObjV('yield-from', {}, name='yield from')
                    marker.iterable = v
                    p.out.append(marker)
                hook(p, env, v)
                return
            self.eval(st.value, env)
        elif isinstance(st, ast.Assign):
            bat = self.loops.get('before_assign_to')
            if bat:
                for tgt in st.targets:
                    if isinstance(tgt, ast.Name) and tgt.id in bat:
                        bat[tgt.id](p, EnvView(env, p))
            v = self.eval(st.value, env)
            for tgt in st.targets:
                self.assign(tgt, v, env)
        elif isinstance(st, ast.AnnAssign):
            if st.value is not None:
                self.assign(st.target, self.eval(st.value, env), env)
        elif isinstance(st, ast.AugAssign):
            cur = self.eval(_load(st.target), env)
            v = self.binop(st.op, cur, self.eval(st.value, env), inplace=True)
            if v is not None:
                self.assign(st.target, v, env)
        elif isinstance(st, ast.If):
            if p.branch_truthy(self.eval(st.test, env)):
                self.exec_block(st.body, env)
            else:
                self.exec_block(st.orelse, env)
        elif isinstance(st, ast.While):
            self.exec_while(st, env)
        elif isinstance(st, ast.For):
            self.exec_for(st, env)
        elif isinstance(st, ast.Return):
            raise _Return(self.eval(st.value, env) if st.value is not None else NONE)
        elif isinstance(st, ast.Pass):
            pass
        elif isinstance(st, ast.Continue):
            raise _Continue()
        elif isinstance(st, ast.Break):
            raise _Break()
        elif isinstance(st, ast.Raise):
            if st.exc is None:
                raise Unsupported('bare raise')
            v = self.eval(st.exc, env)
            if isinstance(v, ClassV):
                raise PyRaise(v.name)
            if isinstance(v, ObjV) and v.cls in EXC:
                p.ghost['raised'] = v
                raise PyRaise(v.cls, v)
            raise Unsupported('raise of %r' % (v,))
        elif isinstance(st, ast.Assert):
            v = self.eval(st.test, env)
            # named by the ordinal among the function's assert statements (a line offset would move with every edit above it)
            p.oblige('assert#%s' % str(self.stmt_ordinal(st) or 'Assert#?').split('#')[-1], 'assert', truthy(v))
        elif isinstance(st, ast.Try):
            self.exec_try(st, env)
        elif isinstance(st, ast.With):
            # `with E as f:` -- f = E.__enter__() (the object itself for file-like contract objects); __exit__ runs on every exit
            # and is modelled by the contract object (`closed` flag); exceptions inside the body propagate
            mgrs = []
            for item in st.items:
                m = self.eval(item.context_expr, env)
                v = m
                if isinstance(m, ObjV) and '__enter__' in m.fields:
                    v = self.call(m.fields['__enter__'], [m], {})
                if item.optional_vars is not None:
                    self.assign(item.optional_vars, v, env)
                mgrs.append(m)
            try:
                self.exec_block(st.body, env)
            finally:
                for m in reversed(mgrs):
                    if isinstance(m, ObjV):
                        m.closed = True
        elif isinstance(st, ast.Delete):
            for t in st.targets:
                if isinstance(t, ast.Name):
                    env.pop(t.id, None)
                else:
                    raise Unsupported('del of non-name')
        elif isinstance(st, ast.Import):
            # `import m [as n]` inside a function: the module object is given by the contract (`modules` clause), never loaded
            mods = self.loops.get('modules', {})
            for al in st.names:
                if al.name not in mods:
                    raise Unsupported('import of %s without a contract module' % al.name)
                if al.asname is None and '.' in al.name:
                    raise Unsupported('import of the dotted name %s' % al.name)
                env[al.asname or al.name] = mods[al.name]
        elif isinstance(st, ast.FunctionDef):
            # a closure: the function text plus the defining environment (captured by reference)
            if st.decorator_list:
                raise Unsupported('decorated nested function %s' % st.name)
            clo = ClosureV(st, env)
            clo.def_chain = self.call_chain
            a = st.args
            if a.vararg or a.kwarg or a.kwonlyargs or a.posonlyargs:
                clo.callable = False
            else:
                clo.callable = True
                clo.defaults = [self.eval(d, env) for d in a.defaults]      # default values are evaluated at definition time
            env[st.name] = clo
        else:
            raise Unsupported('statement %s' % type(st).__name__)

    def catches(self, excname):
        """the statement being executed sits in the try suite of a `try` with a handler for `excname` (A-EXC: an index / key that may
        be absent is an obligation UNLESS the code catches the exception; a library contract asks here and then raises instead)"""
        for handlers, env in reversed(self.try_stack):
            for h in handlers:
                if h.type is None or exc_matches(excname, self.eval(h.type, env)):
                    return True
        return False

    def exec_try(self, st, env):
        if st.finalbody:
            # try/.../finally: the finally suite runs on every exit of the python program (normal end, return, break, continue,
            # exception); an exit of its own (raise / return) supersedes the pending one.  Engine-level ends of a path (PathEnd,
            # Unsupported) are not exits of the program and pass through.
            try:
                self.exec_try_core(st, env)
            except (PyRaise, _Return, _Continue, _Break):
                self.exec_block(st.finalbody, env)
                raise
            self.exec_block(st.finalbody, env)
            return
        self.exec_try_core(st, env)

    def exec_try_core(self, st, env):
        if not st.handlers:
            self.exec_block(st.body, env)
            self.exec_block(st.orelse, env)
            return
        try:
            # the handlers protect the try suite only (not the handlers themselves, nor else / finally)
            self.try_stack.append((st.handlers, env))
            try:
                self.exec_block(st.body, env)
            finally:
                self.try_stack.pop()
        except PyRaise as r:
            for h in st.handlers:
                if h.type is None or exc_matches(r.exc, self.eval(h.type, env)):
                    if h.name:
                        env[h.name] = r.value or ObjV(r.exc)
                    self.exec_block(h.body, env)
                    return
            raise
        self.exec_block(st.orelse, env)

    def havoc(self, names, env):
        for v in sorted(names):
            if v in env:
                cur = env[v]
                if isinstance(cur, IntV):
                    env[v] = IntV(self.path.fresh_int(v), cur.tag)
                elif isinstance(cur, BoolV):
                    env[v] = BoolV(self.path.fresh_bool(v))
                elif isinstance(cur, TupleV) and ('havoc_' + v) not in self.loops and self._plain(cur):
                    env[v] = self._fresh_like(cur, v)      # immutable tuple of ints/bools: arbitrary such tuple
                else:
                    hv = self.loops.get('havoc_' + v)
                    if hv is None:
                        # no arbitrary value of this kind can be made up: the name is poisoned instead -- it may be assigned again
                        # (a throw-away target like `_`), any READ of it before that is Unsupported
                        env[v] = PoisonV(v, type(cur).__name__)
                        continue
                    env[v] = hv(self.path, cur)

    def _plain(self, v):
        return isinstance(v, (IntV, BoolV)) or (isinstance(v, TupleV) and all(self._plain(x) for x in v.items))

    def _fresh_like(self, v, hint):
        if isinstance(v, IntV):
            return IntV(self.path.fresh_int(hint), v.tag)
        if isinstance(v, BoolV):
            return BoolV(self.path.fresh_bool(hint))
        return TupleV([self._fresh_like(x, hint) for x in v.items])

    def exec_while(self, st, env):
        p = self.path
        n = self.loop_ordinal(st)
        spec = self.loops.get(n) if n is not None else None
        if spec is None:
            if self.unroll_while(st, env):
                return
            raise Unsupported('while loop #%s without invariant' % n)
        if st.orelse:
            raise Unsupported('while/else')
        if spec.is_indexed():
            return self.exec_index_while(st, env, n, spec)
        if getattr(spec, 'on_entry', None):
            spec.on_entry(p, env)
        for nm, f in spec.inv('entry', EnvView(env, p)):
            p.oblige('inv.entry#%d/%s' % (n, nm), 'inv.entry', f)
        mod = names_reaching_head(st.body) | assigned_names([ast.Expr(st.test)]) | set(getattr(spec, 'modifies', ()))
        for v in list(mod):
            if v not in env:
                mod.discard(v)
        self.havoc(mod, env)
        if spec.ghost_havoc:
            spec.ghost_havoc(p, env)
        for nm, f in spec.inv('assume', EnvView(env, p)):
            p.assume(f)
        if p.branch_truthy(self.eval(st.test, env)):
            v0 = spec.decreases(EnvView(env, p)) if spec.decreases else None
            try:
                self.exec_block(st.body, env)
            except _Continue:
                pass
            except _Break:
                # the path leaves the loop from inside the body: execution continues after the loop in the state AT THE BREAK -- the
                # invariant assumed at the head of this iteration, the loop test (true at that head) and the effects of the part of
                # the body that was executed.  Neither the invariant nor the variant is owed (no further iteration is entered) and
                # the negated loop test is NOT assumed.  The clause may take note of the exit (`on_break`: ghost state, obligations).
                if getattr(spec, 'on_break', None):
                    spec.on_break(p, env)
                return
            for nm, f in spec.inv('preserve', EnvView(env, p)):
                p.oblige('inv.preserve#%d/%s' % (n, nm), 'inv.preserve', f)
            if v0 is not None:
                v1 = spec.decreases(EnvView(env, p))
                p.oblige('variant#%d' % n, 'variant', And(v1 >= 0, v1 < v0))
            raise BodyEnd('loop body done')
        # exit: invariant and not cond are in pc

    def unroll_while(self, st, env, limit=256):
        """a while loop without a clause whose test has a concrete truth value every time it is evaluated is plain execution (a loop
        over a literal table written with an index): run as it is, up to `limit` iterations"""
        count = 0
        while True:
            c = z3.simplify(truthy(self.eval(st.test, env)))
            if z3.is_false(c):
                self.exec_block(st.orelse, env)
                return True
            if not z3.is_true(c):
                if count == 0:
                    return False
                raise Unsupported('while loop without invariant: the test is no longer concrete after %d iterations' % count)
            count += 1
            if count > limit:
                raise Unsupported('while loop without invariant: more than %d concrete iterations' % limit)
            try:
                self.exec_block(st.body, env)
            except _Continue:
                continue
            except _Break:
                return True

    def exec_index_while(self, st, env, n, spec):
        """The index spelling `I = 0; while I < BOUND: ...; I += 1` (index_loop_shape) of a loop whose clause is the clause of a `for`
        loop (its invariant takes the number k of items processed): the ghost index IS the index variable.  Read off the code and
        checked: I is 0 at entry, 0 <= BOUND, every completed iteration leaves I = k + 1 and BOUND unchanged (obligations
        `index-range`); then the clause runs exactly as for the `for` loop -- entry with k = 0, preservation from k to k + 1, at the exit
        k = BOUND.  The body fetches its items itself (`x = seq[I]`: an index obligation of the sequence)."""
        p = self.path
        shape = index_loop_shape(st)
        if shape is None:
            raise Unsupported('while loop #%d under the clause of a for-loop is not of the index form' % n)
        name, bound_node = shape
        cur = env.get(name)
        if not (isinstance(cur, IntV) and z3.is_int_value(z3.simplify(cur.t)) and z3.simplify(cur.t).as_long() == 0):
            raise Unsupported('index loop #%d: %s is not 0 at the loop entry' % (n, name))
        if getattr(spec, 'yields', None) is not None:
            raise Unsupported('index loop #%d under a clause with a yields part' % n)

        def bound():
            b = self.eval(bound_node, env)
            if not isinstance(b, IntV):
                raise Unsupported('index loop #%d: the bound is not an int' % n)
            return b.t
        b0 = bound()
        p.ghost.pop('iter#%d' % n, None)
        if getattr(spec, 'on_entry', None):
            spec.on_entry(p, env)
        p.oblige('inv.entry#%d/index-range' % n, 'inv.entry', 0 <= b0)
        for nm, f in spec.inv('entry', EnvView(env, p), IntVal(0)):
            p.oblige('inv.entry#%d/%s' % (n, nm), 'inv.entry', f)
        mod = names_reaching_head(st.body) | set(getattr(spec, 'modifies', ()))
        self.havoc({v for v in mod if v in env}, env)
        k = p.fresh_int('k')
        env[name] = IntV(k)
        for o in getattr(spec, 'havoc_objs', ()):
            o.havoc(p)
        if spec.ghost_havoc:
            spec.ghost_havoc(p, env)
        bh = bound()
        p.assume(And(k >= 0, k <= bh, bh == b0))
        for nm, f in spec.inv('assume', EnvView(env, p), k):
            p.assume(f)
        if p.branch_truthy(self.eval(st.test, env)):
            p.ghost['k'] = p.ghost['k#%d' % n] = k
            n_out = len(p.out)
            try:
                self.exec_block(st.body, env)
            except _Continue:
                raise Unsupported('continue in an index loop')
            except _Break:
                if len(p.out) != n_out:
                    raise Unsupported('break in an index loop that yields')
                if getattr(spec, 'on_break', None):
                    spec.on_break(p, env)
                return
            if len(p.out) != n_out:
                raise Unsupported('yield inside a contract loop without a yields clause')
            after = env.get(name)
            p.oblige('inv.preserve#%d/index-range' % n, 'inv.preserve',
                     And(after.t == k + 1, bound() == bh) if isinstance(after, IntV) else BoolVal(False))
            for nm, f in spec.inv('preserve', EnvView(env, p), k + 1):
                p.oblige('inv.preserve#%d/%s' % (n, nm), 'inv.preserve', f)
            raise BodyEnd('loop body done')
        # exit: the invariant for k, not (k < BOUND) and k <= BOUND are in pc, hence k = BOUND

    def exec_for(self, st, env):
        p = self.path
        n = self.loop_ordinal(st)
        it = _chars(self.eval(st.iter, env))
        if n == -1 and self.accumulator_form(st, it, env):
            return
        if isinstance(it, ObjV) and '__iter__' in it.fields:
            it = self.call(it.fields['__iter__'], [it], {})      # an iterable object of the contract: a concrete list of items, or a contract iterable
        if isinstance(it, (TupleV, ListV)):
            items = list(it.items)       # A-SEQ: a body that mutates the iterated list is rejected
            broke = False
            for item in items:
                if isinstance(it, ListV) and len(it.items) != len(items):
                    raise Unsupported('for body mutates the iterated list')
                self.assign(st.target, item, env)
                try:
                    self.exec_block(st.body, env)
                except _Continue:
                    continue
                except _Break:
                    broke = True
                    break
            if not broke:
                self.exec_block(st.orelse, env)      # for/else: the else suite runs unless the loop was left by break
            return
        if st.orelse:
            raise Unsupported('for/else over a sequence of symbolic length')
        orig_it = it
        if isinstance(it, SeqV):
            it = IterV(it.at, it.length, it.name)
        if not isinstance(it, IterV):
            raise Unsupported('for over %s' % type(it).__name__)
        if n == -1:
            # an accumulator-SHAPED loop (`for x in it: NAME.append(e)`) that is not the closed form of a local list (NAME is an object
            # of the contract, e.g. `self`): it may run under a clause keyed by its accumulator ordinal, 'Accumulator#k'
            if self.accumulator_loop(st, orig_it, env):
                return
            n = self.accumulator_ordinal(st)
        spec = self.loops.get(n) if n is not None else None
        if spec is None:
            if self.accumulator_loop(st, orig_it, env):
                return
            if n is not None and self.comprehension_spec_loop(st, it, env):
                return
            raise Unsupported('for loop #%s without invariant' % n)
        p.assume(it.length >= 0)
        p.ghost['iter#%s' % n] = it      # the iterable of the contract loop, visible to its clauses (e.g. to read off the iteration order)
        if getattr(spec, 'on_entry', None):
            spec.on_entry(p, env)
        for nm, f in spec.inv('entry', EnvView(env, p), IntVal(0)):
            p.oblige('inv.entry#%s/%s' % (n, nm), 'inv.entry', f)
        mod = names_reaching_head(st.body) | assigned_names([ast.Expr(st.target)]) | set(getattr(spec, 'modifies', ()))
        for v in list(mod):
            if v not in env:
                mod.discard(v)
        self.havoc(mod, env)
        k = p.fresh_int('k')
        p.assume(And(k >= 0, k <= it.length))
        for o in getattr(spec, 'havoc_objs', ()):
            o.havoc(p)
        if spec.ghost_havoc:
            spec.ghost_havoc(p, env)
        for nm, f in spec.inv('assume', EnvView(env, p), k):
            p.assume(f)
        if p.branch(k < it.length):
            p.ghost['k'] = p.ghost['k#%s' % n] = k      # ghost loop index, visible to `use lemma` hooks
            item = it.at(k)
            if it.facts:
                p.assume(it.facts(k))
            self.assign(st.target, item, env)
            n_out = len(p.out)
            ys = getattr(spec, 'yields', None)
            if ys is not None:
                ycond, yval = ys(EnvView(env, p), k)        # evaluated in the state at the start of the iteration
            try:
                self.exec_block(st.body, env)
            except _Continue:
                pass
            except _Break:
                # as in exec_while: the state at the break is the invariant for the first k items, item k bound to the target and the
                # effects of the executed part of the body; `k == len` (exhaustion) is not assumed.  A yield before the break in a loop
                # with a `yields` clause (which speaks about whole iterations) stays unsupported.
                if ys is not None or len(p.out) != n_out:
                    raise Unsupported('break in a contract for-loop that yields')
                if getattr(spec, 'on_break', None):
                    spec.on_break(p, env)
                return
            if ys is not None:
                # the loop is a filter/map of its iterable: iteration k yields exactly `yval` iff `ycond`
                new = p.out[n_out:]
                p.oblige('yield#%s/count' % n, 'yield', BoolVal(len(new) <= 1))
                p.oblige('yield#%s/iff' % n, 'yield', ycond == BoolVal(len(new) == 1))
                if len(new) == 1:
                    p.oblige('yield#%s/value' % n, 'yield', yval(new[0]) if callable(yval) else self.values_equal(new[0], yval))
            elif len(p.out) != n_out:
                raise Unsupported('yield inside a contract loop without a yields clause')
            for nm, f in spec.inv('preserve', EnvView(env, p), k + 1):
                p.oblige('inv.preserve#%s/%s' % (n, nm), 'inv.preserve', f)
            raise BodyEnd('loop body done')
        p.assume(k == it.length)

    def comprehension_spec_loop(self, st, it, env):
        """The explicit-loop spelling of an impure comprehension that has a `comprehension_loops` clause:
            {elt for x in xs if c1 and not side_effect(...)}   <->   acc = set(); for x in xs: if c1: side_effect(...); acc.add(elt)
            [elt for x in xs if c1 and not side_effect(...)]   <->   acc = [];    for x in xs: if c1: side_effect(...); acc.append(elt)
        The clause (entry / preservation of an invariant over the loop index and the accumulated collection) is about the iteration, not
        about the spelling: when the comprehension it is keyed by is absent from the current source and this loop fills a local that
        holds the empty set built by `set()` / an empty list, the loop is run under the same clause and generates the same obligations.
        The accumulator becomes the heap object `spec.result(acc)`, so the body's real statements (add / append / remove / membership
        tests) act on it.  For a list every reference to the empty list (other locals, fields of objects: `self._items = items = []`) is
        redirected to the heap object and the old value is made unusable (a reference that was missed cannot be read silently)."""
        cspecs = self.loops.get('comprehension_loops', {})
        live = set(self.exp.stmt_ordinals.values())
        used = self.__dict__.setdefault('_cspecs_used', set())
        for kind, attr in (('SetComp#', 'add'), ('ListComp#', 'append')):
            unused = [k for k in cspecs if k not in live and k.startswith(kind) and k not in used]
            if len(unused) != 1:
                continue
            tag, spec = unused[0], cspecs[unused[0]]
            names = {c.func.value.id for c in ast.walk(st) if isinstance(c, ast.Call) and isinstance(c.func, ast.Attribute)
                     and c.func.attr == attr and isinstance(c.func.value, ast.Name)}
            if kind == 'SetComp#':
                names = {nm for nm in names if nm in env and isinstance(env[nm], ObjV) and env[nm].cls == 'set'
                         and env[nm].name == 'set()' and not env[nm].fields}
            else:
                names = {nm for nm in names if nm in env and type(env[nm]) is ListV and not env[nm].items}
            if len(names) != 1:
                continue
            name = names.pop()
            marker = env[name]
            if kind == 'SetComp#' and any(v is marker for nm, v in flat_env(env).items() if nm != name):
                continue        # the empty set has another name: replacing the local would lose the alias
            used.add(tag)
            self.run_comprehension_spec_loop(st, it, env, tag, spec, name, marker, kind)
            return True
        return False

    def run_comprehension_spec_loop(self, st, it, env, tag, spec, name, marker, kind):
        p = self.path
        p.assume(it.length >= 0)
        if getattr(spec, 'on_entry', None):
            spec.on_entry(p, env)
        for nm, f in spec.invariant(EnvView(env, p), IntVal(0), spec.acc0):
            p.oblige('inv.entry@%s/%s' % (tag, nm), 'inv.entry', f)
        aliases = {nm for nm, v in flat_env(env).items() if v is marker}
        mod = (assigned_names(st.body) | assigned_names([ast.Expr(st.target)])) - aliases
        self.havoc({v for v in mod if v in env}, env)
        k = p.fresh_int('k')
        p.assume(And(k >= 0, k <= it.length))
        acc = spec.fresh_acc(p)
        spec.havoc(p)
        obj = spec.result(p, acc)
        if kind == 'ListComp#':
            replace_references(env, marker, obj)
            marker.__class__ = DeadListV
        else:
            env[name] = obj
        for nm, f in spec.invariant(EnvView(env, p), k, acc):
            p.assume(f)
        if p.branch(k < it.length):
            p.ghost['k'] = k
            self.assign(st.target, it.at(k), env)
            if it.facts:
                p.assume(it.facts(k))
            try:
                self.exec_block(st.body, env)
            except _Continue:
                pass
            except _Break:
                raise Unsupported('break in a comprehension-clause loop')
            if env.get(name) is not obj:
                raise Unsupported('the accumulator %s is rebound inside the loop' % name)
            content = spec.content(obj) if hasattr(spec, 'content') else (obj.s if kind == 'ListComp#' else obj.P)
            for nm, f in spec.invariant(EnvView(env, p), k + 1, content):
                p.oblige('inv.preserve@%s/%s' % (tag, nm), 'inv.preserve', f)
            raise PathEnd('comprehension-clause loop body done')
        p.assume(k == it.length)

    def values_equal(self, a, b):
        return values_equal(a, b)

    def accumulator_parts(self, st, env):
        """(steps, append-call, accumulator name) if `st` is an accumulator loop whose accumulator is a local list that is empty
        before the loop and is used in the loop by `.append` only (then the loop IS the list comprehension), else None"""
        shape = accumulator_shape(st)
        if shape is None:
            return None
        steps, call = shape
        name = call.func.value.id
        acc = env.get(name)
        if not (isinstance(acc, ListV) and not acc.items and type(acc) is ListV):
            return None
        for node in ast.walk(st):            # the accumulator must not be used in the body other than by .append
            if isinstance(node, ast.Name) and node.id == name and node is not call.func.value:
                return None
        letnames = {n.id for s_ in steps if s_[0] == 'let' for n in ast.walk(s_[1]) if isinstance(n, ast.Name)}
        if name in letnames:
            return None
        return steps, call, name

    def accumulator_form(self, st, source, env):
        """`accumulator_form` clause, the counterpart of `closed_form` for a comprehension spelled as an accumulator loop: the
        contract gives the list the loop builds (keyed 'Accumulator#k', k-th accumulator-shaped loop in source order) from the
        form-independent view of the comprehension (CompView); the accumulator variable is bound to it."""
        hook = self.loops.get('accumulator_form', {}).get(self.accumulator_ordinal(st))
        if hook is None:
            return False
        shape = self.accumulator_parts(st, env)
        if shape is None:
            return False
        steps, call, name = shape
        self.rebind_accumulator(env, name, hook(self, env, CompView(self, env, 'Accumulator', st.iter, st.target, steps, call.args[0],
                                                                    source=source)))
        return True

    def rebind_accumulator(self, env, name, value):
        """the empty list an accumulator loop fills becomes the closed form of the loop -- under every reference the program has to it
        (`self._items = items = []`), not only under the local name; the old value is made unusable"""
        marker = env[name]
        env[name] = value
        replace_references(env, marker, value)
        marker.__class__ = DeadListV

    def accumulator_loop(self, st, it, env):
        """A for-loop over a contract iterable whose body is `[x = e;] [if c:] acc.append(e)` with `acc` a local list that is
        empty before the loop is the list comprehension [e for x in it if c] (same elements, same order; the local bindings
        are evaluated per element, in order): handled by the comprehension closed form, so that this harmless reformulation
        needs no new invariant."""
        shape = self.accumulator_parts(st, env)
        if shape is None:
            return False
        steps, call, name = shape
        self.rebind_accumulator(env, name, self.closed_loop_form(st.target, steps, call.args[0], it, env))
        return True

    def closed_loop_form(self, target, steps, elt_node, it, env):
        """the closed form of `for target in it: [y = e;]* [if c:]* <emit elt>` over a contract iterable: a filter descriptor, or the
        element-wise map (same length, item k from it[k])"""
        base_env = flat_env(env)

        def run(k, want):
            inner = dict(base_env)
            self.assign(target, it.at(k), inner)
            conds = []
            for s_ in steps:
                if s_[0] == 'let':
                    self.assign(s_[1], self.eval(s_[2], inner), inner)
                else:
                    conds.append(truthy(self.eval(s_[1], inner)))
            if want == 'cond':
                return And(*conds) if len(conds) > 1 else conds[0]
            return self.eval(elt_node, inner)
        if any(s_[0] == 'if' for s_ in steps):
            return FilterV(it, lambda k: run(k, 'cond'), lambda k: run(k, 'elt'))
        r = IterV(lambda k: run(k, 'elt'), it.length, 'map(%s)' % it.name, getattr(it, 'facts', None))
        r.index_shift = getattr(it, 'index_shift', 0)
        return r

    def assign(self, tgt, v, env):
        if isinstance(tgt, ast.Name):
            env[tgt.id] = v
        elif isinstance(tgt, (ast.Tuple, ast.List)):
            stars = [i for i, t in enumerate(tgt.elts) if isinstance(t, ast.Starred)]
            if stars:
                if len(stars) > 1:
                    raise Unsupported('two starred targets')
                nb, na = stars[0], len(tgt.elts) - stars[0] - 1
                before, mid, after = self.unpack_star(v, nb, na)
                for t, x in zip(tgt.elts[:nb], before):
                    self.assign(t, x, env)
                self.assign(tgt.elts[nb].value, mid, env)
                for t, x in zip(tgt.elts[nb + 1:], after):
                    self.assign(t, x, env)
                return
            items = self.unpack(v, len(tgt.elts))
            for t, x in zip(tgt.elts, items):
                self.assign(t, x, env)
        elif isinstance(tgt, ast.Attribute):
            self.store_attr(self.eval(tgt.value, env), tgt.attr, v)
        elif isinstance(tgt, ast.Subscript):
            o = self.eval(tgt.value, env)
            i = self.eval(tgt.slice, env)
            if isinstance(o, ListV) and isinstance(i, IntV) and z3.is_int_value(z3.simplify(i.t)):
                ii = z3.simplify(i.t).as_long()
                if not -len(o.items) <= ii < len(o.items):
                    raise PyRaise('IndexError')
                o.items[ii] = v
            elif isinstance(o, ObjV) and '__setitem__' in o.fields:
                o.fields['__setitem__'].fn(self.path, [o, i, v], {})
            elif isinstance(o, DictV) and isinstance(i, StrV) and i.value is not None:
                o.items[i.value] = v
            else:
                raise Unsupported('subscript store')
        else:
            raise Unsupported('assignment target %s' % type(tgt).__name__)

    def store_attr(self, o, attr, v):
        """`o.attr = v` (also `setattr(o, 'attr', v)` with a literal name)"""
        if not isinstance(o, ObjV):
            raise Unsupported('attribute store on %r' % (o,))
        hook = o.fields.get('__setattr__')
        if hook is not None:
            hook(self.path, o, attr, v)
        else:
            o.fields[attr] = v

    def unpack(self, v, n):
        if isinstance(v, ObjV) and hasattr(v, 'unpack_items'):
            v = TupleV(v.unpack_items)
        if isinstance(v, (TupleV, ListV)):
            if len(v.items) != n:
                raise PyRaise('ValueError')
            return v.items
        if isinstance(v, (IterV, SeqV)) and z3.is_int_value(z3.simplify(v.length)):
            # a contract iterable of concrete length (e.g. a generator expression over range(2)): its elements, each evaluated once
            if z3.simplify(v.length).as_long() != n:
                raise PyRaise('ValueError')
            return [v.at(IntVal(i)) for i in range(n)]
        if isinstance(v, (IterV, SeqV)):
            # a contract sequence of symbolic length: ValueError unless it has exactly n items (both cases are explored when feasible)
            if self.path.branch(v.length == n):
                return [v.at(IntVal(i)) for i in range(n)]
            raise PyRaise('ValueError')
        raise Unsupported('unpacking of %r' % (v,))

    def unpack_star(self, v, nb, na):
        """`a, *m, z = v`: (first nb items, the list of the middle items, last na items); ValueError if there are too few."""
        if isinstance(v, ObjV) and hasattr(v, 'unpack_items'):
            v = TupleV(v.unpack_items)
        if isinstance(v, (TupleV, ListV)):
            if len(v.items) < nb + na:
                raise PyRaise('ValueError')
            hi = len(v.items) - na
            return v.items[:nb], ListV(v.items[nb:hi]), v.items[hi:]
        if isinstance(v, SeqV):
            if not self.path.branch(v.length >= nb + na):
                raise PyRaise('ValueError')
            mid = SeqV(lambda t, _v=v: _v.at(t + nb), v.length - nb - na, '%s[%d:%s]' % (v.name, nb, -na if na else ''))
            mid.star_of = (v, nb, na)
            # a hint for library contracts that quantify over the items (all / any): item t is item t + nb of `v`; a quantifier whose
            # bound variable is the position in `v` has the terms of `v` as patterns (logically the same statement for ANY shift)
            mid.index_shift = getattr(v, 'index_shift', 0) + nb
            return ([v.at(IntVal(i)) for i in range(nb)], mid, [v.at(v.length - na + i) for i in range(na)])
        raise Unsupported('starred unpacking of %r' % (v,))

    # ---- expressions
    def eval(self, node, env):
        p = self.path
        if isinstance(node, ast.Constant):
            c = node.value
            if isinstance(c, bool):
                return BoolV(c)
            if isinstance(c, int):
                return IntV(c)
            if c is None:
                return NONE
            if isinstance(c, str):
                return StrV(c)
            if isinstance(c, bytes):
                # a bytes literal: an opaque object that carries its concrete value (`.value`); no operation is defined on it
                b = ObjV('bytes', {}, name=repr(c))
                b.value = c
                return b
            raise Unsupported('constant %r' % (c,))
        if isinstance(node, ast.Name):
            if node.id in env:
                if isinstance(env[node.id], PoisonV):
                    raise Unsupported('loop modifies %r of unsupported kind %s and it is read afterwards' % (node.id, env[node.id].kind))
                return env[node.id]
            g = self.loops.get('globals', {})
            if node.id in g:
                return g[node.id]
            if node.id in EXC:
                return EXC[node.id]
            if self.loops.get('module_constants'):
                # module-level simple assignments are read from the real module source (part of the verified text)
                from . import extract as _x
                try:
                    expr = _x.module_assign(self.x.relpath, node.id)
                except _x.ExtractionError:
                    expr = None
                if expr is not None:
                    return self.eval(expr, {})
            h = self.helper_closure(node.id, None)
            if h is not None:
                return h
            raise Unsupported('unbound name %r' % node.id)
        if isinstance(node, ast.NamedExpr):
            # `(name := e)`: binds the name in the scope of the FUNCTION and is the value.  Inside a comprehension the engine evaluates
            # the element in a per-item copy of the environment, where the binding would be lost: unsupported there.
            if id(node) in self.walrus_in_comprehension:
                raise Unsupported('assignment expression inside a comprehension')
            v = self.eval(node.value, env)
            self.assign(node.target, v, env)
            return v
        if isinstance(node, ast.Tuple):
            return TupleV([self.eval(e, env) for e in node.elts])
        if isinstance(node, ast.List):
            return ListV([self.eval(e, env) for e in node.elts])
        if isinstance(node, ast.JoinedStr):
            parts = []
            for v in node.values:
                if isinstance(v, ast.FormattedValue):
                    spec = None
                    if v.format_spec is not None:
                        if not all(isinstance(x, ast.Constant) for x in v.format_spec.values):
                            raise Unsupported('computed format spec')
                        spec = ''.join(x.value for x in v.format_spec.values)
                    parts.append(('fmt', self.eval(v.value, env), v.conversion, spec))
                else:
                    parts.append(('lit', v.value))
            return StrV(None, parts=parts)
        if isinstance(node, ast.UnaryOp):
            if isinstance(node.op, ast.Not):
                return BoolV(Not(self.path.truth(self.eval(node.operand, env))))
            v = self.eval(node.operand, env)
            if isinstance(node.op, ast.Invert) and isinstance(v, IntV):
                return IntV(bits.bnot(v.t), v.tag)
            if isinstance(node.op, ast.USub) and isinstance(v, IntV):
                return IntV(-v.t)
            raise Unsupported('unary %s on %r' % (type(node.op).__name__, v))
        if isinstance(node, ast.BinOp):
            tzarg = self.match_tz(node)
            if tzarg is not None:
                v = self.eval(tzarg, env)
                if isinstance(v, IntV):
                    return IntV(bits.tz(v.t))
            return self.binop(node.op, self.eval(node.left, env), self.eval(node.right, env))
        if isinstance(node, ast.BoolOp) and getattr(p, 'quant', 0):
            # inside the element of a quantified closed form (see `bound`): no path decision may depend on the bound variable.
            # `a or b` is the value IteV(truth(a), a, b); what evaluating b adds to the path condition is kept under its guard
            is_or = isinstance(node.op, ast.Or)
            cur = self.eval(node.values[0], env)
            for nxt in node.values[1:]:
                c = truthy(cur)
                guard = Not(c) if is_or else c
                n0 = len(p.pc)
                p.pc.append(guard)
                try:
                    nv = self.eval(nxt, env)
                finally:
                    added = p.pc[n0 + 1:]
                    del p.pc[n0:]
                    p.pc.extend(Implies(guard, f) for f in added)
                cur = IteV(c, cur, nv) if is_or else IteV(c, nv, cur)
            return cur
        if isinstance(node, ast.BoolOp):
            vals = node.values
            cur = self.eval(vals[0], env)
            for nxt in vals[1:]:
                # operand-returning, short-circuit: the right operand is evaluated only on its path
                t = p.branch_truthy(cur)
                if isinstance(node.op, ast.And):
                    if not t:
                        return cur
                else:
                    if t:
                        return cur
                cur = self.eval(nxt, env)
            return cur
        if isinstance(node, ast.Compare):
            left = self.eval(node.left, env)
            res = []
            for op, rn in zip(node.ops, node.comparators):
                right = self.eval(rn, env)       # each operand evaluated once (A-EVAL)
                res.append(self.compare(op, left, right))
                left = right
            return BoolV(And(*res) if len(res) > 1 else res[0])
        if isinstance(node, ast.IfExp):
            if p.branch_truthy(self.eval(node.test, env)):
                return self.eval(node.body, env)
            return self.eval(node.orelse, env)
        if isinstance(node, ast.Attribute):
            attr = node.attr
            if attr.startswith('__') and not attr.endswith('__') and self.x.cls is not None:
                attr = '_%s%s' % (self.x.cls.name.lstrip('_'), attr)        # private name mangling inside a class body
            return self.getattr(self.eval(node.value, env), attr)
        if isinstance(node, ast.Subscript):
            return self.subscript(self.eval(node.value, env), node.slice, env)
        if isinstance(node, ast.Call):
            f = self.eval(node.func, env)
            args = []
            if isinstance(f, ClosureV) and getattr(f, 'generator_helper', False):
                consumer = self.consumers.get(id(node))
                if consumer is None:
                    raise Unsupported('generator helper %s whose value is not consumed at the call site' % f.node.name)
                if any(isinstance(a, ast.Starred) for a in node.args) or any(k.arg is None for k in node.keywords):
                    raise Unsupported('generator helper called with unpacked arguments')
                gargs = [self.eval(a, env) for a in node.args]
                gkw = {k.arg: self.eval(k.value, env) for k in node.keywords}
                self._pending_call = node
                try:
                    return self.call_generator_helper(f, gargs, gkw, consumer)
                finally:
                    self._pending_call = None
            if isinstance(node.func, ast.Name) and node.func.id == 'super' and not node.args and not node.keywords:
                # zero-argument super(): bound to the CURRENT value of the first parameter
                a0 = (self.x.node.args.posonlyargs + self.x.node.args.args)
                if a0 and a0[0].arg in env:
                    return self.call(f, [env[a0[0].arg]], {})
            for a in node.args:
                if isinstance(a, ast.Starred):
                    sv = self.eval(a.value, env)
                    if isinstance(sv, ObjV) and hasattr(sv, 'unpack_items'):
                        sv = TupleV(list(sv.unpack_items))      # *obj: the items its __iter__ yields (given by the contract object)
                    if not isinstance(sv, (TupleV, ListV)):
                        if self.loops.get('star_opaque') and isinstance(sv, ObjV) and len(node.args) == 1:
                            args.append(sv)        # f(*rows) with an opaque row collection: the callee's contract takes the collection
                            continue
                        if self.loops.get('star_opaque') and isinstance(sv, (IterV, SeqV)) and len(node.args) == 1:
                            # f(*rows) with a contract sequence of symbolic length (a closed-form comprehension, an accumulator
                            # loop): the callee's contract gets the sequence, marked as starred (`.starred`), never as one argument
                            o = ObjV('starred-sequence', {}, name='*%s' % sv.name)
                            o.starred = sv
                            args.append(o)
                            continue
                        raise Unsupported('*args of non-concrete sequence')
                    args.extend(sv.items)
                else:
                    args.append(self.eval(a, env))
            kwargs = {}
            for k in node.keywords:
                if k.arg is None:
                    kv = self.eval(k.value, env)
                    if not isinstance(kv, DictV):
                        raise Unsupported('**kwargs of a non-concrete dict')
                    kwargs.update(kv.items)
                    continue
                kwargs[k.arg] = self.eval(k.value, env)
            self._pending_call = node        # the call site, for the function executed in place that this call may reach (enter_call)
            try:
                return self.call(f, args, kwargs)
            finally:
                self._pending_call = None
        if isinstance(node, (ast.ListComp, ast.GeneratorExp, ast.SetComp)):
            return self.comprehension(node, env)
        if isinstance(node, ast.DictComp):
            if len(node.generators) != 1 or node.generators[0].ifs:
                raise Unsupported('dict comprehension with conditions / nested generators')
            g = node.generators[0]
            it = self.eval(g.iter, env)
            if isinstance(it, ObjV) and '__iter__' in it.fields:
                it = self.call(it.fields['__iter__'], [it], {})
            if isinstance(it, (TupleV, ListV)):
                # over a concrete sequence: unrolled like a list comprehension, then built like a dict display
                pairs = []
                inner = flat_env(env)
                for item in list(it.items):
                    self.assign(g.target, item, inner)
                    pairs.append((self.eval(node.key, inner), self.eval(node.value, inner)))
                return self.make_dict(pairs)
            if not isinstance(it, (IterV, SeqV)):
                raise Unsupported('dict comprehension over %s' % type(it).__name__)

            def kv(k, _it=it, _env=flat_env(env)):
                inner = dict(_env)
                self.assign(g.target, _it.at(k), inner)
                return self.eval(node.key, inner), self.eval(node.value, inner)
            return MapV(it, kv)
        if isinstance(node, ast.Lambda):
            a = node.args
            if a.vararg or a.kwarg or a.kwonlyargs or a.defaults or a.posonlyargs:
                raise Unsupported('lambda with non-positional parameters')
            names = [x.arg for x in a.args]

            def lam(p2, args, kw, _env=dict(env), _names=names, _body=node.body):
                if kw or len(args) != len(_names):
                    raise Unsupported('lambda call arity')
                inner = dict(_env)
                inner.update(zip(_names, args))
                return self.eval(_body, inner)
            return FuncV('<lambda>', lam)
        if isinstance(node, ast.Set):
            o = ObjV('SetDisplay', {}, name='{...}')
            o.items = [self.eval(e, env) for e in node.elts]
            return o
        if isinstance(node, ast.Dict):
            keys = []
            kvals = []
            for kx in node.keys:
                if kx is None:
                    raise Unsupported('dict unpacking in display')
                kvals.append(self.eval(kx, env))
            vals = [self.eval(vx, env) for vx in node.values]
            return self.make_dict(list(zip(kvals, vals)))
        raise Unsupported('expression %s' % type(node).__name__)

    def make_dict(self, pairs):
        if not all(isinstance(kv, StrV) and kv.value is not None for kv, _ in pairs):
            fac = self.loops.get('dict_factory')
            if fac is None:
                raise Unsupported('non-literal dict key')
            return fac(self.path, pairs)      # a dict keyed by values: given by the contract
        return DictV({kv.value: v for kv, v in pairs})

    def comprehension(self, node, env):
        """Comprehensions over concrete-length sequences are unrolled (element-wise closed form);
        anything else must be provided by the contract as a named closed form."""
        hook = self.loops.get('closed_form', {}).get(self.stmt_ordinal(node))
        if hook is not None:
            return hook(self, env, node)
        if len(node.generators) != 1:
            raise Unsupported('nested comprehension')
        g = node.generators[0]
        it = _chars(self.eval(g.iter, env))
        cspec = self.loops.get('comprehension_loops', {}).get(self.stmt_ordinal(node))
        if cspec is not None:
            return self.comprehension_loop(node, g, it, env, cspec)
        if isinstance(it, ObjV) and '__iter__' in it.fields:
            it = self.call(it.fields['__iter__'], [it], {})
        if isinstance(it, (IterV, SeqV)) and not g.ifs and isinstance(node, (ast.GeneratorExp, ast.ListComp)):
            # element-wise closed form of a pure map over a contract iterable: same length, k-th element = elt[x := it[k]]
            def at(k, _it=it, _env=flat_env(env)):
                inner = dict(_env)
                self.assign(g.target, _it.at(k), inner)
                return self.eval(node.elt, inner)
            facts = getattr(it, 'facts', None)
            r = IterV(at, it.length, 'map(%s)' % it.name, facts)
            r.index_shift = getattr(it, 'index_shift', 0)
            return r
        if isinstance(it, FilterV) and not g.ifs and isinstance(node, (ast.GeneratorExp, ast.ListComp)):
            def elt2(k, _it=it, _env=flat_env(env)):
                inner = dict(_env)
                self.assign(g.target, _it.elt(k), inner)
                return self.eval(node.elt, inner)
            return FilterV(it.base, it.cond, elt2)
        if isinstance(it, (IterV, SeqV)) and g.ifs and isinstance(node, (ast.GeneratorExp, ast.ListComp)):
            # pure filter(+map) over a contract iterable: kept as a descriptor (base sequence, condition, element)
            def cond(k, _it=it, _env=flat_env(env)):
                inner = dict(_env)
                self.assign(g.target, _it.at(k), inner)
                n0 = len(self.path.decisions)
                cs = [truthy(self.eval(c, inner)) for c in g.ifs]
                return And(*cs) if len(cs) > 1 else cs[0]

            def elt(k, _it=it, _env=flat_env(env)):
                inner = dict(_env)
                self.assign(g.target, _it.at(k), inner)
                return self.eval(node.elt, inner)
            return FilterV(it, cond, elt)
        if not isinstance(it, (TupleV, ListV)):
            raise Unsupported('comprehension over %s' % type(it).__name__)
        out = []
        inner = flat_env(env)       # (a comprehension inside a nested function: the names of the defining environment stay visible)
        for item in list(it.items):
            self.assign(g.target, item, inner)
            if all(self.path.branch_truthy(self.eval(c, inner)) for c in g.ifs):
                out.append(self.eval(node.elt, inner))
        if isinstance(node, ast.SetComp):
            raise Unsupported('set comprehension without closed form')
        return ListV(out)

    def comprehension_loop(self, node, g, it, env, spec):
        """An impure comprehension (conditions with side effects) executed as a loop with an invariant over the ghost
        accumulator: spec.invariant(E, k, acc) ; spec.acc0 ; spec.extend(acc, elt) -> acc' ; spec.result(acc) -> Val ;
        spec.havoc(path) refreshes the heap objects the conditions may mutate."""
        p = self.path
        if isinstance(it, ObjV) and '__iter__' in it.fields:
            it = self.call(it.fields['__iter__'], [it], {})
        if isinstance(it, SeqV):
            it = IterV(it.at, it.length, it.name)
        if not isinstance(it, IterV):
            raise Unsupported('comprehension loop over %s' % type(it).__name__)
        tag = self.stmt_ordinal(node)
        p.assume(it.length >= 0)
        if getattr(spec, 'on_entry', None):
            spec.on_entry(p, env)
        for nm, f in spec.invariant(EnvView(env, p), IntVal(0), spec.acc0):
            p.oblige('inv.entry@%s/%s' % (tag, nm), 'inv.entry', f)
        k = p.fresh_int('k')
        p.assume(And(k >= 0, k <= it.length))
        acc = spec.fresh_acc(p)
        spec.havoc(p)
        for nm, f in spec.invariant(EnvView(env, p), k, acc):
            p.assume(f)
        if p.branch(k < it.length):
            p.ghost['k'] = k
            inner = dict(env)
            self.assign(g.target, it.at(k), inner)
            if it.facts:
                p.assume(it.facts(k))
            keep = all(p.branch_truthy(self.eval(c, inner)) for c in g.ifs)
            acc2 = spec.extend(acc, self.eval(node.elt, inner)) if keep else acc
            for nm, f in spec.invariant(EnvView(env, p), k + 1, acc2):
                p.oblige('inv.preserve@%s/%s' % (tag, nm), 'inv.preserve', f)
            raise PathEnd('comprehension body done')
        p.assume(k == it.length)
        return spec.result(p, acc)

    @staticmethod
    def match_tz(node):
        """(X & -X).bit_length() - 1  with X a plain name -> X ; else None."""
        if not (isinstance(node.op, ast.Sub) and isinstance(node.right, ast.Constant) and node.right.value == 1
                and type(node.right.value) is int):
            return None
        c = node.left
        if not (isinstance(c, ast.Call) and not c.args and not c.keywords and isinstance(c.func, ast.Attribute)
                and c.func.attr == 'bit_length'):
            return None
        b = c.func.value
        if not (isinstance(b, ast.BinOp) and isinstance(b.op, ast.BitAnd)):
            return None
        for x, y in ((b.left, b.right), (b.right, b.left)):
            if isinstance(x, ast.Name) and isinstance(y, ast.UnaryOp) and isinstance(y.op, ast.USub) \
                    and isinstance(y.operand, ast.Name) and y.operand.id == x.id:
                return x
        return None

    def binop(self, op, a, b, inplace=False):
        if isinstance(a, IntV) and isinstance(b, IntV):
            tag = a.tag if a.tag == b.tag else (a.tag or b.tag)
            if isinstance(op, ast.BitAnd):
                return IntV(bits.band(a.t, b.t), tag)
            if isinstance(op, ast.BitOr):
                return IntV(bits.bor(a.t, b.t), tag)
            if isinstance(op, ast.LShift) and z3.is_int_value(a.t) and a.t.as_long() == 1:
                # 1 << e: the atom 2^e; python raises ValueError for a negative shift count
                self.path.oblige('shift-nonneg', 'arith', b.t >= 0)
                return IntV(bits.atomv(b.t), None)
            if isinstance(op, ast.LShift):
                self.path.oblige('shift-nonneg', 'arith', b.t >= 0)
                return IntV(bits.shl(a.t, b.t), a.tag)
            if isinstance(op, ast.RShift):
                self.path.oblige('shift-nonneg', 'arith', b.t >= 0)
                return IntV(bits.shr(a.t, b.t), a.tag)
            if isinstance(op, ast.Add):
                return IntV(a.t + b.t)
            if isinstance(op, ast.Sub):
                return IntV(a.t - b.t)
            if isinstance(op, ast.Mult):
                return IntV(a.t * b.t)
            raise Unsupported('int operator %s' % type(op).__name__)
        if isinstance(op, ast.Add) and isinstance(a, (ListV, TupleV)) and isinstance(b, ObjV) and '__radd__' in b.fields:
            # concrete list + a list object given by the contract (symbolic length): the contract object builds the concatenation
            return self.call(b.fields['__radd__'], [b, a], {})
        if isinstance(a, StrV) and a.value is not None and isinstance(op, ast.Mult) and isinstance(b, IntV) \
                and z3.is_int_value(z3.simplify(b.t)):
            return StrV(a.value * z3.simplify(b.t).as_long())
        if isinstance(a, StrV) and isinstance(op, ast.Mod):
            return StrV(None, parts=[('fmt', a, -1, None), ('fmt', b, -1, '%')])      # %-formatting: an opaque text of its operands
        if isinstance(a, BoolV) and isinstance(b, (BoolV, IntV)) or isinstance(a, IntV) and isinstance(b, BoolV):
            raise Unsupported('arithmetic on bool')
        if isinstance(a, ListV) and isinstance(b, ListV) and isinstance(op, ast.Add):
            if inplace:
                a.items.extend(b.items)
                return a
            return ListV(a.items + b.items)
        if isinstance(a, TupleV) and isinstance(b, TupleV) and isinstance(op, ast.Add):
            return TupleV(a.items + b.items)
        if isinstance(a, ListV) and isinstance(op, ast.Mult) and isinstance(b, IntV) and z3.is_int_value(z3.simplify(b.t)):
            return ListV(a.items * z3.simplify(b.t).as_long())
        if isinstance(a, ListV) and isinstance(op, ast.Mult) and isinstance(b, IntV) and self.loops.get('list_repeat'):
            # [x] * n with symbolic n: a list of n copies, given by the contract as an abstract list object
            return self.loops['list_repeat'](self.path, a, b)
        if isinstance(a, ObjV):
            name = {'BitAnd': '__and__', 'BitOr': '__or__', 'Sub': '__sub__', 'BitXor': '__xor__'}.get(type(op).__name__)
            if inplace:
                iname = '__i' + name[2:] if name else None
                if iname and iname in a.fields:
                    return self.call(a.fields[iname], [a, b], {})
            if name and name in a.fields:
                return self.call(a.fields[name], [a, b], {})
        hook = self.loops.get('binop')
        if hook is not None:
            # operand kinds the engine has no semantics for (str * int, str + str, tuple + contract sequence ...): the contract
            # may give the result (a stated library contract); None = not covered
            r = hook(self.path, op, a, b, inplace)
            if r is not None:
                return r
        raise Unsupported('operator %s on %s, %s' % (type(op).__name__, type(a).__name__, type(b).__name__))

    def compare(self, op, a, b):
        if isinstance(a, BoolV) and isinstance(b, BoolV) and isinstance(op, (ast.Eq, ast.NotEq, ast.Is, ast.IsNot)):
            return (a.t == b.t) if isinstance(op, (ast.Eq, ast.Is)) else (a.t != b.t)
        if isinstance(a, IntV) and isinstance(b, IntV):
            m = {ast.Eq: lambda x, y: x == y, ast.NotEq: lambda x, y: x != y, ast.Lt: lambda x, y: x < y,
                 ast.LtE: lambda x, y: x <= y, ast.Gt: lambda x, y: x > y, ast.GtE: lambda x, y: x >= y}
            f = m.get(type(op))
            if f is None:
                raise Unsupported('int comparison %s' % type(op).__name__)
            if isinstance(op, (ast.Eq, ast.NotEq)) and not (z3.is_int_value(a.t) or z3.is_int_value(b.t)):
                # lemma instance B9 (extensionality on naturals): distinct naturals differ in some bit
                self.path.assume(bits.ext_instance(a.t, b.t, self.path.fresh_int('wext')))
            return f(a.t, b.t)
        if isinstance(a, TermV) and isinstance(b, TermV) and isinstance(op, (ast.Eq, ast.NotEq)):
            if a.t.sort() != b.t.sort():
                return BoolVal(isinstance(op, ast.NotEq))
            return (a.t == b.t) if isinstance(op, ast.Eq) else (a.t != b.t)
        if isinstance(op, (ast.Is, ast.IsNot)):
            if isinstance(a, NoneV) or isinstance(b, NoneV):
                same = isinstance(a, NoneV) and isinstance(b, NoneV)
                if isinstance(a, IteV) or isinstance(b, IteV):
                    raise Unsupported('is None on a conditional value')
                return BoolVal(same if isinstance(op, ast.Is) else not same)
            if isinstance(a, (ObjV, ListV, ClassV, FuncV)) and isinstance(b, (ObjV, ListV, ClassV, FuncV)):
                ida, idb = getattr(a, 'ident', None), getattr(b, 'ident', None)
                if ida is not None and idb is not None:
                    r = ida == idb
                    return r if isinstance(op, ast.Is) else Not(r)
                return BoolVal((a is b) if isinstance(op, ast.Is) else (a is not b))
        if isinstance(op, (ast.In, ast.NotIn)):
            if isinstance(b, ObjV) and '__contains__' in b.fields:
                r = truthy(self.call(b.fields['__contains__'], [b, a], {}))
                return r if isinstance(op, ast.In) else Not(r)
            if isinstance(b, (TupleV, ListV)):
                r = Or(*[self.compare(ast.Eq(), a, x) for x in b.items]) if b.items else BoolVal(False)
                return r if isinstance(op, ast.In) else Not(r)
            if isinstance(b, DictV) and isinstance(a, StrV) and a.value is not None:
                r = BoolVal(a.value in b.items)
                return r if isinstance(op, ast.In) else Not(r)
        if isinstance(op, (ast.Eq, ast.NotEq)):
            if isinstance(a, ObjV) and '__eq__' in a.fields:
                r = truthy(self.call(a.fields['__eq__'], [a, b], {}))
                return r if isinstance(op, ast.Eq) else Not(r)
            if isinstance(b, ObjV) and '__eq__' in b.fields:
                r = truthy(self.call(b.fields['__eq__'], [b, a], {}))
                return r if isinstance(op, ast.Eq) else Not(r)
            if isinstance(a, (TupleV, ListV)) and type(a) is type(b):
                if len(a.items) != len(b.items):
                    r = BoolVal(False)
                else:
                    r = And(*[self.compare(ast.Eq(), x, y) for x, y in zip(a.items, b.items)]) if a.items else BoolVal(True)
                return r if isinstance(op, ast.Eq) else Not(r)
            if isinstance(a, StrV) and isinstance(b, StrV) and a.value is not None and b.value is not None:
                return BoolVal((a.value == b.value) == isinstance(op, ast.Eq))
            if isinstance(a, NoneV) and isinstance(b, NoneV):
                return BoolVal(isinstance(op, ast.Eq))
        raise Unsupported('comparison %s of %s, %s' % (type(op).__name__, type(a).__name__, type(b).__name__))

    def getattr(self, o, attr):
        if isinstance(o, ObjV):
            if attr in o.fields:
                v = o.fields[attr]
                if isinstance(v, FuncV) and getattr(v, 'is_method', False):
                    return FuncV(v.name, lambda p, args, kw, _v=v, _o=o: _v.fn(p, [_o] + args, kw))
                if isinstance(v, FuncV) and getattr(v, 'is_property', False):
                    return v.fn(self.path, [o], {})
                return v
            ga = o.fields.get('__getattr__')
            if ga is not None:
                return ga(self.path, o, attr)
            h = self.helper_closure(attr, o)
            if h is not None:
                return h
            raise Unsupported('attribute %s.%s' % (o.name or o.cls, attr))
        if isinstance(o, StrV) and o.value is not None and attr == 'format':
            # a literal template with plain auto-numbered fields only: '..{}..'.format(a, ..) IS the f-string f'..{a}..' (both render
            # format(a, '') between the literal pieces) -- one normal form for the two spellings, before any contract-specific model
            nf = self._format_normal_form(o)
            if nf is not None:
                return nf
        vm = self.loops.get('value_methods')
        if vm:
            # methods of builtin values given by the contract (library contracts, e.g. str.join / str.format / list.extend as
            # opaque operators): keyed by (engine value class name, attribute), consulted before the built-in ones
            f = vm.get((type(o).__name__, attr))
            if f is not None:
                return FuncV(f.name, lambda p, args, kw, _f=f, _o=o: _f.fn(p, [_o] + args, kw))
        if isinstance(o, IntV) and attr == 'bit_length':
            # (x & -x).bit_length() through a local: the term is band(x, -x) -> tz(x) + 1
            t = o.t
            if z3.is_app(t) and t.decl().name() == 'band' and t.num_args() == 2:
                a0, a1 = t.arg(0), t.arg(1)
                for x, y in ((a0, a1), (a1, a0)):
                    if z3.simplify(y + x).eq(IntVal(0)) if False else z3.eq(z3.simplify(-x), z3.simplify(y)):
                        return FuncV('int.bit_length', lambda p, args, kw, _x=x: IntV(bits.tz(_x) + 1))
            raise Unsupported('int.bit_length() other than the lowest-set-bit idiom')
        if isinstance(o, IntV):
            m = self.loops.get('int_methods', {})
            key = (o.tag, attr)
            if key in m:
                f = m[key]
                if getattr(f, 'is_property', False):
                    return f.fn(self.path, [o], {})
                return FuncV(f.name, lambda p, args, kw, _f=f, _o=o: _f.fn(p, [_o] + args, kw))
            raise Unsupported('int attribute .%s (tag %s)' % (attr, o.tag))
        if isinstance(o, ListV):
            if attr == 'append':
                def _append(p, args, kw, _o=o):
                    hook = p.ghost.get('list_append_hook')
                    if hook is not None and hook(_o, args[0]):
                        return NONE
                    _o.items.append(args[0])
                    return NONE
                return FuncV('list.append', _append)
            if attr == 'copy':
                return FuncV('list.copy', lambda p, args, kw, _o=o: ListV(_o.items))
            if attr == 'pop':
                def _pop(p, args, kw, _o=o):
                    if args:
                        raise Unsupported('list.pop(i)')
                    if not _o.items:
                        raise PyRaise('IndexError')
                    return _o.items.pop()
                return FuncV('list.pop', _pop)
        if isinstance(o, StrV) and attr == 'join':
            def _join(p, args, kw, _o=o):
                it = args[0]
                hook = self.loops.get('str_join')
                if hook is not None:
                    return hook(p, _o, it)      # the contract keeps what was joined (the default below is an opaque text)
                if isinstance(it, (IterV, SeqV, FilterV, ListV, TupleV)):
                    return StrV(None, parts=[('fmt', _o, -1, 'join')])
                raise Unsupported('str.join of %r' % (it,))
            return FuncV('str.join', _join)
        raise Unsupported('attribute .%s on %s' % (attr, type(o).__name__))

    def subscript(self, o, sl, env):
        p = self.path
        if isinstance(sl, ast.Slice):
            if isinstance(o, (TupleV, ListV)):
                def c(n):
                    if n is None:
                        return None
                    v = self.eval(n, env)
                    if isinstance(v, IntV) and z3.is_int_value(z3.simplify(v.t)):
                        return z3.simplify(v.t).as_long()
                    raise Unsupported('symbolic slice bound')
                items = o.items[c(sl.lower):c(sl.upper):c(sl.step)]
                return TupleV(items) if isinstance(o, TupleV) else ListV(items)
            if isinstance(o, ObjV) and '__getslice__' in o.fields:
                return o.fields['__getslice__'](self, env, o, sl)
            if isinstance(o, SeqV) and sl.upper is None and sl.step is None and sl.lower is not None:
                lo = self.eval(sl.lower, env)
                if not isinstance(lo, IntV):
                    raise Unsupported('slice bound of kind %s' % type(lo).__name__)
                # python clamps slice bounds; a meaningful suffix needs 0 <= lo <= len
                p.oblige('slice@%s' % o.name, 'index', And(lo.t >= 0, lo.t <= o.length))
                return SeqV(lambda t, _o=o, _lo=lo.t: _o.at(t + _lo), o.length - lo.t, '%s[lo:]' % o.name)
            raise Unsupported('slice of %s' % type(o).__name__)
        i = self.eval(sl, env)
        if isinstance(o, StrV) and o.value is not None and isinstance(i, (BoolV, IntV)):
            o = _chars(o)      # indexing a literal string ('01'[value]): its characters in order, as for iteration (A-SEQ for str)
        if isinstance(o, SeqV):
            if not isinstance(i, IntV):
                raise Unsupported('non-int index')
            # python accepts negative indexes; a correct index into a bitset vector is 0 <= i < len
            p.oblige('index@%s' % o.name, 'index', And(i.t >= 0, i.t < o.length))
            return o.at(i.t)
        if isinstance(o, (TupleV, ListV)) and isinstance(i, BoolV):
            # seq[b] with a bool: False is 0, True is 1 (`(y, x)[c]` for `x if c else y`); both cases are explored like a conditional
            ii = 1 if p.branch(i.t) else 0
            if ii >= len(o.items):
                raise PyRaise('IndexError')
            return o.items[ii]
        if isinstance(o, (TupleV, ListV)):
            if isinstance(i, IntV) and z3.is_int_value(z3.simplify(i.t)):
                ii = z3.simplify(i.t).as_long()
                if not -len(o.items) <= ii < len(o.items):
                    raise PyRaise('IndexError')
                return o.items[ii]
            raise Unsupported('symbolic index into concrete sequence')
        if isinstance(o, ObjV) and '__getitem__' in o.fields:
            return self.call(o.fields['__getitem__'], [o, i], {})
        if isinstance(o, DictV) and isinstance(i, StrV) and i.value is not None:
            if i.value not in o.items:
                raise PyRaise('KeyError')
            return o.items[i.value]
        if isinstance(o, MapV) and isinstance(i, IntV):
            j = p.fresh_int('j')
            kj, _ = o.kv(j)
            if isinstance(kj, IntV) and z3.eq(kj.t, j):
                # a dict keyed by position ({i: c for i, c in enumerate(seq)}): lookup = element at that position
                p.oblige('key@dict-by-position', 'key', And(i.t >= 0, i.t < o.base.length))
                return o.kv(i.t)[1]
            raise Unsupported('lookup in a dict comprehension keyed by other than the position')
        raise Unsupported('subscript of %s' % type(o).__name__)

    def _format_normal_form(self, tmpl):
        import string
        try:
            fields = list(string.Formatter().parse(tmpl.value))
        except ValueError:
            return None
        if not all(f[1] is None or (f[1] == '' and f[2] == '' and f[3] is None) for f in fields):
            return None
        n = sum(1 for f in fields if f[1] is not None)
        vm = self.loops.get('value_methods') or {}
        fallback = vm.get(('StrV', 'format'))

        def fmt(p, args, kw):
            if kw or len(args) != n:
                if fallback is not None:
                    return fallback.fn(p, [tmpl] + list(args), kw)
                raise Unsupported('str.format arguments')
            parts, rest = [], list(args)
            for lit, name, _, _ in fields:
                if lit:
                    parts.append(('lit', lit))
                if name is not None:
                    parts.append(('fmt', rest.pop(0), -1, None))
            return StrV(None, parts=parts)
        return FuncV('str.format', fmt)

    def call(self, f, args, kwargs):
        if isinstance(f, FuncV):
            return f.fn(self.path, args, kwargs)
        if isinstance(f, ClosureV):
            return self.call_closure(f, args, kwargs)
        if isinstance(f, ClassV):
            if f.name in EXC:
                e = ObjV(f.name)
                e.exc_args = list(args)        # the message operands (checked by contracts that pin an error message)
                return e
            ctor = self.loops.get('constructors', {}).get(f.name)
            if ctor:
                return ctor(self.path, args, kwargs)
        if isinstance(f, ObjV) and '__call__' in f.fields:
            return self.call(f.fields['__call__'], [f] + args, kwargs)
        raise Unsupported('call of %r' % (f,))


def _chars(v):
    """Iterating a concrete (literal) string yields its characters, in order (A-SEQ for str): the iterable of a `for` / comprehension
    that is a StrV with a known value becomes the list of its one-character strings; every other value is returned as it is."""
    if isinstance(v, StrV) and v.value is not None:
        return ListV([StrV(ch) for ch in v.value])
    return v


def _is_generator(fnode):
    """the function contains a yield of its own (nested function definitions and lambdas do not count)"""
    todo = list(fnode.body)
    while todo:
        n = todo.pop()
        if isinstance(n, (ast.Yield, ast.YieldFrom)):
            return True
        if isinstance(n, (ast.FunctionDef, ast.AsyncFunctionDef, ast.Lambda, ast.ClassDef)):
            continue
        todo.extend(ast.iter_child_nodes(n))
    return False


def _load(target):
    """Copy of an assignment target with Load context (for augmented assignment)."""
    import copy
    t = copy.deepcopy(target)
    for n in ast.walk(t):
        if hasattr(n, 'ctx'):
            n.ctx = ast.Load()
    return t
