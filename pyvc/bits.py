"""BITS theory: Python ints as unbounded mathematical integers with two's-complement bit operators.

z3 has no bit operators on Int, so `bit(x,k)` ("bit k of x, infinite two's complement"), band, bor,
bnot, shr, tz are uninterpreted and axiomatised with explicit triggers (smt.mbqi=false).
Every axiom is a closed formula that is (a) evaluated against CPython's operators by
`selftest_axioms()` on a finite range and (b) where stated, proved in lemmas/Bits.lean.
"""
from z3 import (And, BoolSort, ForAll, Function, Implies, Int, IntSort, Ints, MultiPattern, Not, Or)

I = IntSort()
bit = Function('bit', I, I, BoolSort())
band = Function('band', I, I, I)
bor = Function('bor', I, I, I)
bnot = Function('bnot', I, I)
shr = Function('shr', I, I, I)
tz = Function('tz', I, I)          # index of the lowest set bit, for x != 0
atomv = Function('atomv', I, I)    # 1 << i  (the atom 2^i), for i >= 0
shl = Function('shl', I, I, I)     # x << s, for s >= 0
maskv = Function('maskv', I, I)    # (1 << j) - 1: the positions below j


def axioms():
    x, y, k, s = Ints('x y k s')
    ax = []

    def A(name, vs, body, pats):
        ax.append((name, ForAll(vs, body, patterns=pats)))

    A('B0', [x, k], Implies(k < 0, Not(bit(x, k))), [bit(x, k)])
    A('B1', [x, y, k], bit(band(x, y), k) == And(bit(x, k), bit(y, k)),
      [bit(band(x, y), k)])
    # second trigger set: facts about the operands create the fact about the conjunction when the term exists
    A('B1b', [x, y, k], bit(band(x, y), k) == And(bit(x, k), bit(y, k)),
      [MultiPattern(band(x, y), bit(x, k)), MultiPattern(band(x, y), bit(y, k))])
    A('B2', [x, y, k], bit(bor(x, y), k) == Or(bit(x, k), bit(y, k)),
      [bit(bor(x, y), k)])
    A('B2b', [x, y, k], bit(bor(x, y), k) == Or(bit(x, k), bit(y, k)),
      [MultiPattern(bor(x, y), bit(x, k)), MultiPattern(bor(x, y), bit(y, k))])
    A('B3', [x, k], Implies(k >= 0, bit(bnot(x), k) == Not(bit(x, k))),
      [bit(bnot(x), k)])
    A('B3b', [x, k], Implies(k >= 0, bit(bnot(x), k) == Not(bit(x, k))),
      [MultiPattern(bnot(x), bit(x, k))])
    A('B4', [x, s, k], Implies(And(s >= 0, k >= 0), bit(shr(x, s), k) == bit(x, k + s)),
      [bit(shr(x, s), k)])
    A('B5a', [x, s], Implies(And(x >= 0, s >= 0), shr(x, s) >= 0), [shr(x, s)])
    A('B5b', [x, s], Implies(And(x > 0, s >= 1), shr(x, s) < x), [shr(x, s)])
    A('B6', [x], Implies(x != 0, And(tz(x) >= 0, bit(x, tz(x)))), [tz(x)])
    A('B6b', [x, k], Implies(And(x != 0, k < tz(x)), Not(bit(x, k))), [MultiPattern(tz(x), bit(x, k))])
    A('B7a', [k], Not(bit(0, k)), [bit(0, k)])
    A('B7b', [x, k], Implies(bit(x, k), x != 0), [bit(x, k)])
    A('B8a', [x, y], Implies(Or(x >= 0, y >= 0), band(x, y) >= 0), [band(x, y)])
    A('B8b', [x, y], (bor(x, y) >= 0) == And(x >= 0, y >= 0), [bor(x, y)])
    A('B8c', [x], (bnot(x) >= 0) == (x < 0), [bnot(x)])
    A('B8d', [x, y], Implies(And(x >= 0, y >= 0), And(band(x, y) <= x, band(x, y) <= y)), [band(x, y)])
    A('B11a', [x, k], Implies(x >= 0, bit(atomv(x), k) == (k == x)), [bit(atomv(x), k)])
    A('B11b', [x], Implies(x >= 0, atomv(x) > 0), [atomv(x)])
    ax.append(('B11c', atomv(0) == 1))
    # B12: (1 << x) - 1 has exactly the bits below x (lemmas/Bits.lean: B12_testBit_two_pow_sub_one)
    A('B12.mask', [x], Implies(x >= 0, And(atomv(x) - 1 == maskv(x), maskv(x) >= 0)), [atomv(x)])
    A('B12.bits', [x, k], Implies(x >= 0, bit(maskv(x), k) == And(0 <= k, k < x)), [bit(maskv(x), k)])
    A('B13a', [x, s, k], Implies(s >= 0, bit(shl(x, s), k) == And(k >= s, bit(x, k - s))), [bit(shl(x, s), k)])
    A('B13b', [x, s], Implies(And(x >= 0, s >= 0), shl(x, s) >= 0), [shl(x, s)])
    A('B13c', [x], Implies(x >= 0, shl(1, x) == atomv(x)), [shl(1, x)])
    return ax


def order_instance(x, y, i):
    """B14 (lemmas/Bits.lean: B14_lt_of_testBit = Nat.lt_of_testBit) as an explicit lemma instance for naturals x, y and position i:
    not bit(x,i), bit(y,i), equal above i  ->  x < y"""
    j = Int('j')
    return Implies(And(x >= 0, y >= 0, Not(bit(x, i)), bit(y, i),
                       ForAll([j], Implies(j > i, bit(x, j) == bit(y, j)), patterns=[bit(x, j), bit(y, j)])), x < y)


def ext_instance(a, b, w):
    """B9 (extensionality on naturals) as an explicit lemma instance with skolem witness `w`:
    a,b >= 0 and (bit(a,w) == bit(b,w) for the witness) -> a == b   is NOT valid in general; the sound form is
    a,b >= 0 and a != b -> exists k>=0. bit(a,k) != bit(b,k).  We return that implication with `w` as the
    existential witness; `w` must be a fresh constant."""
    return Implies(And(a >= 0, b >= 0, a != b), And(w >= 0, bit(a, w) != bit(b, w)))


# ---------------------------------------------------------------------------------------------
# concrete semantics (CPython) of the same symbols, used for axiom validation and counter-model replay

def c_bit(x, k):
    return k >= 0 and bool((x >> k) & 1)


def c_tz(x):
    return (x & -x).bit_length() - 1


def selftest_axioms(lim=40, kmax=9):
    """Evaluate every axiom with CPython's operators for all |x|,|y| < lim, -2 <= k,s < kmax."""
    n = 0
    R = range(-lim, lim)
    K = range(-2, kmax)
    for x in R:
        assert (~x >= 0) == (x < 0)
        if x != 0:
            t = c_tz(x)
            assert t >= 0 and c_bit(x, t) and all(not c_bit(x, k) for k in range(-2, t))
        if x >= 0 and x < 12:
            assert (1 << x) > 0 and all(c_bit(1 << x, k) == (k == x) for k in range(-2, 14))
            assert (1 << 0) == 1
            # B12 (contracts/fcbo_theory.py): (1 << x) - 1 is the natural with exactly the bits below x
            assert (1 << x) - 1 >= 0 and all(c_bit((1 << x) - 1, k) == (0 <= k < x) for k in range(-2, 14))
        for k in K:
            if k < 0:
                assert not c_bit(x, k)
            if k >= 0:
                assert c_bit(~x, k) == (not c_bit(x, k))
            if c_bit(x, k):
                assert x != 0
            assert not c_bit(0, k)
            for s in range(0, 5):
                if k >= 0:
                    assert c_bit(x >> s, k) == c_bit(x, k + s)
                assert c_bit(x << s, k) == (k >= s and c_bit(x, k - s))       # B13a
                if x >= 0:
                    assert (x << s) >= 0
                n += 1
        for s in range(0, 6):
            if x >= 0:
                assert (x >> s) >= 0
            if x > 0 and s >= 1:
                assert (x >> s) < x
        for y in R:
            if x >= 0 or y >= 0:
                assert (x & y) >= 0
            assert ((x | y) >= 0) == (x >= 0 and y >= 0)
            if x >= 0 and y >= 0:
                assert (x & y) <= x and (x & y) <= y
            for k in K:
                assert c_bit(x & y, k) == (c_bit(x, k) and c_bit(y, k))
                assert c_bit(x | y, k) == (c_bit(x, k) or c_bit(y, k))
                n += 1
            if x >= 0 and y >= 0 and x != y:
                assert any(c_bit(x, k) != c_bit(y, k) for k in range(0, 8))
                hi = max(k for k in range(0, 8) if c_bit(x, k) != c_bit(y, k))      # B14: order by the highest differing bit
                assert (x < y) == c_bit(y, hi)
    return n
