"""In-memory mutants that only the CHARACTER-level units of contracts/formats_chars_table.py can judge (table format, FIMI rows).

Pure data (no z3): imported by pyvc/mutants.py (appended to MUTANTS) and by bounded/chars_mutants.py, the differential replay that runs
every one of them against the clean tree with /venv/bin/python and confirms the verdict:

  'equivalent'  the observable of the clean tree is unchanged on the whole enumerated scope
  'breaks'      it changes for at least one input of the scope

Observable, table:  Table.loads(Table.dumps(objects, properties, bools, indent=k)) for every table of the scope that satisfies REP -- the ROUND
TRIP, not the text: a writer that right-justifies its columns, or a reader that no longer strips comments, leaves it unchanged ('equivalent'
here), while the line-level units formats.table.dump_file / load_file report the same edits as a different template / a different contract
(listed there as 'breaks': both verdicts are right, they answer different questions).
Observable, FIMI:  the text write_concepts_dat / Fimi.dumps writes AND the tuples read_concepts_dat reads back.

KNOWN FALSE ALARMS (behaviour-preserving for the round trip, refused by the units, hence NOT listed): a closing '||' instead of '|' (strip('|') takes
both bars; the template is outside the family L_percent speaks about), `wd.extend(1 for p in properties)` (engine: a generator handed to
list.extend), `strict = False` in FimiDialect (the library assumptions are stated for the exact dialect), Fimi.newline = None on a platform whose
os.linesep is '\\n'.
"""
FTB, FF = 'concepts/formats/table.py', 'concepts/formats/fimi.py'
_LEM, _WR, _CH = 'lemma.table.roundtrip', 'formats.table.load_file.written', 'formats.table.dump_file.chars'
_TAB = [_LEM, _WR, _CH]
_FLEM, _FCTX, _FWR = 'lemma.fimi.roundtrip', 'lemma.fimi.context_rows', 'formats.fimi.read_concepts_dat.written'
_FIMI = [_FLEM, _FCTX, _FWR]

MUTANTS = [
    # (file, old, new, units, 'breaks'|'equivalent')
    # ---- table.load_file on the written text
    (FTB, "lines[0].strip('|').split('|')", "lines[0].lstrip('|').split('|')", [_WR], 'breaks'),        # 'c|d|'.split: one property '' more
    (FTB, "lines[0].strip('|').split('|')", "lines[0].rstrip('|').split('|')", [_WR], 'breaks'),        # '|c|d'.split: a property '' in front
    (FTB, "flags.strip('|').split('|')", "flags.lstrip('|').split('|')", [_WR], 'breaks'),              # the closing bar stays: one cell more
    (FTB, "flags.strip('|').split('|')", "flags.rstrip('|').split('|')", [_WR], 'equivalent'),          # behind the first bar nothing starts with a bar
    (FTB, "line.partition('#')[0].strip()", "line.partition('#')[2].strip()", [_WR], 'breaks'),         # no '#' in the line: the part behind it is ''
    (FTB, "line.partition('#')[0].strip()", "line.partition('#')[0].rstrip()", [_WR], 'breaks'),        # the indentation / the padded empty first cell stays
    (FTB, "line.partition('#')[0].strip()", "line.partition('#')[0].lstrip()", [_WR], 'breaks'),        # the line end stays behind the closing bar
    (FTB, "line.partition('#')[0].strip()", "line.strip()", [_WR], 'equivalent'),                       # round trip only: nothing written contains '#'
    (FTB, "    lines = list(filter(None, lines))", "    lines = list(lines)", [_WR], 'equivalent'),     # round trip only: no written line is blank
    (FTB, "bool(f.strip())", "bool(f)", [_WR], 'breaks'),                                               # a padded empty cell is ' ': truthy
    (FTB, "    table = [(obj.strip(),", "    table = [(obj,", [_WR], 'breaks'),                         # the padding of the first column stays
    (FTB, "    table = [(obj.strip(),", "    table = [(obj.rstrip(),", [_WR], 'equivalent'),            # the line was stripped on the left already
    (FTB, "    table = [(obj.strip(),", "    table = [(obj.lstrip(),", [_WR], 'breaks'),
    (FTB, "    properties = [p.strip() for p in", "    properties = [p for p in", [_WR], 'equivalent'),  # a property column is as wide as its label: no padding
    (FTB, "objflags.partition('|')[::2]", "objflags.partition('|')[0::2]", [_WR], 'equivalent'),
    (FTB, "objflags.partition('|')[::2]", "objflags.rpartition('|')[::2]", [_WR], 'breaks'),            # cuts at the closing bar
    (FTB, "flags.strip('|').split('|')", "flags.strip('|').split('|', 1)", [_WR], 'breaks'),            # three properties: the 2nd and 3rd cell stay joined
    # ---- table.dump_file, its lines read back
    (FTB, "f'%-{w:d}s' for w in wd", "f'%{w:d}s' for w in wd", [_CH], 'equivalent'),                    # right-justified columns are stripped just the same
    (FTB, "'X' if b else ''", "'x' if b else ''", [_CH], 'equivalent'),                                 # any non-blank symbol without '|' / '#' reads as True
    (FTB, "'X' if b else ''", "'X' if b else ' '", [_CH], 'equivalent'),
    (FTB, "'X' if b else ''", "'X' if b else '.'", [_CH], 'breaks'),
    (FTB, "'X' if b else ''", "' ' if b else ''", [_CH], 'breaks'),
    (FTB, "'X' if b else ''", "'|' if b else ''", [_CH], 'breaks'),
    (FTB, "'X' if b else ''", "'#' if b else ''", [_CH], 'breaks'),
    (FTB, "    tmpl = ' ' * indent + '|'.join", "    tmpl = '#' * indent + '|'.join", [_CH], 'breaks'), # indent >= 1: every line is a comment
    (FTB, "    tmpl = ' ' * indent + '|'.join", "    tmpl = '|'.join", [_CH], 'equivalent'),            # the indentation is layout only
    (FTB, "for w in wd) + '|'", "for w in wd)", [_CH], 'breaks'),                                       # no closing bar: a trailing blank cell is stripped away
    (FTB, "' ' * indent + '|'.join(", "' ' * indent + '||'.join(", [_CH], 'breaks'),
    (FTB, "    wd = [tools.max_len(objects)]", "    wd = [0]", [_CH], 'equivalent'),                    # an unpadded first column
    (FTB, "write(tmpl % (('',) + tuple(properties)))", "write(tmpl % (('#',) + tuple(properties)))", [_CH], 'breaks'),
    (FTB, "write(tmpl % (('',) + tuple(properties)))", "write(tmpl % ((' ',) + tuple(properties)))", [_CH], 'equivalent'),
    (FTB, "write(tmpl % (('',) + tuple(properties)))", "write(tmpl % (('x',) + tuple(properties)))", [_CH], 'breaks'),   # 'x' becomes a property
    # ---- the class Table
    (FTB, "    dumps_rstrip = True\n", "    dumps_rstrip = False\n", _TAB, 'equivalent'),               # the final line end is stripped by load_file anyway
    (FTB, "    dumps_rstrip = True\n\n", "", _TAB, 'equivalent'),
    (FTB, "    loadf = staticmethod(load_file)", "    loadf = staticmethod(dump_file)", _TAB, 'breaks'),
    # ---- FIMI
    (FF, "    delimiter = ' '", "    delimiter = ','", _FIMI, 'breaks'),                                # the text is no FIMI file any more
    (FF, "    lineterminator = '\\n'", "    lineterminator = '\\r\\n'", _FIMI, 'breaks'),
    (FF, "    dumps_rstrip = False\n", "    dumps_rstrip = True\n", [_FCTX], 'breaks'),                 # trailing rows without a true cell are lost
    (FF, "        yield tuple(map(int, values))", "        yield tuple(int(v) for v in values)", [_FWR], 'equivalent'),
    (FF, "        yield tuple(map(int, values))", "        yield tuple(map(int, reversed(values)))", [_FWR], 'breaks'),
    (FF, "        yield tuple(map(int, values))", "        yield tuple(map(int, values[:1]))", [_FWR], 'breaks'),
    (FF, "        yield tuple(map(int, values))", "        if values:\n            yield tuple(map(int, values))", [_FWR], 'breaks'),   # the empty sets are dropped
    (FF, "        yield tuple(map(int, values))", "        yield tuple(map(float, values))", [_FWR], 'breaks'),
]
