"""In-memory mutants that only the CHARACTER-level units of contracts/formats_chars_table.py can judge (table format, FIMI rows).

Pure data (no z3): imported by pyvc/mutants.py (appended to MUTANTS) and by bounded/chars_mutants.py, the differential replay that runs
every one of them against the clean tree with /venv/bin/python and confirms the verdict:

  'equivalent'  the observable of the clean tree is unchanged on the whole enumerated scope
  'breaks'      it changes for at least one input of the scope

Observable, table:  Table.loads(Table.dumps(objects, properties, bools, indent=k)) for every table of the scope that satisfies REP -- the ROUND
TRIP, not the text: a writer that right-justifies its columns, or a reader that no longer strips comments, leaves it unchanged ('equivalent'
here), while the line-level units formats.table.dump_file / load_file report the same edits as a different template / a different contract
(listed there as 'breaks': both verdicts are right, they answer different questions).
Observable, FIMI:  the text write_concepts_dat / Fimi.dumps writes AND the tuples read_concepts_dat reads back.

KNOWN FALSE ALARMS (behaviour-preserving for the round trip, refused by the units, hence NOT listed): a closing '||' instead of '|' (strip('|') takes
both bars; the template is outside the family L_percent speaks about), `wd.extend(1 for p in properties)` (engine: a generator handed to
list.extend), `strict = False` in FimiDialect (the library assumptions are stated for the exact dialect), Fimi.newline = None on a platform whose
os.linesep is '\\n'.
"""
FTB, FF = 'concepts/formats/table.py', 'concepts/formats/fimi.py'
_LEM, _WR, _CH = 'lemma.table.roundtrip', 'formats.table.load_file.written', 'formats.table.dump_file.chars'
_TAB = [_LEM, _WR, _CH]
_FLEM, _FCTX, _FWR = 'lemma.fimi.roundtrip', 'lemma.fimi.context_rows', 'formats.fimi.read_concepts_dat.written'
_FIMI = [_FLEM, _FCTX, _FWR]

MUTANTS = [
    # (file, old, new, units, 'breaks'|'equivalent')
    # ---- table.load_file on the written text
    (FTB, "lines[0].strip('|').split('|')", "lines[0].lstrip('|').split('|')", [_WR], 'breaks'),        # 'c|d|'.split: one property '' more
    (FTB, "lines[0].strip('|').split('|')", "lines[0].rstrip('|').split('|')", [_WR], 'breaks'),        # '|c|d'.split: a property '' in front
    (FTB, "flags.strip('|').split('|')", "flags.lstrip('|').split('|')", [_WR], 'breaks'),              # the closing bar stays: one cell more
    (FTB, "flags.strip('|').split('|')", "flags.rstrip('|').split('|')", [_WR], 'equivalent'),          # behind the first bar nothing starts with a bar
    (FTB, "line.partition('#')[0].strip()", "line.partition('#')[2].strip()", [_WR], 'breaks'),         # no '#' in the line: the part behind it is ''
    (FTB, "line.partition('#')[0].strip()", "line.partition('#')[0].rstrip()", [_WR], 'breaks'),        # the indentation / the padded empty first cell stays
    (FTB, "line.partition('#')[0].strip()", "line.partition('#')[0].lstrip()", [_WR], 'breaks'),        # the line end stays behind the closing bar
    (FTB, "line.partition('#')[0].strip()", "line.strip()", [_WR], 'equivalent'),                       # round trip only: nothing written contains '#'
    (FTB, "    lines = list(filter(None, lines))", "    lines = list(lines)", [_WR], 'equivalent'),     # round trip only: no written line is blank
    (FTB, "bool(f.strip())", "bool(f)", [_WR], 'breaks'),                                               # a padded empty cell is ' ': truthy
    (FTB, "    table = [(obj.strip(),", "    table = [(obj,", [_WR], 'breaks'),                         # the padding of the first column stays
    (FTB, "    table = [(obj.strip(),", "    table = [(obj.rstrip(),", [_WR], 'equivalent'),            # the line was stripped on the left already
    (FTB, "    table = [(obj.strip(),", "    table = [(obj.lstrip(),", [_WR], 'breaks'),
    (FTB, "    properties = [p.strip() for p in", "    properties = [p for p in", [_WR], 'equivalent'),  # a property column is as wide as its label: no padding
    (FTB, "objflags.partition('|')[::2]", "objflags.partition('|')[0::2]", [_WR], 'equivalent'),
    (FTB, "objflags.partition('|')[::2]", "objflags.rpartition('|')[::2]", [_WR], 'breaks'),            # cuts at the closing bar
    (FTB, "flags.strip('|').split('|')", "flags.strip('|').split('|', 1)", [_WR], 'breaks'),            # three properties: the 2nd and 3rd cell stay joined
    # ---- table.dump_file, its lines read back
    (FTB, "f'%-{w:d}s' for w in wd", "f'%{w:d}s' for w in wd", [_CH], 'equivalent'),                    # right-justified columns are stripped just the same
    (FTB, "'X' if b else ''", "'x' if b else ''", [_CH], 'equivalent'),                                 # any non-blank symbol without '|' / '#' reads as True
    (FTB, "'X' if b else ''", "'X' if b else ' '", [_CH], 'equivalent'),
    (FTB, "'X' if b else ''", "'X' if b else '.'", [_CH], 'breaks'),
    (FTB, "'X' if b else ''", "' ' if b else ''", [_CH], 'breaks'),
    (FTB, "'X' if b else ''", "'|' if b else ''", [_CH], 'breaks'),
    (FTB, "'X' if b else ''", "'#' if b else ''", [_CH], 'breaks'),
    (FTB, "    tmpl = ' ' * indent + '|'.join", "    tmpl = '#' * indent + '|'.join", [_CH], 'breaks'), # indent >= 1: every line is a comment
    (FTB, "    tmpl = ' ' * indent + '|'.join", "    tmpl = '|'.join", [_CH], 'equivalent'),            # the indentation is layout only
    (FTB, "for w in wd) + '|'", "for w in wd)", [_CH], 'breaks'),                                       # no closing bar: a trailing blank cell is stripped away
    (FTB, "' ' * indent + '|'.join(", "' ' * indent + '||'.join(", [_CH], 'breaks'),
    (FTB, "    wd = [tools.max_len(objects)]", "    wd = [0]", [_CH], 'equivalent'),                    # an unpadded first column
    (FTB, "write(tmpl % (('',) + tuple(properties)))", "write(tmpl % (('#',) + tuple(properties)))", [_CH], 'breaks'),
    (FTB, "write(tmpl % (('',) + tuple(properties)))", "write(tmpl % ((' ',) + tuple(properties)))", [_CH], 'equivalent'),
    (FTB, "write(tmpl % (('',) + tuple(properties)))", "write(tmpl % (('x',) + tuple(properties)))", [_CH], 'breaks'),   # 'x' becomes a property
    # ---- the class Table
    (FTB, "    dumps_rstrip = True\n", "    dumps_rstrip = False\n", _TAB, 'equivalent'),               # the final line end is stripped by load_file anyway
    (FTB, "    dumps_rstrip = True\n\n", "", _TAB, 'equivalent'),
    (FTB, "    loadf = staticmethod(load_file)", "    loadf = staticmethod(dump_file)", _TAB, 'breaks'),
    # ---- FIMI
    (FF, "    delimiter = ' '", "    delimiter = ','", _FIMI, 'breaks'),                                # the text is no FIMI file any more
    (FF, "    lineterminator = '\\n'", "    lineterminator = '\\r\\n'", _FIMI, 'breaks'),
    (FF, "    dumps_rstrip = False\n", "    dumps_rstrip = True\n", [_FCTX], 'breaks'),                 # trailing rows without a true cell are lost
    (FF, "        yield tuple(map(int, values))", "        yield tuple(int(v) for v in values)", [_FWR], 'equivalent'),
    (FF, "        yield tuple(map(int, values))", "        yield tuple(map(int, reversed(values)))", [_FWR], 'breaks'),
    (FF, "        yield tuple(map(int, values))", "        yield tuple(map(int, values[:1]))", [_FWR], 'breaks'),
    (FF, "        yield tuple(map(int, values))", "        if values:\n            yield tuple(map(int, values))", [_FWR], 'breaks'),   # the empty sets are dropped
    (FF, "        yield tuple(map(int, values))", "        yield tuple(map(float, values))", [_FWR], 'breaks'),
]


# =====================================================================================================================
# the csv format at character level (contracts/formats_chars_csv.py).  Observable: Csv.loads(Csv.dumps(objects, properties, bools, object_header=h,
# bools_as_int=a), bools_as_int=a or None) for every table of the scope of bounded/chars_mutants.py that satisfies REP -- the ROUND TRIP, not the text.
# The row-level units formats.csv.dumpf / loadf report a different header cell as a different contract ('breaks' there): both verdicts are right.
#
# KNOWN FALSE ALARMS (behaviour-preserving for the round trip, refused by the units, hence NOT listed): `newline = '\n'` (an io.StringIO(newline='\n')
# does not translate either; the units ask for the value '' that the library assumption is stated for), `dialect = csv.excel_tab` / `csv.unix_dialect`,
# `csv.writer(file, dialect=dialect, quoting=csv.QUOTE_ALL)`, `csv.writer(file, dialect=dialect, lineterminator='\n')`, `csv.reader(file, dialect=dialect,
# strict=True)` (each a DIFFERENT dialect that also round-trips: lemmas/TextCsv.lean models the excel dialect only), a consistent change of a cell symbol
# in SYMBOLS (VALUES is derived from it; the units compose the row-level CONTRACTS, which state the symbols).
FCSV, FTL = 'concepts/formats/csv_context.py', 'concepts/tools.py'
_CLEM, _CCH, _CWR = 'lemma.csv.chars.roundtrip', 'formats.csv.Csv.dumpf.chars', 'formats.csv.Csv.loadf.written'
_CSV = [_CLEM, _CCH, _CWR]

CSV_MUTANTS = [
    # ---- the class Csv: the buffer and the dialect
    (FCSV, "    newline = ''\n", "    newline = None\n", _CSV, 'breaks'),                            # io.StringIO(newline=None) turns '\r' / '\r\n' into '\n' when written: a label 'x\ry' comes back as 'x\ny'
    (FCSV, "    newline = ''\n", "    newline = '\\r\\n'\n", _CSV, 'breaks'),                        # ... turns '\n' into '\r\n': a label 'x\ny' comes back as 'x\r\ny'
    (FCSV, "    dumps_rstrip = False\n", "    dumps_rstrip = True\n", _CSV, 'breaks'),               # no property, last object ' x ': the unquoted blank at the end of the text is stripped
    (FCSV, "    dumps_rstrip = False\n\n", "", _CSV, 'equivalent'),                                  # Format.dumps_rstrip is None: falsy
    (FCSV, "    dialect = csv.excel\n", "    dialect = 'excel'\n", _CSV, 'equivalent'),              # the registered name of the same dialect
    (FCSV, "    dialect = csv.excel\n", "    dialect = None\n", _CSV, 'equivalent'),                 # no dialect: the defaults of the C module, which are the same parameters
    # ---- how the csv module is reached
    (FCSV, "reader = csv.reader(file, dialect=dialect)", "reader = csv.reader(file, dialect=dialect, skipinitialspace=True)", _CSV, 'breaks'),   # ' x ' comes back as 'x '
    (FCSV, "reader = csv.reader(file, dialect=dialect)", "reader = csv.reader(file, dialect=dialect, quotechar=\"'\")", _CSV, 'breaks'),         # quoted fields keep their quotes, break at their commas
    (FCSV, "reader = csv.reader(file, dialect=dialect)", "reader = csv.reader(file, dialect=dialect, delimiter=';')", _CSV, 'breaks'),
    (FTL, "    writer = csv.writer(file, dialect=dialect)", "    writer = csv.writer(file, dialect=dialect, quotechar=\"'\")", [_CLEM, _CCH], 'breaks'),
    (FTL, "    writer = csv.writer(file, dialect=dialect)", "    writer = csv.writer(file, dialect=dialect, doublequote=False)", [_CLEM, _CCH], 'breaks'),   # _csv.Error: need to escape
    (FTL, "    writer = csv.writer(file, dialect=dialect)", "    writer = csv.writer(file, dialect=dialect, delimiter=' ')", [_CLEM, _CCH], 'breaks'),
    (FTL, "    writer = csv.writer(file, dialect=dialect)", "    writer = csv.writer(file, dialect='excel-tab')", [_CLEM, _CCH], 'breaks'),
    # ---- Csv.dumpf, the rows it hands to the writer read back: the first header cell is layout only (loadf drops it) ...
    (FCSV, "header = [object_header] + list(properties)", "header = [''] + list(properties)", [_CCH], 'equivalent'),
    (FCSV, "header = [object_header] + list(properties)", "header = ['#'] + list(properties)", [_CCH], 'equivalent'),
    (FCSV, "header = [object_header] + list(properties)", "header = [','] + list(properties)", [_CCH], 'equivalent'),         # written as `","`
    (FCSV, "header = [object_header] + list(properties)", "header = [None] + list(properties)", [_CCH], 'equivalent'),
    # ... as long as the reader accepts it: REP asks for csv.field_size_limit() >= 1 only, a fixed header of 7 characters is refused below 7
    (FCSV, "header = [object_header] + list(properties)", "header = ['objects'] + list(properties)", [_CCH], 'breaks'),
    # ... and it has to be there, once
    (FCSV, "header = [object_header] + list(properties)", "header = list(properties)", [_CCH], 'breaks'),                          # the first property is taken for it
    (FCSV, "header = [object_header] + list(properties)", "header = [object_header, ''] + list(properties)", [_CCH], 'breaks'),    # a property '' more
    (FCSV, "header = [object_header] + list(properties)", "header = [object_header] + list(objects)", [_CCH], 'breaks'),
    (FCSV, "rows = ([o] + list(map(symbool, bs))", "rows = ([str(o)] + list(map(symbool, bs))", [_CCH], 'equivalent'),            # labels are texts
    (FCSV, "rows = ([o] + list(map(symbool, bs))", "rows = ([o, ''] + list(map(symbool, bs))", [_CCH], 'breaks'),                 # a cell more per row
    (FCSV, "rows = ([o] + list(map(symbool, bs))", "rows = (['', o] + list(map(symbool, bs))", [_CCH], 'breaks'),                  # the object is read as a cell
    (FCSV, "rows = ([o] + list(map(symbool, bs))", "rows = (list(map(symbool, bs))", [_CCH], 'breaks'),
    (FCSV, "symbool = cls.symbols[bools_as_int].__getitem__", "symbool = cls.symbols[not bools_as_int].__getitem__", [_CCH], 'breaks'),   # read with the flag given: KeyError
    (FCSV, "for o, bs in zip(objects, bools))", "for o, bs in zip(properties, bools))", [_CCH], 'breaks'),
    (FCSV, "tools.write_csv_file(file, rows, header=header, dialect=dialect)", "tools.write_csv_file(file, rows, header=None, dialect=dialect)", [_CCH], 'breaks'),   # the first object row is read as the header
    # ---- Csv.loadf on the written text
    (FCSV, "        del object_header  # TODO\n", "", [_CWR], 'equivalent'),
    (FCSV, "object_header, *properties = next(reader)", "*properties, object_header = next(reader)", [_CWR], 'breaks'),            # the last property is dropped instead
    (FCSV, "object_header, *properties = next(reader)", "object_header, _, *properties = next(reader)", [_CWR], 'breaks'),         # ValueError without a property, else one property less
    (FCSV, "            _, *first_symbols = first_row\n", "            first_symbols = first_row\n", [_CWR], 'breaks'),            # an object label that is no symbol: ValueError
    (FCSV, "            _, *first_symbols = first_row\n", "            first_symbols = first_row[1:]\n", [_CWR], 'equivalent'),
    (FCSV, "            objects.append(obj)\n", "            objects.append(str(obj))\n", [_CWR], 'equivalent'),
    (FCSV, "        for obj, *symbols in rows:", "        for *symbols, obj in rows:", [_CWR], 'breaks'),
    (FCSV, "            rows = itertools.chain([first_row], reader)", "            rows = reader", [_CWR], 'breaks'),              # auto-detection eats the first object
    (FCSV, "get_value = cls.values[bools_as_int].__getitem__", "get_value = cls.values[not bools_as_int].__getitem__", [_CWR], 'breaks'),
]
