#!/bin/sh
# Offline setup: engine self-test (BITS axioms against CPython) and compilation of the Lean lemma files.
set -e
cd "$(dirname "$0")"
/opt/veriftools/pyvenv/bin/python - <<'PY'
import sys
sys.path.insert(0, '.')
from pyvc import bits
n = bits.selftest_axioms(lim=24, kmax=8)
print('BITS axioms validated against CPython on', n, 'instances')
PY
if [ -d lemmas ] && ls lemmas/*.lean >/dev/null 2>&1; then
  sh lemmas/build.sh
fi
echo setup-ok
