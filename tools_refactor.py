#!/usr/bin/env python3
"""Evaluate behaviour-preserving refactorings (written by independent sub-agents) against the proof units:
every unit should keep all its obligations (no false alarm).  Usage: tools_refactor.py /tmp/ref  -> seeded/REFACTORINGS.json
tools_refactor.py --stored [PATTERN ...]  re-evaluates the patches kept in seeded/refactorings/ (R*: sub-agents, H*: hand-made, see REFACTORINGS.md),
all of them or those whose name matches one of the glob patterns (`--stored 'H2*' R20-R1`).
With VERIF_REFACTOR_FULL=1 every patch is also put through the 20 registered quick checks (`./check CNN --tier quick`: units + ledger + linkage +
signature defaults + order-site scan + bounded side); field `checks_alarmed` lists the checks that did not exit 0."""
import glob, json, os, subprocess, sys, tempfile

VERIF = os.path.dirname(os.path.abspath(__file__))


def sh(cmd, cwd=None, env=None):
    return subprocess.run(cmd, shell=True, cwd=cwd, env=env, capture_output=True, text=True, timeout=3600)


def full_checks(wt):
    """All 20 quick checks against the patched tree (evidence redirected to a scratch directory)."""
    from concurrent.futures import ThreadPoolExecutor
    evdir = tempfile.mkdtemp(prefix='refev-', dir='/tmp')
    env = dict(os.environ, VERIF_REPO=wt, VERIF_EVIDENCE_DIR=evdir, PYTHONPATH=VERIF)

    def one(k):
        pid = 'C%02d' % k
        r = sh('./check %s --tier quick' % pid, cwd=VERIF, env=env)
        if r.returncode == 0 and 'VIOLATION' not in r.stdout:
            return None
        lines = [l for l in r.stdout.splitlines() if 'VIOLATION' in l or 'lost' in l or 'ungenerated' in l][:4]
        return '%s exit=%d %s' % (pid, r.returncode, ' | '.join(l[:200] for l in lines))
    try:
        with ThreadPoolExecutor(4) as ex:
            return [x for x in ex.map(one, range(1, 21)) if x]
    finally:
        import shutil
        shutil.rmtree(evdir, ignore_errors=True)


def main(root, only=()):
    """only: with --stored, glob patterns of patch names (without .diff) to restrict the run to"""
    out = {}
    wt = tempfile.mkdtemp(prefix='refwt-', dir='/tmp')
    os.rmdir(wt)
    assert sh('git -C /repo worktree add --detach %s HEAD' % wt).returncode == 0
    try:
        stored = root == '--stored'
        diffs = glob.glob(os.path.join(VERIF, 'seeded', 'refactorings', '*.diff')) if stored else glob.glob(os.path.join(root, 'R*', 'deliver', 'R*.diff'))
        if stored and only:
            import fnmatch
            diffs = [d for d in diffs if any(fnmatch.fnmatch(os.path.basename(d)[:-5], pat) for pat in only)]
        for diff in sorted(diffs):
            rid = os.path.basename(diff)[:-5] if stored else '%s-%s' % (diff.split('/')[-3], os.path.basename(diff)[:-5])
            r = sh('git apply %s' % diff, cwd=wt)
            if r.returncode != 0:
                out[rid] = {'error': 'patch does not apply: ' + r.stderr[-200:]}
                continue
            try:
                files = sh('git diff --name-only', cwd=wt).stdout.split()
                env = dict(os.environ, VERIF_REPO=wt, PYVC_Z3_TIMEOUT_MS='10000', PYVC_CVC5_TIMEOUT_S='10', PYTHONPATH=VERIF)
                t = sh('PYTHONPATH=%s /venv/bin/python -m pytest -q -p no:cacheprovider -x 2>&1 | tail -1' % wt, cwd=wt)
                r = sh('/opt/veriftools/pyvenv/bin/python -m pyvc.run', cwd=VERIF, env=env)
                bad = []
                for line in r.stdout.splitlines():
                    if line.startswith(' '):
                        continue
                    if ' bad=0 ' not in line or 'errors=[]' not in line or 'False' in line.split('probes=')[-1]:
                        bad.append(line[:260])
                import shutil
                os.makedirs(os.path.join(VERIF, 'seeded', 'refactorings'), exist_ok=True)
                if not stored:
                    shutil.copy(diff, os.path.join(VERIF, 'seeded', 'refactorings', rid + '.diff'))
                out[rid] = {'files': files, 'tests': t.stdout.strip()[-60:], 'units_alarmed': bad}
                if os.environ.get('VERIF_REFACTOR_FULL'):
                    out[rid]['checks_alarmed'] = full_checks(wt)
                    bad = bad or out[rid]['checks_alarmed']
                print(rid, files, 'ALARM' if bad else 'quiet', len(bad))
                for b in bad[:3]:
                    print('    ', b[:200])
            finally:
                sh('git checkout -- . && git clean -fdq', cwd=wt)
    finally:
        sh('git -C /repo worktree remove --force %s' % wt)
    dest = os.path.join(VERIF, 'seeded', 'REFACTORINGS.json')
    old = json.load(open(dest)) if os.path.exists(dest) else {}
    old.update(out)            # rounds accumulate (patch ids R<agent>-R<k> are unique per round)
    with open(dest, 'w') as f:
        json.dump(old, f, indent=1, sort_keys=True)
    n = len(out)
    a = sum(1 for v in out.values() if v.get('units_alarmed'))
    print('refactorings:', n, 'raising an alarm in some unit:', a,
          'in some check:', sum(1 for v in out.values() if v.get('checks_alarmed')), 'quiet:', sum(1 for v in out.values() if not (v.get('units_alarmed') or v.get('checks_alarmed') or v.get('error'))))


if __name__ == '__main__':
    main(sys.argv[1] if len(sys.argv) > 1 else '/tmp/ref', sys.argv[2:])
