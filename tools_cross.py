#!/usr/bin/env python3
"""Cross-property precision of the checks: every stored seeded change (seeded/<id>/patch.diff, written to break ONE property) is put
through ALL 20 quick checks.  For each (change, other property) the result is one of
  quiet          the other property's check exits 0,
  bounded        it reports a violation with a failing input of the real code (the other property is genuinely broken as well),
  proof-only     it reports a lost obligation and finds no failing input (`no-failing-input-found`): the proof of the other property
                 depends on the changed function -- a proof-maintenance alarm or a genuine dependency, to be read by hand.
Output: seeded/CROSS.json (+ summary on stdout).  Usage: tools_cross.py [ids...]   (scratch worktrees under /tmp, removed afterwards)."""
import json, os, shutil, subprocess, sys, tempfile
from concurrent.futures import ThreadPoolExecutor

VERIF = os.path.dirname(os.path.abspath(__file__))
PROPS = ['C%02d' % k for k in range(1, 21)]


def sh(cmd, cwd=None, env=None):
    return subprocess.run(cmd, shell=True, cwd=cwd, env=env, capture_output=True, text=True, timeout=3600)


def one_change(sid):
    seeded = os.path.join(VERIF, 'seeded')
    wt = tempfile.mkdtemp(prefix='crosswt-', dir='/tmp')
    os.rmdir(wt)
    assert sh('git -C /repo worktree add --detach %s HEAD' % wt).returncode == 0
    evdir = tempfile.mkdtemp(prefix='crossev-', dir='/tmp')
    try:
        r = sh('git apply %s' % os.path.join(seeded, sid, 'patch.diff'), cwd=wt)
        assert r.returncode == 0, (sid, r.stderr)
        res = {}
        for prop in PROPS:
            env = dict(os.environ, VERIF_REPO=wt, VERIF_EVIDENCE_DIR=evdir, PYVC_Z3_TIMEOUT_MS='8000', PYVC_CVC5_TIMEOUT_S='8')
            r = sh('./check %s --tier quick' % prop, cwd=VERIF, env=env)
            lines = [l for l in r.stdout.splitlines() if l.startswith('VIOLATION')]
            if r.returncode == 0:
                res[prop] = {'verdict': 'quiet'}
            elif r.returncode == 1:
                bounded = any(not l.rstrip().endswith('no-failing-input-found') for l in lines)
                res[prop] = {'verdict': 'bounded' if bounded else 'proof-only', 'lines': [l[:260] for l in lines[:3]]}
            else:
                res[prop] = {'verdict': 'exit-%d' % r.returncode, 'lines': (r.stdout[-300:] + r.stderr[-300:]).splitlines()[-3:]}
        return sid, res
    finally:
        sh('git -C /repo worktree remove --force %s' % wt)
        shutil.rmtree(evdir, ignore_errors=True)


def main(ids):
    seeded = os.path.join(VERIF, 'seeded')
    ids = ids or sorted(x for x in os.listdir(seeded) if os.path.isfile(os.path.join(seeded, x, 'meta.json')))
    dest = os.path.join(seeded, 'CROSS.json')
    out = json.load(open(dest)) if os.path.exists(dest) else {}
    with ThreadPoolExecutor(int(os.environ.get('CROSS_JOBS', '3'))) as ex:
        for sid, res in ex.map(one_change, ids):
            out[sid] = res
            own = sid.split('-')[0]
            print(sid, 'own=%s' % res[own]['verdict'], 'others:', ' '.join('%s=%s' % (p, v['verdict']) for p, v in res.items() if p != own and v['verdict'] != 'quiet'), flush=True)
            with open(dest, 'w') as f:
                json.dump(out, f, indent=1, sort_keys=True)


if __name__ == '__main__':
    main(sys.argv[1:])
