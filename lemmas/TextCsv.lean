import Mathlib.Data.List.Basic
import Mathlib.Tactic

/-!
# The csv module in the `excel` dialect, character by character (TEXT theory of `pyvc/texts.py`, units
`lemma.csv.chars.roundtrip`, `formats.csv.Csv.loadf.written`, `formats.csv.Csv.dumpf.chars`)

`concepts/formats/csv_context.py` hands rows of texts to `csv.writer(file, dialect=csv.excel)` (through
`tools.write_csv_file`) and reads rows of texts from `csv.reader(file, dialect=csv.excel)`.  The parameters of that dialect:
delimiter `','`, quotechar `'"'`, doublequote, no escapechar, no skipinitialspace, lineterminator `'\r\n'`, QUOTE_MINIMAL,
not strict.  This file is a MODEL of what the C module `_csv` does in that dialect (CPython 3.11 / 3.12, `Modules/_csv.c`:
`join_append_data`, `csv_writerow`, `parse_process_char`, `parse_add_char`, `parse_save_field`, `Reader_iternext`); that
CPython computes these functions is an ASSUMED library contract, validated on an enumerated scope by `pyvc/texts.py`
(`selftest()`: CPython against a python copy of the definitions; `selftest_lean()`: CPython against the definitions below,
run with `#eval`).  What is PROVED here is that the reader inverts the writer: `csv_roundtrip`.

Dictionary (Python on the left):

* `csv.writer(f, dialect=csv.excel).writerow(r)` for a row `r` of texts writes   `csvWriteRow r`
  (a field is quoted iff it contains `','`, `'"'`, `'\r'` or `'\n'` -- nothing else, in particular not for blanks at its
  ends; a quote inside a quoted field is doubled; a row whose ONLY field is the empty text is written as `""`, because the
  empty line is the row WITHOUT fields; the row without fields is the empty line)
* `.writerows(rs)` writes                                                       `csvWriteRows rs`
* `list(csv.reader(lines, dialect=csv.excel))` for an iterable of texts `lines`   `csvReadLines lim lines`
  (`none`: `_csv.Error` is raised -- "new-line character seen in unquoted field", or "field larger than field limit";
  `lim = csv.field_size_limit()`, 131072 unless changed)
* `list(csv.reader(io.StringIO(text), dialect=csv.excel))`                       `csvReadRows lim text`
  (the file object yields `linesKeep '\n' text`: cut behind every `'\n'`, line ends kept; `'\r'` does not end a line of an
  `io.StringIO(text)`, whose `newline` is `'\n'`)

The reader is the state machine of `parse_process_char` (the states that can be reached without an escapechar), fed the
characters of every line and, behind every line, the end-of-line token `none` (`EOL` in `_csv.c`); a record is complete when the
state is `startRecord` behind an end-of-line token, and an unterminated quoted field is closed by the end of the input.
-/

open List

set_option autoImplicit false

namespace TextCsv

abbrev Row := List (List Char)

/-- the lines a text yields when iterated as a file (`for line in io.StringIO(text)`): cut BEHIND every line end, line ends
kept (the definition of `Text.linesKeep` in `Text.lean`, repeated because the files are checked one by one) -/
def linesKeep (nl : Char) : List Char → List (List Char)
  | [] => []
  | c :: cs =>
    if c = nl then [c] :: linesKeep nl cs
    else match linesKeep nl cs with
      | [] => [[c]]
      | l :: ls => (c :: l) :: ls

/-! ## the writer (`join_append_data`, `csv_writerow` with QUOTE_MINIMAL, doublequote, lineterminator `'\r\n'`) -/

/-- the characters that make the writer quote a field: delimiter, quotechar, the characters of the lineterminator -/
def special (c : Char) : Bool := c = ',' || c = '"' || c = '\r' || c = '\n'

def needsQuote (f : List Char) : Bool := f.any special

/-- every quote doubled -/
def escape (f : List Char) : List Char := f.flatMap fun c => if c = '"' then ['"', '"'] else [c]

def quoted (f : List Char) : List Char := '"' :: (escape f ++ ['"'])

def writeField (f : List Char) : List Char := if needsQuote f then quoted f else f

/-- the line without its terminator: a lone empty field is written as `""` -/
def rowBody (r : Row) : List Char := if r = [[]] then quoted [] else [','].intercalate (r.map writeField)

def csvWriteRow (r : Row) : List Char := rowBody r ++ ['\r', '\n']

def csvWriteRows (rs : List Row) : List Char := (rs.map csvWriteRow).flatten

/-! ## the reader (`parse_process_char`, `Reader_iternext`; not strict, no escapechar, no skipinitialspace) -/

inductive St
  | startRecord | startField | inField | inQuoted | quoteInQuoted | eatCrnl
  deriving DecidableEq, Repr

structure State where
  st : St
  field : List Char
  fields : Row

def isBreak (c : Char) : Bool := c = '\n' || c = '\r'

/-- `parse_add_char`: `_csv.Error` ("field larger than field limit") when the field already has `lim` characters -/
def addChar (lim : Nat) (s : State) (c : Char) (st' : St) : Option State :=
  if s.field.length < lim then some ⟨st', s.field ++ [c], s.fields⟩ else none

/-- `parse_save_field` -/
def saveField (s : State) (st' : St) : State := ⟨st', [], s.fields ++ [s.field]⟩

/-- `case START_FIELD` (also reached from `START_RECORD` by fall-through) -/
def stepStartField (lim : Nat) (s : State) : Option Char → Option State
  | none => some (saveField s .startRecord)
  | some c =>
    if isBreak c then some (saveField s .eatCrnl)
    else if c = '"' then some { s with st := .inQuoted }
    else if c = ',' then some (saveField s .startField)
    else addChar lim s c .inField

/-- `parse_process_char`; the token `none` is the end of a line (`EOL`); the result `none` is `_csv.Error` -/
def step (lim : Nat) (s : State) (t : Option Char) : Option State :=
  match s.st with
  | .startRecord =>
    match t with
    | none => some s
    | some c => if isBreak c then some { s with st := .eatCrnl } else stepStartField lim s (some c)
  | .startField => stepStartField lim s t
  | .inField =>
    match t with
    | none => some (saveField s .startRecord)
    | some c =>
      if isBreak c then some (saveField s .eatCrnl)
      else if c = ',' then some (saveField s .startField)
      else addChar lim s c .inField
  | .inQuoted =>
    match t with
    | none => some s
    | some c => if c = '"' then some { s with st := .quoteInQuoted } else addChar lim s c .inQuoted
  | .quoteInQuoted =>
    match t with
    | none => some (saveField s .startRecord)
    | some c =>
      if c = '"' then addChar lim s c .inQuoted
      else if c = ',' then some (saveField s .startField)
      else if isBreak c then some (saveField s .eatCrnl)
      else addChar lim s c .inField
  | .eatCrnl =>
    match t with
    | none => some { s with st := .startRecord }
    | some c => if isBreak c then some s else none

/-- `parse_reset` -/
def init : State := ⟨.startRecord, [], []⟩

/-- `Reader_iternext`, called until the lines are exhausted: behind an end-of-line token the record is complete iff the state
is `startRecord`; when the lines end inside a quoted field the field and the record are closed -/
def run (lim : Nat) : State → List (Option Char) → Option (List Row)
  | s, [] => some (if s.st = .inQuoted then [s.fields ++ [s.field]] else [])
  | s, some c :: ts => (step lim s (some c)).bind fun s' => run lim s' ts
  | s, none :: ts => (step lim s none).bind fun s' =>
      if s'.st = .startRecord then (run lim init ts).map (s'.fields :: ·) else run lim s' ts

/-- the characters of a line, then the end-of-line token -/
def lineToks (l : List Char) : List (Option Char) := l.map some ++ [none]

def toks (lines : List (List Char)) : List (Option Char) := lines.flatMap lineToks

/-- `list(csv.reader(lines, dialect=csv.excel))` -/
def csvReadLines (lim : Nat) (lines : List (List Char)) : Option (List Row) := run lim init (toks lines)

/-- `list(csv.reader(io.StringIO(text), dialect=csv.excel))` -/
def csvReadRows (lim : Nat) (text : List Char) : Option (List Row) := csvReadLines lim (linesKeep '\n' text)

/-! ## the tokens of a text that is empty or ends with a line end: an end-of-line token behind every `'\n'` -/

def eol (s : List Char) : List (Option Char) := s.flatMap fun c => if c = '\n' then [some c, none] else [some c]

theorem eol_append (x y : List Char) : eol (x ++ y) = eol x ++ eol y := by simp [eol]

theorem eol_cons (c : Char) (x : List Char) : eol (c :: x) = (if c = '\n' then [some c, none] else [some c]) ++ eol x := by
  simp [eol]

theorem eol_of_not_mem (x : List Char) (h : '\n' ∉ x) : eol x = x.map some := by
  induction x with
  | nil => simp [eol]
  | cons c x ih =>
    have hc : c ≠ '\n' := fun e => h (by simp [e])
    rw [eol_cons, if_neg hc, ih (fun e => h (by simp [e]))]
    simp

theorem linesKeep_ne_nil (c : Char) (cs : List Char) : linesKeep '\n' (c :: cs) ≠ [] := by
  rw [linesKeep]
  split_ifs
  · simp
  · split <;> simp

theorem toks_cons (c : Char) (cs : List Char) :
    toks (linesKeep '\n' (c :: cs)) =
      some c :: (if c = '\n' then none :: toks (linesKeep '\n' cs)
                 else if cs = [] then [none] else toks (linesKeep '\n' cs)) := by
  rw [linesKeep]
  by_cases hc : c = '\n'
  · simp [hc, toks, lineToks]
  · simp only [if_neg hc]
    cases cs with
    | nil => simp [linesKeep, toks, lineToks]
    | cons d ds =>
      have hne := linesKeep_ne_nil d ds
      cases h : linesKeep '\n' (d :: ds) with
      | nil => exact absurd h hne
      | cons l ls => simp [toks, lineToks]

theorem toks_eol (a : List Char) : toks (linesKeep '\n' (a ++ ['\n'])) = eol (a ++ ['\n']) := by
  induction a with
  | nil => simp [linesKeep, toks, lineToks, eol]
  | cons c a ih =>
    rw [cons_append, toks_cons, ih, eol_cons]
    by_cases hc : c = '\n'
    · simp [hc]
    · simp [hc]

/-! ## the reader on what the writer wrote -/

theorem run_some (lim : Nat) (s : State) (c : Char) (ts : List (Option Char)) :
    run lim s (some c :: ts) = (step lim s (some c)).bind fun s' => run lim s' ts := by
  rw [run]

theorem run_none (lim : Nat) (s : State) (ts : List (Option Char)) :
    run lim s (none :: ts) = (step lim s none).bind fun s' =>
      if s'.st = .startRecord then (run lim init ts).map (s'.fields :: ·) else run lim s' ts := by
  rw [run]

theorem special_false {c : Char} (h : special c = false) : c ≠ ',' ∧ c ≠ '"' ∧ c ≠ '\r' ∧ c ≠ '\n' := by
  simp only [special, Bool.or_eq_false_iff, decide_eq_false_iff_not] at h
  exact ⟨h.1.1.1, h.1.1.2, h.1.2, h.2⟩

theorem eol_quote2 : eol ['"', '"'] = [some '"', some '"'] := by simp [eol]

theorem eol_nl : eol ['\n'] = [some '\n', none] := by simp [eol]

theorem eol_single (c : Char) (h : c ≠ '\n') : eol [c] = [some c] := by simp [eol, h]

theorem eol_comma : eol [','] = [some ','] := by simp [eol]

theorem eol_crnl : eol ['\r', '\n'] = [some '\r', some '\n', none] := by simp [eol]

/-- the characters of an unquoted field, behind its first one -/
theorem run_inField (lim : Nat) (F : Row) (ts : List (Option Char)) :
    ∀ (g acc : List Char), (∀ c ∈ g, special c = false) → acc.length + g.length ≤ lim →
      run lim ⟨.inField, acc, F⟩ (g.map some ++ ts) = run lim ⟨.inField, acc ++ g, F⟩ ts
  | [], acc, _, _ => by simp
  | c :: g, acc, hs, hl => by
    obtain ⟨h1, _, h3, h4⟩ := special_false (hs c (by simp))
    have hlt : acc.length < lim := by simp at hl; omega
    have ih := run_inField lim F ts g (acc ++ [c]) (fun x hx => hs x (by simp [hx])) (by simp at hl ⊢; omega)
    simp only [map_cons, cons_append, run_some]
    simp [step, isBreak, h1, h3, h4, addChar, hlt, ih]

/-- the characters of a quoted field between its quotes: doubled quotes, line ends (with their end-of-line tokens) -/
theorem run_inQuoted (lim : Nat) (F : Row) (ts : List (Option Char)) :
    ∀ (g acc : List Char), acc.length + g.length ≤ lim →
      run lim ⟨.inQuoted, acc, F⟩ (eol (escape g) ++ ts) = run lim ⟨.inQuoted, acc ++ g, F⟩ ts
  | [], acc, _ => by simp [escape, eol]
  | c :: g, acc, hl => by
    have hlt : acc.length < lim := by simp at hl; omega
    have ih := run_inQuoted lim F ts g (acc ++ [c]) (by simp at hl ⊢; omega)
    rw [show acc ++ [c] ++ g = acc ++ c :: g by simp] at ih
    have hesc : escape (c :: g) = (if c = '"' then ['"', '"'] else [c]) ++ escape g := by simp [escape]
    rw [hesc, eol_append, append_assoc]
    by_cases hq : c = '"'
    · subst hq
      rw [if_pos rfl, eol_quote2]
      simp [run_some, step, addChar, hlt, ih]
    · rw [if_neg hq]
      by_cases hn : c = '\n'
      · subst hn
        rw [eol_nl]
        simp [run_some, run_none, step, addChar, hlt, ih]
      · rw [eol_single c hn]
        simp [hq, run_some, step, addChar, hlt, ih]

/-- a state in which the delimiter closes the field -/
def Closable (s : State) : Prop :=
  s.st = .inField ∨ s.st = .quoteInQuoted ∨ s.st = .startField ∨ s.st = .startRecord

theorem run_comma (lim : Nat) (s : State) (ts : List (Option Char)) (h : Closable s) :
    run lim s (some ',' :: ts) = run lim ⟨.startField, [], s.fields ++ [s.field]⟩ ts := by
  obtain ⟨st, fld, F⟩ := s
  rcases h with h | h | h | h <;> simp only at h <;> subst h <;>
    simp [run_some, step, stepStartField, isBreak, saveField]

/-- the line terminator behind a field closes the field and the record -/
theorem run_crnl (lim : Nat) (s : State) (ts : List (Option Char))
    (h : s.st = .inField ∨ s.st = .quoteInQuoted ∨ s.st = .startField) :
    run lim s (some '\r' :: some '\n' :: none :: ts) = (run lim init ts).map ((s.fields ++ [s.field]) :: ·) := by
  obtain ⟨st, fld, F⟩ := s
  rcases h with h | h | h <;> simp only at h <;> subst h <;>
    simp [run_some, run_none, step, stepStartField, isBreak, saveField]

/-- where the reader is behind the text of a field (started in `st0`) -/
def behind (st0 : St) (f : List Char) (F : Row) : State :=
  if needsQuote f then ⟨.quoteInQuoted, f, F⟩ else if f = [] then ⟨st0, [], F⟩ else ⟨.inField, f, F⟩

theorem run_quoted (lim : Nat) (st0 : St) (h0 : st0 = .startRecord ∨ st0 = .startField) (f : List Char) (F : Row)
    (ts : List (Option Char)) (hl : f.length ≤ lim) :
    run lim ⟨st0, [], F⟩ (eol (quoted f) ++ ts) = run lim ⟨.quoteInQuoted, f, F⟩ ts := by
  have hq := run_inQuoted lim F (some '"' :: ts) f [] (by simpa using hl)
  have : eol (quoted f) ++ ts = some '"' :: (eol (escape f) ++ some '"' :: ts) := by
    simp [quoted, eol]
  rw [this]
  rcases h0 with h0 | h0 <;> subst h0 <;>
    simp [run_some, step, stepStartField, isBreak, hq]

theorem run_field (lim : Nat) (st0 : St) (h0 : st0 = .startRecord ∨ st0 = .startField) (f : List Char) (F : Row)
    (ts : List (Option Char)) (hl : f.length ≤ lim) :
    run lim ⟨st0, [], F⟩ (eol (writeField f) ++ ts) = run lim (behind st0 f F) ts := by
  unfold writeField behind
  by_cases hq : needsQuote f = true
  · simp only [hq, if_true]
    exact run_quoted lim st0 h0 f F ts hl
  · simp only [hq, if_false, Bool.false_eq_true]
    cases f with
    | nil => simp [eol]
    | cons c g =>
      have hs : ∀ x ∈ c :: g, special x = false := by
        simpa [needsQuote] using hq
      obtain ⟨h1, h2, h3, h4⟩ := special_false (hs c (by simp))
      have hnl : '\n' ∉ c :: g := fun e => (special_false (hs _ e)).2.2.2 rfl
      have hlt : 0 < lim := by simp at hl; omega
      have hg := run_inField lim F ts g [c] (fun x hx => hs x (by simp [hx])) (by simp at hl ⊢; omega)
      rw [eol_of_not_mem _ hnl]
      simp only [map_cons, cons_append, run_some, if_neg (cons_ne_nil c g)]
      rcases h0 with h0 | h0 <;> subst h0 <;>
        simp [step, stepStartField, isBreak, h1, h2, h3, h4, addChar, hlt, hg]

theorem behind_fields (st0 : St) (f : List Char) (F : Row) :
    (behind st0 f F).fields = F ∧ (behind st0 f F).field = f := by
  unfold behind
  split_ifs with h1 h2
  · simp
  · simp [h2]
  · simp

/-- the fields of a row with at least one field, joined by delimiters and closed by the line terminator; at the start of a
record the row must not be the lone empty field (written as the empty line it would be read as the row without fields) -/
theorem run_fields (lim : Nat) (ts : List (Option Char)) :
    ∀ (fs : Row) (st0 : St) (F : Row), fs ≠ [] → (st0 = .startField ∨ (st0 = .startRecord ∧ fs ≠ [[]])) →
      (∀ f ∈ fs, f.length ≤ lim) →
      run lim ⟨st0, [], F⟩ (eol ([','].intercalate (fs.map writeField)) ++ some '\r' :: some '\n' :: none :: ts)
        = (run lim init ts).map ((F ++ fs) :: ·)
  | [], _, _, h, _, _ => absurd rfl h
  | [f], st0, F, _, h0, hl => by
    have h0' : st0 = .startRecord ∨ st0 = .startField := by rcases h0 with h | ⟨h, _⟩ <;> simp [h]
    have hb := behind_fields st0 f F
    simp only [map_cons, map_nil, intercalate_singleton]
    rw [run_field lim st0 h0' f F _ (hl f (by simp)), run_crnl, hb.1, hb.2]
    unfold behind
    split_ifs with h1 h2
    · simp
    · rcases h0 with h | ⟨_, h⟩
      · simp [h]
      · exact absurd (by simp [h2]) h
    · simp
  | f :: g :: rest, st0, F, _, h0, hl => by
    have h0' : st0 = .startRecord ∨ st0 = .startField := by rcases h0 with h | ⟨h, _⟩ <;> simp [h]
    have hb := behind_fields st0 f F
    have ih := run_fields lim ts (g :: rest) .startField (F ++ [f]) (by simp) (Or.inl rfl)
      (fun x hx => hl x (by simp only [mem_cons] at hx ⊢; exact Or.inr hx))
    have hc : Closable (behind st0 f F) := by
      unfold behind Closable
      split_ifs <;> rcases h0' with h | h <;> simp [h]
    simp only [map_cons] at ih ⊢
    rw [intercalate_cons_cons, eol_append, eol_append, append_assoc, append_assoc,
      run_field lim st0 h0' f F _ (hl f (by simp))]
    rw [eol_comma, singleton_append, run_comma lim _ _ hc, hb.1, hb.2, ih]
    simp

theorem run_row (lim : Nat) (r : Row) (ts : List (Option Char)) (hl : ∀ f ∈ r, f.length ≤ lim) :
    run lim init (eol (csvWriteRow r) ++ ts) = (run lim init ts).map (r :: ·) := by
  unfold csvWriteRow rowBody
  by_cases h1 : r = [[]]
  · subst h1
    rw [if_pos rfl, eol_append, append_assoc, show init = ⟨.startRecord, [], []⟩ from rfl,
      run_quoted lim .startRecord (Or.inl rfl) [] [] _ (by simp)]
    rw [eol_crnl]
    simp only [cons_append, nil_append]
    rw [run_crnl _ _ _ (Or.inr (Or.inl rfl))]
    simp [init]
  · rw [if_neg h1]
    by_cases h2 : r = []
    · subst h2
      simp [eol, run_some, run_none, step, isBreak, init]
    · have := run_fields lim ts r .startRecord [] h2 (Or.inr ⟨rfl, h1⟩) hl
      rw [eol_append, append_assoc, eol_crnl]
      simpa [init] using this

theorem run_rows (lim : Nat) : ∀ (rows : List Row), (∀ r ∈ rows, ∀ f ∈ r, f.length ≤ lim) →
    run lim init (eol (csvWriteRows rows)) = some rows
  | [], _ => by simp [csvWriteRows, eol, run, init]
  | r :: rs, h => by
    have ih := run_rows lim rs (fun x hx => h x (by simp [hx]))
    have : csvWriteRows (r :: rs) = csvWriteRow r ++ csvWriteRows rs := by simp [csvWriteRows]
    rw [this, eol_append, run_row lim r _ (h r (by simp)), ih]
    simp

theorem csvWriteRows_ends (rows : List Row) : csvWriteRows rows = [] ∨ ∃ a, csvWriteRows rows = a ++ ['\n'] := by
  induction rows with
  | nil => left; simp [csvWriteRows]
  | cons r rs ih =>
    right
    have : csvWriteRows (r :: rs) = csvWriteRow r ++ csvWriteRows rs := by simp [csvWriteRows]
    rcases ih with h | ⟨a, h⟩
    · exact ⟨rowBody r ++ ['\r'], by rw [this, h]; simp [csvWriteRow]⟩
    · exact ⟨csvWriteRow r ++ a, by rw [this, h]; simp⟩

/-- THE ROUND TRIP: the reader, fed the text the writer wrote for ANY rows of ANY texts (the row without fields, the lone empty
field, fields with delimiters, quotes, line ends of either kind included), returns the rows -- provided no field is longer than
the field size limit (`parse_add_char` refuses the character number `lim + 1` of a field) -/
theorem csv_roundtrip (lim : Nat) (rows : List Row) (h : ∀ r ∈ rows, ∀ f ∈ r, f.length ≤ lim) :
    csvReadRows lim (csvWriteRows rows) = some rows := by
  unfold csvReadRows csvReadLines
  rcases csvWriteRows_ends rows with h0 | ⟨a, ha⟩
  · have := run_rows lim rows h
    rw [h0] at this ⊢
    simpa [linesKeep, toks, eol] using this
  · have := run_rows lim rows h
    rw [ha] at this ⊢
    rw [toks_eol]
    exact this

/-- the limit is needed: a field of `lim + 1` characters is refused -/
theorem run_inField_over (lim : Nat) (F : Row) (ts : List (Option Char)) :
    ∀ (g acc : List Char), (∀ c ∈ g, special c = false) → lim < acc.length + g.length → acc.length ≤ lim →
      run lim ⟨.inField, acc, F⟩ (g.map some ++ ts) = none
  | [], acc, _, h1, h2 => by simp at h1; omega
  | c :: g, acc, hs, h1, h2 => by
    obtain ⟨k1, _, k3, k4⟩ := special_false (hs c (by simp))
    simp only [map_cons, cons_append, run_some]
    by_cases hlt : acc.length < lim
    · have ih := run_inField_over lim F ts g (acc ++ [c]) (fun x hx => hs x (by simp [hx])) (by simp at h1 ⊢; omega)
        (by simp; omega)
      simp [step, isBreak, k1, k3, k4, addChar, hlt, ih]
    · simp [step, isBreak, k1, k3, k4, addChar, hlt]

theorem csv_limit (lim : Nat) (c : Char) (hc : special c = false) :
    csvReadRows lim (csvWriteRows [[replicate (lim + 1) c]]) = none := by
  obtain ⟨k1, k2, k3, k4⟩ := special_false hc
  have hs : ∀ x ∈ replicate lim c, special x = false := by
    intro x hx
    rw [(mem_replicate.mp hx).2]
    exact hc
  have hq : needsQuote (c :: replicate lim c) = false := by
    simp only [needsQuote, any_cons, hc, Bool.false_or, any_eq_false]
    intro x hx
    simp [hs x hx]
  have hnl : '\n' ∉ c :: (replicate lim c ++ ['\r']) := by
    simp only [mem_cons, mem_append, mem_replicate, not_or]
    exact ⟨fun e => k4 e.symm, fun e => k4 e.2.symm, by decide, by simp⟩
  have hw : csvWriteRows [[replicate (lim + 1) c]] = (c :: (replicate lim c ++ ['\r'])) ++ ['\n'] := by
    simp [csvWriteRows, csvWriteRow, rowBody, writeField, replicate_succ, hq]
  unfold csvReadRows csvReadLines
  rw [hw, toks_eol, eol_append, eol_nl, eol_of_not_mem _ hnl]
  simp only [map_cons, map_append, cons_append, run_some, init]
  by_cases hlt : 0 < lim
  · have := run_inField_over lim [] [some '\r', some '\n', none] (replicate lim c) [c] hs (by simp) (by simp; omega)
    simp only [map_replicate] at this
    simp [step, stepStartField, isBreak, k1, k2, k3, k4, addChar, hlt, this]
  · simp [step, stepStartField, isBreak, k1, k2, k3, k4, addChar, hlt]

#print axioms csv_roundtrip
#print axioms csv_limit

end TextCsv
