import Mathlib.Data.List.Chain
import Mathlib.Data.List.DropRight
import Mathlib.Data.List.Basic
import Mathlib.Tactic

/-!
# Texts as lists of characters (TEXT theory of `pyvc/texts.py`, unit `lemma.cxt.roundtrip`)

A Python `str` is modelled by the list of its characters (code points).  The functions below are the
MODEL of the CPython string functions that `concepts/formats/cxt.py` uses; that CPython's functions
agree with them is an ASSUMED library contract, validated on an enumerated scope by
`pyvc/texts.py: selftest()` (which also runs the definitions of this file with `#eval` and compares
the results with CPython, `selftest_lean()`).

Dictionary (Python on the left):

* `s + t`                  `s ++ t`
* `sep.join(ls)`           `sep.intercalate ls` (Lean: `List.intercalate sep ls`)
* `s.split(c)`, one char   `s.splitOn c` (core)
* `s.split(a + b)`         `split2 a b s` (leftmost, non-overlapping occurrences of the two-character separator)
* `s.split()`              `splitWs ws s`: the non-empty pieces between whitespace characters
* `s.strip()`              `strip ws s`
* `c.isspace()`            `ws c`; the CPython table is `pyWs`
* `f'{n:d}'`, `n >= 0`     `dec n`
* `int(s)`, ASCII digits   `intOf s`
* `for l in ls: print(l, file=f)` writes `unlines ls`
* `''.join(symbols[v] for v in row)`   `rowText symT symF row`
* `[values[c] for c in text]` with `values = {symF: False, symT: True}`   `text.map (valueOf symT)`
-/

open List

set_option autoImplicit false
set_option linter.unusedSectionVars false
set_option linter.unusedSimpArgs false

namespace Text

variable {α : Type} [DecidableEq α]

/-! ## Definitions -/

/-- `s.strip()` -/
def strip (ws : α → Bool) (s : List α) : List α := (s.dropWhile ws).rdropWhile ws

/-- `s.split()` (no argument): the maximal runs of non-whitespace characters -/
def splitWs (ws : α → Bool) (s : List α) : List (List α) :=
  (s.splitOnP ws).filter (fun p => !p.isEmpty)

/-- `s.split(sep)` for a separator `sep = a + b` of two characters: cut at the leftmost occurrence,
continue behind it -/
def split2 (a b : α) : List α → List (List α)
  | [] => [[]]
  | [c] => [[c]]
  | c :: d :: cs =>
    if c = a ∧ d = b then [] :: split2 a b cs
    else (split2 a b (d :: cs)).modifyHead (List.cons c)

/-- what `for l in ls: print(l, file=f)` writes: every line followed by the line end -/
def unlines (nl : α) (ls : List (List α)) : List α := (ls.map (· ++ [nl])).flatten

/-- `f'{n:d}'` for a natural number -/
def dec (n : Nat) : List Char := Nat.toDigits 10 n

/-- `int(s)` for a text of ASCII digits -/
def intOf (s : List Char) : Nat := Nat.ofDigitChars 10 s 0

/-- `''.join(symbols[v] for v in row)` with `symbols = {False: symF, True: symT}` (one character each) -/
def rowText (symT symF : α) (row : List Bool) : List α :=
  ([] : List α).intercalate (row.map fun v => [if v then symT else symF])

/-- `values[c]` with `values = {s: b for b, s in symbols.items()}` on the characters `symT`, `symF` -/
def valueOf (symT : α) (c : α) : Bool := decide (c = symT)

/-- no occurrence of the two-character text `a + b` -/
def NoPair (a b : α) (l : List α) : Prop := l.IsChain (fun x y => ¬(x = a ∧ y = b))

/-- CPython's `str.isspace()` for a single character (Unicode 15: bidirectional class WS, B, S or
category Zs); compared with CPython over all code points by `pyvc/texts.py: selftest()` -/
def pyWs (c : Char) : Bool :=
  let n := c.toNat
  (9 ≤ n ∧ n ≤ 13) || (28 ≤ n ∧ n ≤ 32) || n = 0x85 || n = 0xA0 || n = 0x1680 ||
  (0x2000 ≤ n ∧ n ≤ 0x200A) || n = 0x2028 || n = 0x2029 || n = 0x202F || n = 0x205F || n = 0x3000

/-! ## strip -/

theorem strip_eq_self (ws : α → Bool) (s : List α)
    (hh : ∀ c ∈ s.head?, ws c = false) (hl : ∀ c ∈ s.getLast?, ws c = false) :
    strip ws s = s := by
  unfold strip
  have h1 : s.dropWhile ws = s := by
    cases s with
    | nil => rfl
    | cons c cs => simp [dropWhile, hh c (by simp)]
  rw [h1, rdropWhile_eq_self_iff]
  intro hne
  have := hl (s.getLast hne) (by simp [getLast?_eq_some_getLast hne])
  simp [this]

/-- a text without leading / trailing whitespace followed by a line end: `strip` removes exactly the line end -/
theorem strip_append_nl (ws : α → Bool) (nl : α) (hnl : ws nl = true) (s : List α)
    (hh : ∀ c ∈ s.head?, ws c = false) (hl : ∀ c ∈ s.getLast?, ws c = false) (hne : s ≠ []) :
    strip ws (s ++ [nl]) = s := by
  unfold strip
  have h1 : (s ++ [nl]).dropWhile ws = s ++ [nl] := by
    cases s with
    | nil => exact absurd rfl hne
    | cons c cs => simp [dropWhile, hh c (by simp)]
  rw [h1, rdropWhile_concat, if_pos hnl]
  have := strip_eq_self ws s hh hl
  unfold strip at this
  have h2 : s.dropWhile ws = s := by
    cases s with
    | nil => rfl
    | cons c cs => simp [dropWhile, hh c (by simp)]
  rwa [h2] at this

/-! ## unlines / join -/

theorem unlines_eq (nl : α) (ls : List (List α)) (h : ls ≠ []) :
    unlines nl ls = [nl].intercalate ls ++ [nl] := by
  induction ls with
  | nil => exact absurd rfl h
  | cons l ls ih =>
    cases ls with
    | nil => simp [unlines]
    | cons l' ls' =>
      have := ih (by simp)
      simp only [unlines, map_cons, flatten_cons] at this ⊢
      rw [this]
      simp [intercalate_cons_cons]

theorem head?_intercalate (nl : α) (l : List α) (ls : List (List α)) (hl : l ≠ []) :
    ([nl].intercalate (l :: ls)).head? = l.head? := by
  cases ls with
  | nil => simp
  | cons l' ls' =>
    rw [intercalate_cons_cons]
    cases l with
    | nil => exact absurd rfl hl
    | cons c cs => simp

theorem getLast?_intercalate (nl : α) (ls : List (List α)) (last : List α)
    (h : ls.getLast? = some last) (hl : last ≠ []) :
    ([nl].intercalate ls).getLast? = last.getLast? := by
  induction ls with
  | nil => simp at h
  | cons l ls ih =>
    cases ls with
    | nil =>
      simp at h
      subst h
      simp
    | cons l' ls' =>
      rw [intercalate_cons_cons]
      have h' : (l' :: ls').getLast? = some last := by simpa [getLast?_cons_cons] using h
      have := ih h'
      have hne : [nl].intercalate (l' :: ls') ≠ [] := by
        intro h0
        rw [h0] at this
        cases last with
        | nil => exact hl rfl
        | cons c cs =>
          rw [getLast?_eq_some_getLast (by simp : c :: cs ≠ [])] at this
          exact absurd this (by simp)
      rw [← this]
      rw [show l ++ [nl] ++ [nl].intercalate (l' :: ls') = (l ++ [nl]) ++ [nl].intercalate (l' :: ls') from rfl]
      rw [getLast?_append_of_ne_nil _ hne]

/-! ## split at a two-character separator -/

theorem noPair_of_not_mem (a b : α) (l : List α) (h : a ∉ l) : NoPair a b l := by
  unfold NoPair
  apply Pairwise.isChain
  apply pairwise_of_forall_mem_list
  intro x hx y _ hxy
  exact h (hxy.1 ▸ hx)

theorem split2_noPair (a b : α) : ∀ p : List α, NoPair a b p → split2 a b p = [p]
  | [], _ => rfl
  | [c], _ => rfl
  | c :: d :: cs, h => by
    unfold NoPair at h
    rw [isChain_cons_cons] at h
    have ih := split2_noPair a b (d :: cs) h.2
    rw [split2, if_neg h.1, ih]
    rfl

/-- a piece without the separator that does not end with the first separator character, then the
separator: the piece is cut off and the split continues behind the separator -/
theorem split2_append_sep (a b : α) (rest : List α) :
    ∀ p : List α, NoPair a b p → (∀ c ∈ p.getLast?, c ≠ a) →
      split2 a b (p ++ a :: b :: rest) = p :: split2 a b rest
  | [], _, _ => by simp [split2]
  | [c], _, hl => by
    have hc : c ≠ a := hl c (by simp)
    have : ¬(c = a ∧ a = b) := fun h => hc h.1
    simp [split2, this]
  | c :: d :: cs, h, hl => by
    unfold NoPair at h
    rw [isChain_cons_cons] at h
    have hl' : ∀ x ∈ (d :: cs).getLast?, x ≠ a := by
      intro x hx
      exact hl x (by simpa [getLast?_cons_cons] using hx)
    have ih := split2_append_sep a b rest (d :: cs) h.2 hl'
    rw [show c :: d :: cs ++ a :: b :: rest = c :: d :: (cs ++ a :: b :: rest) from rfl, split2,
      if_neg h.1]
    rw [show d :: (cs ++ a :: b :: rest) = d :: cs ++ a :: b :: rest from rfl, ih]
    rfl

/-- `(a+b).join(ps).split(a+b) == ps` for a non-empty list of pieces none of which contains `a+b`,
and none but the last of which ends with `a` -/
theorem split2_intercalate (a b : α) :
    ∀ ps : List (List α), ps ≠ [] → (∀ p ∈ ps, NoPair a b p) →
      (∀ p ∈ ps.dropLast, ∀ c ∈ p.getLast?, c ≠ a) →
      split2 a b ([a, b].intercalate ps) = ps
  | [], h, _, _ => absurd rfl h
  | [p], _, hp, _ => by simpa using split2_noPair a b p (hp p (by simp))
  | p :: q :: ps, _, hp, hl => by
    rw [intercalate_cons_cons]
    have ih := split2_intercalate a b (q :: ps) (by simp)
      (fun x hx => hp x (by simp [hx])) (fun x hx => hl x (by simp [dropLast_cons_cons, hx]))
    rw [show p ++ [a, b] ++ [a, b].intercalate (q :: ps) = p ++ a :: b :: [a, b].intercalate (q :: ps)
      by simp]
    rw [split2_append_sep a b _ p (hp p (by simp)) (hl p (by simp [dropLast_cons_cons])), ih]

/-- a text of non-empty lines without `nl`, joined by `nl`, has no empty line, i.e. no `nl + nl` -/
theorem noPair_intercalate (nl : α) :
    ∀ ls : List (List α), (∀ l ∈ ls, l ≠ [] ∧ nl ∉ l) → NoPair nl nl ([nl].intercalate ls)
  | [], _ => by simp [NoPair]
  | [l], h => by simpa using noPair_of_not_mem nl nl l (h l (by simp)).2
  | l :: l' :: ls, h => by
    rw [intercalate_cons_cons]
    have ih := noPair_intercalate nl (l' :: ls) (fun x hx => h x (by simp [hx]))
    have hl := h l (by simp)
    have hl' := h l' (by simp)
    unfold NoPair at ih ⊢
    rw [append_assoc]
    apply IsChain.append (noPair_of_not_mem nl nl l hl.2)
    · rw [singleton_append, isChain_cons]
      refine ⟨?_, ih⟩
      intro y hy
      rw [head?_intercalate nl l' ls hl'.1] at hy
      intro hh
      exact hl'.2 (hh.2 ▸ mem_of_mem_head? hy)
    · intro x hx y _ hxy
      exact hl.2 (hxy.1 ▸ mem_of_mem_getLast? hx)

/-! ## split at whitespace -/

/-- `(N + nl + M).split() == [N, M]` for two non-empty texts without whitespace and a whitespace character `nl` -/
theorem splitWs_pair (ws : α → Bool) (nl : α) (hnl : ws nl = true) (N M : List α)
    (hN : N ≠ [] ∧ ∀ c ∈ N, ws c = false) (hM : M ≠ [] ∧ ∀ c ∈ M, ws c = false) :
    splitWs ws (N ++ nl :: M) = [N, M] := by
  unfold splitWs
  rw [splitOnP_append_cons_of_forall_mem hN.2 nl hnl, splitOnP_eq_singleton hM.2]
  have h1 : N.isEmpty = false := by cases N <;> simp_all
  have h2 : M.isEmpty = false := by cases M <;> simp_all
  simp [filter, h1, h2]

/-! ## decimal numbers -/

theorem intOf_dec (n : Nat) : intOf (dec n) = n :=
  Nat.ofDigitChars_toDigits (by decide) (by decide)

theorem dec_ne_nil (n : Nat) : dec n ≠ [] := Nat.toDigits_ne_nil

theorem dec_isDigit (n : Nat) (c : Char) (h : c ∈ dec n) : c.isDigit = true :=
  Nat.isDigit_of_mem_toDigits (by decide) (by decide) h

theorem pyWs_of_isDigit (c : Char) (h : c.isDigit = true) : pyWs c = false := by
  simp only [Char.isDigit, Bool.and_eq_true, decide_eq_true_eq] at h
  have h1 : 48 ≤ c.toNat := by
    have := h.1
    simpa [UInt32.le_iff_toNat_le] using this
  have h2 : c.toNat ≤ 57 := by
    have := h.2
    simpa [UInt32.le_iff_toNat_le] using this
  simp only [pyWs]
  generalize c.toNat = k at h1 h2
  have : k = 48 ∨ k = 49 ∨ k = 50 ∨ k = 51 ∨ k = 52 ∨ k = 53 ∨ k = 54 ∨ k = 55 ∨ k = 56 ∨ k = 57 := by omega
  rcases this with h | h | h | h | h | h | h | h | h | h <;> subst h <;> decide

theorem dec_not_ws (n : Nat) : ∀ c ∈ dec n, pyWs c = false :=
  fun c h => pyWs_of_isDigit c (dec_isDigit n c h)

theorem pyWs_nl : pyWs '\n' = true := by decide

theorem pyWs_cr : pyWs '\r' = true := by decide

/-- a text without whitespace characters does not start or end with one, and contains no whitespace character `nl`, `cr` -/
theorem nows_facts (ws : α → Bool) (nl cr : α) (hnl : ws nl = true) (hcr : ws cr = true) (x : List α)
    (h : ∀ c ∈ x, ws c = false) :
    (∀ c ∈ x.head?, ws c = false) ∧ (∀ c ∈ x.getLast?, ws c = false) ∧ nl ∉ x ∧ cr ∉ x := by
  refine ⟨fun c hc => h c (mem_of_mem_head? hc), fun c hc => h c (mem_of_mem_getLast? hc), ?_, ?_⟩
  · intro hm
    have := h nl hm
    rw [hnl] at this
    exact Bool.noConfusion this
  · intro hm
    have := h cr hm
    rw [hcr] at this
    exact Bool.noConfusion this

/-! ## rows of cell symbols -/

theorem intercalate_nil_left : ∀ xs : List (List α), ([] : List α).intercalate xs = xs.flatten
  | [] => by simp
  | [x] => by simp
  | x :: y :: ys => by
    rw [intercalate_cons_cons, intercalate_nil_left (y :: ys)]
    simp

theorem rowText_eq (symT symF : α) (row : List Bool) :
    rowText symT symF row = row.map (fun v => if v then symT else symF) := by
  unfold rowText
  rw [intercalate_nil_left]
  induction row with
  | nil => rfl
  | cons v vs ih => simp_all

theorem length_rowText (symT symF : α) (row : List Bool) :
    (rowText symT symF row).length = row.length := by
  simp [rowText_eq]

theorem mem_rowText (symT symF : α) (row : List Bool) (c : α) (h : c ∈ rowText symT symF row) :
    c = symT ∨ c = symF := by
  rw [rowText_eq, mem_map] at h
  obtain ⟨v, _, hv⟩ := h
  cases v <;> simp_all

/-- the characters of a row text, looked up in `values`, are the cells of the row -/
theorem values_rowText (symT symF : α) (hne : symT ≠ symF) (row : List Bool) :
    (rowText symT symF row).map (valueOf symT) = row := by
  rw [rowText_eq, map_map]
  conv => rhs; rw [← map_id row]
  apply map_congr_left
  intro v _
  cases v
  · simp [valueOf, Ne.symm hne]
  · simp [valueOf]

/-- index form of `values_rowText` -/
theorem values_rowText_getElem (symT symF : α) (hne : symT ≠ symF) (row : List Bool) (i : Nat)
    (h : i < row.length) :
    valueOf symT ((rowText symT symF row)[i]'(by rw [length_rowText]; exact h)) = row[i] := by
  have := values_rowText symT symF hne row
  have h2 := congrArg (fun l => l[i]?) this
  simp only [getElem?_map] at h2
  rw [getElem?_eq_getElem (by rw [length_rowText]; exact h), getElem?_eq_getElem h] at h2
  simpa using h2

/-- the same for any lookup table `val` that inverts the two symbols (`values[symT] = True`, `values[symF] = False`); with
`mem_rowText` every character looked up is one of the two keys -/
theorem values_rowText_any (symT symF : α) (val : α → Bool) (hT : val symT = true) (hF : val symF = false)
    (row : List Bool) (i : Nat) (h : i < row.length) :
    val ((rowText symT symF row)[i]'(by rw [length_rowText]; exact h)) = row[i] := by
  have h1 : (rowText symT symF row).map val = row := by
    rw [rowText_eq, map_map]
    conv => rhs; rw [← map_id row]
    apply map_congr_left
    intro v _
    cases v <;> simp [hT, hF]
  have h2 := congrArg (fun l => l[i]?) h1
  simp only [getElem?_map] at h2
  rw [getElem?_eq_getElem (by rw [length_rowText]; exact h), getElem?_eq_getElem h] at h2
  simpa using h2

/-- a non-empty row text of symbols that are not whitespace and not the line end: nothing to strip, no line end inside -/
theorem rowText_facts (ws : α → Bool) (nl symT symF : α) (hT : ws symT = false) (hF : ws symF = false)
    (hTn : symT ≠ nl) (hFn : symF ≠ nl) (row : List Bool) :
    (∀ c ∈ rowText symT symF row, ws c = false) ∧ nl ∉ rowText symT symF row ∧
    (row ≠ [] → rowText symT symF row ≠ []) := by
  refine ⟨?_, ?_, ?_⟩
  · intro c hc
    rcases mem_rowText symT symF row c hc with h | h <;> simp [h, hT, hF]
  · intro hc
    rcases mem_rowText symT symF row nl hc with h | h
    · exact hTn h.symm
    · exact hFn h.symm
  · intro h h0
    have := length_rowText symT symF row
    rw [h0] at this
    exact h (length_eq_zero_iff.mp this.symm)

/-! ## the text of a cxt file -/

/-- The text written line by line (header `B`, empty line, the two numbers, empty line, the table lines), stripped and split
at the empty lines, has exactly three parts: `B`, the two numbers on two lines, the table block. -/
theorem cxt_source_parts (ws : α → Bool) (nl : α) (hnl : ws nl = true) (B N M : List α)
    (tbl : List (List α))
    (hB : B ≠ [] ∧ ∀ c ∈ B, ws c = false) (hN : N ≠ [] ∧ ∀ c ∈ N, ws c = false)
    (hM : M ≠ [] ∧ ∀ c ∈ M, ws c = false)
    (htbl : tbl ≠ []) (hlines : ∀ l ∈ tbl, l ≠ [] ∧ nl ∉ l)
    (hlast : ∀ last ∈ tbl.getLast?, ∀ c ∈ last.getLast?, ws c = false) :
    split2 nl nl (strip ws (unlines nl ([B, [], N, M, []] ++ tbl))) =
      [B, N ++ nl :: M, [nl].intercalate tbl] := by
  have nomem : ∀ s : List α, (∀ c ∈ s, ws c = false) → nl ∉ s := by
    intro s hs h
    have := hs nl h
    rw [hnl] at this
    exact Bool.noConfusion this
  obtain ⟨last, hlast'⟩ : ∃ last, tbl.getLast? = some last := by
    cases h : tbl.getLast? with
    | none => exact absurd (getLast?_eq_none_iff.mp h) htbl
    | some x => exact ⟨x, rfl⟩
  have hlastmem : last ∈ tbl := mem_of_getLast? hlast'
  -- the written text, stripped
  have hall : ([B, [], N, M, []] ++ tbl).getLast? = some last := by
    rw [getLast?_append_of_ne_nil _ htbl]; exact hlast'
  have hstrip : strip ws (unlines nl ([B, [], N, M, []] ++ tbl)) =
      [nl].intercalate ([B, [], N, M, []] ++ tbl) := by
    rw [unlines_eq nl _ (by simp)]
    apply strip_append_nl ws nl hnl
    · intro c hc
      rw [show [B, [], N, M, []] ++ tbl = B :: ([[], N, M, []] ++ tbl) from rfl,
        head?_intercalate nl B _ hB.1] at hc
      exact hB.2 c (mem_of_mem_head? hc)
    · intro c hc
      rw [getLast?_intercalate nl _ last hall (hlines last hlastmem).1] at hc
      exact hlast last hlast' c hc
    · intro h0
      have := head?_intercalate nl B ([[], N, M, []] ++ tbl) hB.1
      rw [show B :: ([[], N, M, []] ++ tbl) = [B, [], N, M, []] ++ tbl from rfl, h0] at this
      cases B with
      | nil => exact hB.1 rfl
      | cons c cs => simp at this
  rw [hstrip]
  -- its shape
  obtain ⟨t, ts, rfl⟩ := exists_cons_of_ne_nil htbl
  have hshape : [nl].intercalate ([B, [], N, M, []] ++ t :: ts) =
      [nl, nl].intercalate [B, N ++ nl :: M, [nl].intercalate (t :: ts)] := by
    simp [intercalate_cons_cons]
  rw [hshape]
  apply split2_intercalate nl nl _ (by simp)
  · intro p hp
    simp only [mem_cons, not_mem_nil, or_false] at hp
    rcases hp with rfl | rfl | rfl
    · exact noPair_of_not_mem nl nl _ (nomem _ hB.2)
    · unfold NoPair
      apply IsChain.append (noPair_of_not_mem nl nl N (nomem _ hN.2))
      · rw [isChain_cons]
        refine ⟨?_, noPair_of_not_mem nl nl M (nomem _ hM.2)⟩
        intro y hy hh
        exact nomem _ hM.2 (hh.2 ▸ mem_of_mem_head? hy)
      · intro x hx y _ hxy
        exact nomem _ hN.2 (hxy.1 ▸ mem_of_mem_getLast? hx)
    · exact noPair_intercalate nl _ hlines
  · intro p hp c hc hcn
    simp only [dropLast_cons_cons, dropLast_singleton, mem_cons, not_mem_nil, or_false] at hp
    rcases hp with rfl | rfl
    · exact nomem _ hB.2 (hcn ▸ mem_of_mem_getLast? hc)
    · rw [getLast?_append_of_ne_nil _ (by simp)] at hc
      obtain ⟨m, ms, rfl⟩ := exists_cons_of_ne_nil hM.1
      rw [getLast?_cons_cons] at hc
      exact nomem _ hM.2 (hcn ▸ mem_of_mem_getLast? hc)

/-- split-join: `'\n'.join(ls).split('\n') == ls` for a NON-EMPTY list of lines none of which contains the line end (empty lines are
fine).  This is core's `List.splitOn_intercalate`, restated. -/
theorem split_join (nl : α) (ls : List (List α)) (hne : ls ≠ []) (h : ∀ l ∈ ls, nl ∉ l) :
    ([nl].intercalate ls).splitOn nl = ls :=
  splitOn_intercalate nl h hne

/-- ... and for the empty list it is false: `'\n'.join([]).split('\n') == ['']`, one empty line, not no line -/
theorem split_join_nil (nl : α) : ([nl].intercalate ([] : List (List α))).splitOn nl = [[]] := by
  simp

/-- The table block (lines joined by `nl`), stripped and split at `nl`, gives back the lines: provided there is a line, no line
is empty or contains `nl`, the first one does not start and the last one does not end with whitespace.
(`''.split('\n') == ['']`, not `[]`: `tbl ≠ []` is needed.) -/
theorem table_lines (ws : α → Bool) (nl : α) (tbl : List (List α))
    (htbl : tbl ≠ []) (hlines : ∀ l ∈ tbl, l ≠ [] ∧ nl ∉ l)
    (hfirst : ∀ first ∈ tbl.head?, ∀ c ∈ first.head?, ws c = false)
    (hlast : ∀ last ∈ tbl.getLast?, ∀ c ∈ last.getLast?, ws c = false) :
    (strip ws ([nl].intercalate tbl)).splitOn nl = tbl := by
  obtain ⟨last, hlast'⟩ : ∃ last, tbl.getLast? = some last := by
    cases h : tbl.getLast? with
    | none => exact absurd (getLast?_eq_none_iff.mp h) htbl
    | some x => exact ⟨x, rfl⟩
  have hs : strip ws ([nl].intercalate tbl) = [nl].intercalate tbl := by
    apply strip_eq_self
    · intro c hc
      obtain ⟨t, ts, rfl⟩ := exists_cons_of_ne_nil htbl
      rw [head?_intercalate nl t ts (hlines t (by simp)).1] at hc
      exact hfirst t (by simp) c hc
    · intro c hc
      rw [getLast?_intercalate nl tbl last hlast' (hlines last (mem_of_getLast? hlast')).1] at hc
      exact hlast last hlast' c hc
  rw [hs]
  exact splitOn_intercalate nl (fun l hl => (hlines l hl).2) htbl

/-! ## the whole loader on the whole written text (a cross-check of the lemma set: the model of `Cxt.loadf` below is NOT what
the unit `lemma.cxt.roundtrip` uses -- that one composes the lemmas above with the contracts proved of the real code) -/

/-- the lines `iter_cxt_lines` yields -/
def cxtLines (symT symF : Char) (objs props : List (List Char)) (bools : List (List Bool)) :
    List (List Char) :=
  [['B'], [], dec objs.length, dec props.length, []] ++ (objs ++ props ++ bools.map (rowText symT symF))

/-- `Cxt.loadf` on the text of the file -/
def loadCxt (ws : Char → Bool) (symT : Char) (src : List Char) :
    Option (List (List Char) × List (List Char) × List (List Bool)) :=
  match split2 '\n' '\n' (strip ws src) with
  | [_, yx, table] =>
    match splitWs ws yx with
    | [ys, xs] =>
      let y := intOf ys
      let x := intOf xs
      let lines := ((strip ws table).splitOn '\n').map (strip ws)
      some (lines.take y, (lines.drop y).take x, (lines.drop (y + x)).map (·.map (valueOf symT)))
    | _ => none
  | _ => none

/-- a label the format can represent: not empty, no line end inside, no whitespace at either end -/
def Label (ws : Char → Bool) (l : List Char) : Prop :=
  l ≠ [] ∧ '\n' ∉ l ∧ (∀ c ∈ l.head?, ws c = false) ∧ (∀ c ∈ l.getLast?, ws c = false)

theorem cxt_roundtrip (symT symF : Char) (hne : symT ≠ symF)
    (hT : pyWs symT = false) (hF : pyWs symF = false)
    (objs props : List (List Char)) (bools : List (List Bool))
    (hn : objs ≠ []) (hm : props ≠ []) (hlen : bools.length = objs.length)
    (hrow : ∀ r ∈ bools, r.length = props.length)
    (hobj : ∀ l ∈ objs, Label pyWs l) (hprop : ∀ l ∈ props, Label pyWs l) :
    loadCxt pyWs symT (unlines '\n' (cxtLines symT symF objs props bools)) = some (objs, props, bools) := by
  have hTn : symT ≠ '\n' := by rintro rfl; simp [pyWs_nl] at hT
  have hFn : symF ≠ '\n' := by rintro rfl; simp [pyWs_nl] at hF
  have hbne : bools ≠ [] := by
    intro h; rw [h] at hlen; exact hn (length_eq_zero_iff.mp hlen.symm)
  have hrowne : ∀ r ∈ bools, r ≠ [] := by
    intro r hr h
    have := hrow r hr
    rw [h] at this
    exact hm (length_eq_zero_iff.mp this.symm)
  set rows := bools.map (rowText symT symF) with hrows
  have hrowfacts : ∀ l ∈ rows, (∀ c ∈ l, pyWs c = false) ∧ '\n' ∉ l ∧ l ≠ [] := by
    intro l hl
    rw [hrows, mem_map] at hl
    obtain ⟨r, hr, rfl⟩ := hl
    have := rowText_facts pyWs '\n' symT symF hT hF hTn hFn r
    exact ⟨this.1, this.2.1, this.2.2 (hrowne r hr)⟩
  have hrowlabel : ∀ l ∈ rows, Label pyWs l := by
    intro l hl
    obtain ⟨h1, h2, h3⟩ := hrowfacts l hl
    exact ⟨h3, h2, fun c hc => h1 c (mem_of_mem_head? hc), fun c hc => h1 c (mem_of_mem_getLast? hc)⟩
  set tbl := objs ++ props ++ rows with htbl
  have hall : ∀ l ∈ tbl, Label pyWs l := by
    intro l hl
    rw [htbl, mem_append, mem_append] at hl
    rcases hl with (h | h) | h
    · exact hobj l h
    · exact hprop l h
    · exact hrowlabel l h
  have htne : tbl ≠ [] := by
    rw [htbl]; intro h
    exact hn (append_eq_nil_iff.mp (append_eq_nil_iff.mp h).1).1
  have hlines : ∀ l ∈ tbl, l ≠ [] ∧ '\n' ∉ l := fun l hl => ⟨(hall l hl).1, (hall l hl).2.1⟩
  have hfirst : ∀ first ∈ tbl.head?, ∀ c ∈ first.head?, pyWs c = false :=
    fun f hf => (hall f (mem_of_mem_head? hf)).2.2.1
  have hlast : ∀ last ∈ tbl.getLast?, ∀ c ∈ last.getLast?, pyWs c = false :=
    fun f hf => (hall f (mem_of_mem_getLast? hf)).2.2.2
  have hparts := cxt_source_parts pyWs '\n' pyWs_nl ['B'] (dec objs.length) (dec props.length) tbl
    ⟨by simp, by decide⟩ ⟨dec_ne_nil _, dec_not_ws _⟩ ⟨dec_ne_nil _, dec_not_ws _⟩ htne hlines hlast
  have hnums := splitWs_pair pyWs '\n' pyWs_nl (dec objs.length) (dec props.length)
    ⟨dec_ne_nil _, dec_not_ws _⟩ ⟨dec_ne_nil _, dec_not_ws _⟩
  have htab := table_lines pyWs '\n' tbl htne hlines hfirst hlast
  have hstrip : tbl.map (strip pyWs) = tbl := by
    conv => rhs; rw [← map_id tbl]
    apply map_congr_left
    intro l hl
    exact strip_eq_self pyWs l (hall l hl).2.2.1 (hall l hl).2.2.2
  have hvals : rows.map (·.map (valueOf symT)) = bools := by
    rw [hrows, map_map]
    conv => rhs; rw [← map_id bools]
    apply map_congr_left
    intro r _
    exact values_rowText symT symF hne r
  unfold loadCxt cxtLines
  rw [hparts]
  simp only [hnums, intOf_dec, htab, hstrip]
  rw [htbl, append_assoc, take_left', drop_left', take_left', ← append_assoc, drop_left', hvals]
  · simp
  · rfl
  · rfl
  · rfl

#print axioms cxt_source_parts
#print axioms splitWs_pair
#print axioms table_lines
#print axioms split_join
#print axioms intOf_dec
#print axioms values_rowText_getElem
#print axioms values_rowText_any
#print axioms rowText_facts
#print axioms strip_eq_self
#print axioms nows_facts
#print axioms dec_not_ws
#print axioms mem_rowText
#print axioms length_rowText
#print axioms cxt_roundtrip

end Text
