import Mathlib.Data.List.Chain
import Mathlib.Data.List.DropRight
import Mathlib.Data.List.Basic
import Mathlib.Tactic

/-!
# Texts as lists of characters (TEXT theory of `pyvc/texts.py`, units `lemma.cxt.roundtrip`,
`lemma.table.roundtrip`, `lemma.fimi.roundtrip` and the `.written` / `.chars` units)

A Python `str` is modelled by the list of its characters (code points).  The functions below are the
MODEL of the CPython string functions that `concepts/formats/cxt.py`, `table.py` and `fimi.py` use
(the table / FIMI part has its own section and dictionary further down); that CPython's functions
agree with them is an ASSUMED library contract, validated on an enumerated scope by
`pyvc/texts.py: selftest()` (which also runs the definitions of this file with `#eval` and compares
the results with CPython, `selftest_lean()`).

Dictionary (Python on the left):

* `s + t`                  `s ++ t`
* `sep.join(ls)`           `sep.intercalate ls` (Lean: `List.intercalate sep ls`)
* `s.split(c)`, one char   `s.splitOn c` (core)
* `s.split(a + b)`         `split2 a b s` (leftmost, non-overlapping occurrences of the two-character separator)
* `s.split()`              `splitWs ws s`: the non-empty pieces between whitespace characters
* `s.strip()`              `strip ws s`
* `c.isspace()`            `ws c`; the CPython table is `pyWs`
* `f'{n:d}'`, `n >= 0`     `dec n`
* `int(s)`, ASCII digits   `intOf s`
* `for l in ls: print(l, file=f)` writes `unlines ls`
* `''.join(symbols[v] for v in row)`   `rowText symT symF row`
* `[values[c] for c in text]` with `values = {symF: False, symT: True}`   `text.map (valueOf symT)`
-/

open List

set_option autoImplicit false
set_option linter.unusedSectionVars false
set_option linter.unusedSimpArgs false

namespace Text

variable {α : Type} [DecidableEq α]

/-! ## Definitions -/

/-- `s.strip()` -/
def strip (ws : α → Bool) (s : List α) : List α := (s.dropWhile ws).rdropWhile ws

/-- `s.split()` (no argument): the maximal runs of non-whitespace characters -/
def splitWs (ws : α → Bool) (s : List α) : List (List α) :=
  (s.splitOnP ws).filter (fun p => !p.isEmpty)

/-- `s.split(sep)` for a separator `sep = a + b` of two characters: cut at the leftmost occurrence,
continue behind it -/
def split2 (a b : α) : List α → List (List α)
  | [] => [[]]
  | [c] => [[c]]
  | c :: d :: cs =>
    if c = a ∧ d = b then [] :: split2 a b cs
    else (split2 a b (d :: cs)).modifyHead (List.cons c)

/-- what `for l in ls: print(l, file=f)` writes: every line followed by the line end -/
def unlines (nl : α) (ls : List (List α)) : List α := (ls.map (· ++ [nl])).flatten

/-- `f'{n:d}'` for a natural number -/
def dec (n : Nat) : List Char := Nat.toDigits 10 n

/-- `int(s)` for a text of ASCII digits -/
def intOf (s : List Char) : Nat := Nat.ofDigitChars 10 s 0

/-- `''.join(symbols[v] for v in row)` with `symbols = {False: symF, True: symT}` (one character each) -/
def rowText (symT symF : α) (row : List Bool) : List α :=
  ([] : List α).intercalate (row.map fun v => [if v then symT else symF])

/-- `values[c]` with `values = {s: b for b, s in symbols.items()}` on the characters `symT`, `symF` -/
def valueOf (symT : α) (c : α) : Bool := decide (c = symT)

/-- no occurrence of the two-character text `a + b` -/
def NoPair (a b : α) (l : List α) : Prop := l.IsChain (fun x y => ¬(x = a ∧ y = b))

/-- CPython's `str.isspace()` for a single character (Unicode 15: bidirectional class WS, B, S or
category Zs); compared with CPython over all code points by `pyvc/texts.py: selftest()` -/
def pyWs (c : Char) : Bool :=
  let n := c.toNat
  (9 ≤ n ∧ n ≤ 13) || (28 ≤ n ∧ n ≤ 32) || n = 0x85 || n = 0xA0 || n = 0x1680 ||
  (0x2000 ≤ n ∧ n ≤ 0x200A) || n = 0x2028 || n = 0x2029 || n = 0x202F || n = 0x205F || n = 0x3000

/-! ## strip -/

theorem strip_eq_self (ws : α → Bool) (s : List α)
    (hh : ∀ c ∈ s.head?, ws c = false) (hl : ∀ c ∈ s.getLast?, ws c = false) :
    strip ws s = s := by
  unfold strip
  have h1 : s.dropWhile ws = s := by
    cases s with
    | nil => rfl
    | cons c cs => simp [dropWhile, hh c (by simp)]
  rw [h1, rdropWhile_eq_self_iff]
  intro hne
  have := hl (s.getLast hne) (by simp [getLast?_eq_some_getLast hne])
  simp [this]

/-- a text without leading / trailing whitespace followed by a line end: `strip` removes exactly the line end -/
theorem strip_append_nl (ws : α → Bool) (nl : α) (hnl : ws nl = true) (s : List α)
    (hh : ∀ c ∈ s.head?, ws c = false) (hl : ∀ c ∈ s.getLast?, ws c = false) (hne : s ≠ []) :
    strip ws (s ++ [nl]) = s := by
  unfold strip
  have h1 : (s ++ [nl]).dropWhile ws = s ++ [nl] := by
    cases s with
    | nil => exact absurd rfl hne
    | cons c cs => simp [dropWhile, hh c (by simp)]
  rw [h1, rdropWhile_concat, if_pos hnl]
  have := strip_eq_self ws s hh hl
  unfold strip at this
  have h2 : s.dropWhile ws = s := by
    cases s with
    | nil => rfl
    | cons c cs => simp [dropWhile, hh c (by simp)]
  rwa [h2] at this

/-! ## unlines / join -/

theorem unlines_eq (nl : α) (ls : List (List α)) (h : ls ≠ []) :
    unlines nl ls = [nl].intercalate ls ++ [nl] := by
  induction ls with
  | nil => exact absurd rfl h
  | cons l ls ih =>
    cases ls with
    | nil => simp [unlines]
    | cons l' ls' =>
      have := ih (by simp)
      simp only [unlines, map_cons, flatten_cons] at this ⊢
      rw [this]
      simp [intercalate_cons_cons]

theorem head?_intercalate (nl : α) (l : List α) (ls : List (List α)) (hl : l ≠ []) :
    ([nl].intercalate (l :: ls)).head? = l.head? := by
  cases ls with
  | nil => simp
  | cons l' ls' =>
    rw [intercalate_cons_cons]
    cases l with
    | nil => exact absurd rfl hl
    | cons c cs => simp

theorem getLast?_intercalate (nl : α) (ls : List (List α)) (last : List α)
    (h : ls.getLast? = some last) (hl : last ≠ []) :
    ([nl].intercalate ls).getLast? = last.getLast? := by
  induction ls with
  | nil => simp at h
  | cons l ls ih =>
    cases ls with
    | nil =>
      simp at h
      subst h
      simp
    | cons l' ls' =>
      rw [intercalate_cons_cons]
      have h' : (l' :: ls').getLast? = some last := by simpa [getLast?_cons_cons] using h
      have := ih h'
      have hne : [nl].intercalate (l' :: ls') ≠ [] := by
        intro h0
        rw [h0] at this
        cases last with
        | nil => exact hl rfl
        | cons c cs =>
          rw [getLast?_eq_some_getLast (by simp : c :: cs ≠ [])] at this
          exact absurd this (by simp)
      rw [← this]
      rw [show l ++ [nl] ++ [nl].intercalate (l' :: ls') = (l ++ [nl]) ++ [nl].intercalate (l' :: ls') from rfl]
      rw [getLast?_append_of_ne_nil _ hne]

/-! ## split at a two-character separator -/

theorem noPair_of_not_mem (a b : α) (l : List α) (h : a ∉ l) : NoPair a b l := by
  unfold NoPair
  apply Pairwise.isChain
  apply pairwise_of_forall_mem_list
  intro x hx y _ hxy
  exact h (hxy.1 ▸ hx)

theorem split2_noPair (a b : α) : ∀ p : List α, NoPair a b p → split2 a b p = [p]
  | [], _ => rfl
  | [c], _ => rfl
  | c :: d :: cs, h => by
    unfold NoPair at h
    rw [isChain_cons_cons] at h
    have ih := split2_noPair a b (d :: cs) h.2
    rw [split2, if_neg h.1, ih]
    rfl

/-- a piece without the separator that does not end with the first separator character, then the
separator: the piece is cut off and the split continues behind the separator -/
theorem split2_append_sep (a b : α) (rest : List α) :
    ∀ p : List α, NoPair a b p → (∀ c ∈ p.getLast?, c ≠ a) →
      split2 a b (p ++ a :: b :: rest) = p :: split2 a b rest
  | [], _, _ => by simp [split2]
  | [c], _, hl => by
    have hc : c ≠ a := hl c (by simp)
    have : ¬(c = a ∧ a = b) := fun h => hc h.1
    simp [split2, this]
  | c :: d :: cs, h, hl => by
    unfold NoPair at h
    rw [isChain_cons_cons] at h
    have hl' : ∀ x ∈ (d :: cs).getLast?, x ≠ a := by
      intro x hx
      exact hl x (by simpa [getLast?_cons_cons] using hx)
    have ih := split2_append_sep a b rest (d :: cs) h.2 hl'
    rw [show c :: d :: cs ++ a :: b :: rest = c :: d :: (cs ++ a :: b :: rest) from rfl, split2,
      if_neg h.1]
    rw [show d :: (cs ++ a :: b :: rest) = d :: cs ++ a :: b :: rest from rfl, ih]
    rfl

/-- `(a+b).join(ps).split(a+b) == ps` for a non-empty list of pieces none of which contains `a+b`,
and none but the last of which ends with `a` -/
theorem split2_intercalate (a b : α) :
    ∀ ps : List (List α), ps ≠ [] → (∀ p ∈ ps, NoPair a b p) →
      (∀ p ∈ ps.dropLast, ∀ c ∈ p.getLast?, c ≠ a) →
      split2 a b ([a, b].intercalate ps) = ps
  | [], h, _, _ => absurd rfl h
  | [p], _, hp, _ => by simpa using split2_noPair a b p (hp p (by simp))
  | p :: q :: ps, _, hp, hl => by
    rw [intercalate_cons_cons]
    have ih := split2_intercalate a b (q :: ps) (by simp)
      (fun x hx => hp x (by simp [hx])) (fun x hx => hl x (by simp [dropLast_cons_cons, hx]))
    rw [show p ++ [a, b] ++ [a, b].intercalate (q :: ps) = p ++ a :: b :: [a, b].intercalate (q :: ps)
      by simp]
    rw [split2_append_sep a b _ p (hp p (by simp)) (hl p (by simp [dropLast_cons_cons])), ih]

/-- a text of non-empty lines without `nl`, joined by `nl`, has no empty line, i.e. no `nl + nl` -/
theorem noPair_intercalate (nl : α) :
    ∀ ls : List (List α), (∀ l ∈ ls, l ≠ [] ∧ nl ∉ l) → NoPair nl nl ([nl].intercalate ls)
  | [], _ => by simp [NoPair]
  | [l], h => by simpa using noPair_of_not_mem nl nl l (h l (by simp)).2
  | l :: l' :: ls, h => by
    rw [intercalate_cons_cons]
    have ih := noPair_intercalate nl (l' :: ls) (fun x hx => h x (by simp [hx]))
    have hl := h l (by simp)
    have hl' := h l' (by simp)
    unfold NoPair at ih ⊢
    rw [append_assoc]
    apply IsChain.append (noPair_of_not_mem nl nl l hl.2)
    · rw [singleton_append, isChain_cons]
      refine ⟨?_, ih⟩
      intro y hy
      rw [head?_intercalate nl l' ls hl'.1] at hy
      intro hh
      exact hl'.2 (hh.2 ▸ mem_of_mem_head? hy)
    · intro x hx y _ hxy
      exact hl.2 (hxy.1 ▸ mem_of_mem_getLast? hx)

/-! ## split at whitespace -/

/-- `(N + nl + M).split() == [N, M]` for two non-empty texts without whitespace and a whitespace character `nl` -/
theorem splitWs_pair (ws : α → Bool) (nl : α) (hnl : ws nl = true) (N M : List α)
    (hN : N ≠ [] ∧ ∀ c ∈ N, ws c = false) (hM : M ≠ [] ∧ ∀ c ∈ M, ws c = false) :
    splitWs ws (N ++ nl :: M) = [N, M] := by
  unfold splitWs
  rw [splitOnP_append_cons_of_forall_mem hN.2 nl hnl, splitOnP_eq_singleton hM.2]
  have h1 : N.isEmpty = false := by cases N <;> simp_all
  have h2 : M.isEmpty = false := by cases M <;> simp_all
  simp [filter, h1, h2]

/-! ## decimal numbers -/

theorem intOf_dec (n : Nat) : intOf (dec n) = n :=
  Nat.ofDigitChars_toDigits (by decide) (by decide)

theorem dec_ne_nil (n : Nat) : dec n ≠ [] := Nat.toDigits_ne_nil

theorem dec_isDigit (n : Nat) (c : Char) (h : c ∈ dec n) : c.isDigit = true :=
  Nat.isDigit_of_mem_toDigits (by decide) (by decide) h

theorem pyWs_of_isDigit (c : Char) (h : c.isDigit = true) : pyWs c = false := by
  simp only [Char.isDigit, Bool.and_eq_true, decide_eq_true_eq] at h
  have h1 : 48 ≤ c.toNat := by
    have := h.1
    simpa [UInt32.le_iff_toNat_le] using this
  have h2 : c.toNat ≤ 57 := by
    have := h.2
    simpa [UInt32.le_iff_toNat_le] using this
  simp only [pyWs]
  generalize c.toNat = k at h1 h2
  have : k = 48 ∨ k = 49 ∨ k = 50 ∨ k = 51 ∨ k = 52 ∨ k = 53 ∨ k = 54 ∨ k = 55 ∨ k = 56 ∨ k = 57 := by omega
  rcases this with h | h | h | h | h | h | h | h | h | h <;> subst h <;> decide

theorem dec_not_ws (n : Nat) : ∀ c ∈ dec n, pyWs c = false :=
  fun c h => pyWs_of_isDigit c (dec_isDigit n c h)

theorem pyWs_nl : pyWs '\n' = true := by decide

theorem pyWs_cr : pyWs '\r' = true := by decide

/-- a text without whitespace characters does not start or end with one, and contains no whitespace character `nl`, `cr` -/
theorem nows_facts (ws : α → Bool) (nl cr : α) (hnl : ws nl = true) (hcr : ws cr = true) (x : List α)
    (h : ∀ c ∈ x, ws c = false) :
    (∀ c ∈ x.head?, ws c = false) ∧ (∀ c ∈ x.getLast?, ws c = false) ∧ nl ∉ x ∧ cr ∉ x := by
  refine ⟨fun c hc => h c (mem_of_mem_head? hc), fun c hc => h c (mem_of_mem_getLast? hc), ?_, ?_⟩
  · intro hm
    have := h nl hm
    rw [hnl] at this
    exact Bool.noConfusion this
  · intro hm
    have := h cr hm
    rw [hcr] at this
    exact Bool.noConfusion this

/-! ## rows of cell symbols -/

theorem intercalate_nil_left : ∀ xs : List (List α), ([] : List α).intercalate xs = xs.flatten
  | [] => by simp
  | [x] => by simp
  | x :: y :: ys => by
    rw [intercalate_cons_cons, intercalate_nil_left (y :: ys)]
    simp

theorem rowText_eq (symT symF : α) (row : List Bool) :
    rowText symT symF row = row.map (fun v => if v then symT else symF) := by
  unfold rowText
  rw [intercalate_nil_left]
  induction row with
  | nil => rfl
  | cons v vs ih => simp_all

theorem length_rowText (symT symF : α) (row : List Bool) :
    (rowText symT symF row).length = row.length := by
  simp [rowText_eq]

theorem mem_rowText (symT symF : α) (row : List Bool) (c : α) (h : c ∈ rowText symT symF row) :
    c = symT ∨ c = symF := by
  rw [rowText_eq, mem_map] at h
  obtain ⟨v, _, hv⟩ := h
  cases v <;> simp_all

/-- the characters of a row text, looked up in `values`, are the cells of the row -/
theorem values_rowText (symT symF : α) (hne : symT ≠ symF) (row : List Bool) :
    (rowText symT symF row).map (valueOf symT) = row := by
  rw [rowText_eq, map_map]
  conv => rhs; rw [← map_id row]
  apply map_congr_left
  intro v _
  cases v
  · simp [valueOf, Ne.symm hne]
  · simp [valueOf]

/-- index form of `values_rowText` -/
theorem values_rowText_getElem (symT symF : α) (hne : symT ≠ symF) (row : List Bool) (i : Nat)
    (h : i < row.length) :
    valueOf symT ((rowText symT symF row)[i]'(by rw [length_rowText]; exact h)) = row[i] := by
  have := values_rowText symT symF hne row
  have h2 := congrArg (fun l => l[i]?) this
  simp only [getElem?_map] at h2
  rw [getElem?_eq_getElem (by rw [length_rowText]; exact h), getElem?_eq_getElem h] at h2
  simpa using h2

/-- the same for any lookup table `val` that inverts the two symbols (`values[symT] = True`, `values[symF] = False`); with
`mem_rowText` every character looked up is one of the two keys -/
theorem values_rowText_any (symT symF : α) (val : α → Bool) (hT : val symT = true) (hF : val symF = false)
    (row : List Bool) (i : Nat) (h : i < row.length) :
    val ((rowText symT symF row)[i]'(by rw [length_rowText]; exact h)) = row[i] := by
  have h1 : (rowText symT symF row).map val = row := by
    rw [rowText_eq, map_map]
    conv => rhs; rw [← map_id row]
    apply map_congr_left
    intro v _
    cases v <;> simp [hT, hF]
  have h2 := congrArg (fun l => l[i]?) h1
  simp only [getElem?_map] at h2
  rw [getElem?_eq_getElem (by rw [length_rowText]; exact h), getElem?_eq_getElem h] at h2
  simpa using h2

/-- a non-empty row text of symbols that are not whitespace and not the line end: nothing to strip, no line end inside -/
theorem rowText_facts (ws : α → Bool) (nl symT symF : α) (hT : ws symT = false) (hF : ws symF = false)
    (hTn : symT ≠ nl) (hFn : symF ≠ nl) (row : List Bool) :
    (∀ c ∈ rowText symT symF row, ws c = false) ∧ nl ∉ rowText symT symF row ∧
    (row ≠ [] → rowText symT symF row ≠ []) := by
  refine ⟨?_, ?_, ?_⟩
  · intro c hc
    rcases mem_rowText symT symF row c hc with h | h <;> simp [h, hT, hF]
  · intro hc
    rcases mem_rowText symT symF row nl hc with h | h
    · exact hTn h.symm
    · exact hFn h.symm
  · intro h h0
    have := length_rowText symT symF row
    rw [h0] at this
    exact h (length_eq_zero_iff.mp this.symm)

/-! ## the text of a cxt file -/

/-- The text written line by line (header `B`, empty line, the two numbers, empty line, the table lines), stripped and split
at the empty lines, has exactly three parts: `B`, the two numbers on two lines, the table block. -/
theorem cxt_source_parts (ws : α → Bool) (nl : α) (hnl : ws nl = true) (B N M : List α)
    (tbl : List (List α))
    (hB : B ≠ [] ∧ ∀ c ∈ B, ws c = false) (hN : N ≠ [] ∧ ∀ c ∈ N, ws c = false)
    (hM : M ≠ [] ∧ ∀ c ∈ M, ws c = false)
    (htbl : tbl ≠ []) (hlines : ∀ l ∈ tbl, l ≠ [] ∧ nl ∉ l)
    (hlast : ∀ last ∈ tbl.getLast?, ∀ c ∈ last.getLast?, ws c = false) :
    split2 nl nl (strip ws (unlines nl ([B, [], N, M, []] ++ tbl))) =
      [B, N ++ nl :: M, [nl].intercalate tbl] := by
  have nomem : ∀ s : List α, (∀ c ∈ s, ws c = false) → nl ∉ s := by
    intro s hs h
    have := hs nl h
    rw [hnl] at this
    exact Bool.noConfusion this
  obtain ⟨last, hlast'⟩ : ∃ last, tbl.getLast? = some last := by
    cases h : tbl.getLast? with
    | none => exact absurd (getLast?_eq_none_iff.mp h) htbl
    | some x => exact ⟨x, rfl⟩
  have hlastmem : last ∈ tbl := mem_of_getLast? hlast'
  -- the written text, stripped
  have hall : ([B, [], N, M, []] ++ tbl).getLast? = some last := by
    rw [getLast?_append_of_ne_nil _ htbl]; exact hlast'
  have hstrip : strip ws (unlines nl ([B, [], N, M, []] ++ tbl)) =
      [nl].intercalate ([B, [], N, M, []] ++ tbl) := by
    rw [unlines_eq nl _ (by simp)]
    apply strip_append_nl ws nl hnl
    · intro c hc
      rw [show [B, [], N, M, []] ++ tbl = B :: ([[], N, M, []] ++ tbl) from rfl,
        head?_intercalate nl B _ hB.1] at hc
      exact hB.2 c (mem_of_mem_head? hc)
    · intro c hc
      rw [getLast?_intercalate nl _ last hall (hlines last hlastmem).1] at hc
      exact hlast last hlast' c hc
    · intro h0
      have := head?_intercalate nl B ([[], N, M, []] ++ tbl) hB.1
      rw [show B :: ([[], N, M, []] ++ tbl) = [B, [], N, M, []] ++ tbl from rfl, h0] at this
      cases B with
      | nil => exact hB.1 rfl
      | cons c cs => simp at this
  rw [hstrip]
  -- its shape
  obtain ⟨t, ts, rfl⟩ := exists_cons_of_ne_nil htbl
  have hshape : [nl].intercalate ([B, [], N, M, []] ++ t :: ts) =
      [nl, nl].intercalate [B, N ++ nl :: M, [nl].intercalate (t :: ts)] := by
    simp [intercalate_cons_cons]
  rw [hshape]
  apply split2_intercalate nl nl _ (by simp)
  · intro p hp
    simp only [mem_cons, not_mem_nil, or_false] at hp
    rcases hp with rfl | rfl | rfl
    · exact noPair_of_not_mem nl nl _ (nomem _ hB.2)
    · unfold NoPair
      apply IsChain.append (noPair_of_not_mem nl nl N (nomem _ hN.2))
      · rw [isChain_cons]
        refine ⟨?_, noPair_of_not_mem nl nl M (nomem _ hM.2)⟩
        intro y hy hh
        exact nomem _ hM.2 (hh.2 ▸ mem_of_mem_head? hy)
      · intro x hx y _ hxy
        exact nomem _ hN.2 (hxy.1 ▸ mem_of_mem_getLast? hx)
    · exact noPair_intercalate nl _ hlines
  · intro p hp c hc hcn
    simp only [dropLast_cons_cons, dropLast_singleton, mem_cons, not_mem_nil, or_false] at hp
    rcases hp with rfl | rfl
    · exact nomem _ hB.2 (hcn ▸ mem_of_mem_getLast? hc)
    · rw [getLast?_append_of_ne_nil _ (by simp)] at hc
      obtain ⟨m, ms, rfl⟩ := exists_cons_of_ne_nil hM.1
      rw [getLast?_cons_cons] at hc
      exact nomem _ hM.2 (hcn ▸ mem_of_mem_getLast? hc)

/-- split-join: `'\n'.join(ls).split('\n') == ls` for a NON-EMPTY list of lines none of which contains the line end (empty lines are
fine).  This is core's `List.splitOn_intercalate`, restated. -/
theorem split_join (nl : α) (ls : List (List α)) (hne : ls ≠ []) (h : ∀ l ∈ ls, nl ∉ l) :
    ([nl].intercalate ls).splitOn nl = ls :=
  splitOn_intercalate nl h hne

/-- ... and for the empty list it is false: `'\n'.join([]).split('\n') == ['']`, one empty line, not no line -/
theorem split_join_nil (nl : α) : ([nl].intercalate ([] : List (List α))).splitOn nl = [[]] := by
  simp

/-- The table block (lines joined by `nl`), stripped and split at `nl`, gives back the lines: provided there is a line, no line
is empty or contains `nl`, the first one does not start and the last one does not end with whitespace.
(`''.split('\n') == ['']`, not `[]`: `tbl ≠ []` is needed.) -/
theorem table_lines (ws : α → Bool) (nl : α) (tbl : List (List α))
    (htbl : tbl ≠ []) (hlines : ∀ l ∈ tbl, l ≠ [] ∧ nl ∉ l)
    (hfirst : ∀ first ∈ tbl.head?, ∀ c ∈ first.head?, ws c = false)
    (hlast : ∀ last ∈ tbl.getLast?, ∀ c ∈ last.getLast?, ws c = false) :
    (strip ws ([nl].intercalate tbl)).splitOn nl = tbl := by
  obtain ⟨last, hlast'⟩ : ∃ last, tbl.getLast? = some last := by
    cases h : tbl.getLast? with
    | none => exact absurd (getLast?_eq_none_iff.mp h) htbl
    | some x => exact ⟨x, rfl⟩
  have hs : strip ws ([nl].intercalate tbl) = [nl].intercalate tbl := by
    apply strip_eq_self
    · intro c hc
      obtain ⟨t, ts, rfl⟩ := exists_cons_of_ne_nil htbl
      rw [head?_intercalate nl t ts (hlines t (by simp)).1] at hc
      exact hfirst t (by simp) c hc
    · intro c hc
      rw [getLast?_intercalate nl tbl last hlast' (hlines last (mem_of_getLast? hlast')).1] at hc
      exact hlast last hlast' c hc
  rw [hs]
  exact splitOn_intercalate nl (fun l hl => (hlines l hl).2) htbl

/-! ## the whole loader on the whole written text (a cross-check of the lemma set: the model of `Cxt.loadf` below is NOT what
the unit `lemma.cxt.roundtrip` uses -- that one composes the lemmas above with the contracts proved of the real code) -/

/-- the lines `iter_cxt_lines` yields -/
def cxtLines (symT symF : Char) (objs props : List (List Char)) (bools : List (List Bool)) :
    List (List Char) :=
  [['B'], [], dec objs.length, dec props.length, []] ++ (objs ++ props ++ bools.map (rowText symT symF))

/-- `Cxt.loadf` on the text of the file -/
def loadCxt (ws : Char → Bool) (symT : Char) (src : List Char) :
    Option (List (List Char) × List (List Char) × List (List Bool)) :=
  match split2 '\n' '\n' (strip ws src) with
  | [_, yx, table] =>
    match splitWs ws yx with
    | [ys, xs] =>
      let y := intOf ys
      let x := intOf xs
      let lines := ((strip ws table).splitOn '\n').map (strip ws)
      some (lines.take y, (lines.drop y).take x, (lines.drop (y + x)).map (·.map (valueOf symT)))
    | _ => none
  | _ => none

/-- a label the format can represent: not empty, no line end inside, no whitespace at either end -/
def Label (ws : Char → Bool) (l : List Char) : Prop :=
  l ≠ [] ∧ '\n' ∉ l ∧ (∀ c ∈ l.head?, ws c = false) ∧ (∀ c ∈ l.getLast?, ws c = false)

theorem cxt_roundtrip (symT symF : Char) (hne : symT ≠ symF)
    (hT : pyWs symT = false) (hF : pyWs symF = false)
    (objs props : List (List Char)) (bools : List (List Bool))
    (hn : objs ≠ []) (hm : props ≠ []) (hlen : bools.length = objs.length)
    (hrow : ∀ r ∈ bools, r.length = props.length)
    (hobj : ∀ l ∈ objs, Label pyWs l) (hprop : ∀ l ∈ props, Label pyWs l) :
    loadCxt pyWs symT (unlines '\n' (cxtLines symT symF objs props bools)) = some (objs, props, bools) := by
  have hTn : symT ≠ '\n' := by rintro rfl; simp [pyWs_nl] at hT
  have hFn : symF ≠ '\n' := by rintro rfl; simp [pyWs_nl] at hF
  have hbne : bools ≠ [] := by
    intro h; rw [h] at hlen; exact hn (length_eq_zero_iff.mp hlen.symm)
  have hrowne : ∀ r ∈ bools, r ≠ [] := by
    intro r hr h
    have := hrow r hr
    rw [h] at this
    exact hm (length_eq_zero_iff.mp this.symm)
  set rows := bools.map (rowText symT symF) with hrows
  have hrowfacts : ∀ l ∈ rows, (∀ c ∈ l, pyWs c = false) ∧ '\n' ∉ l ∧ l ≠ [] := by
    intro l hl
    rw [hrows, mem_map] at hl
    obtain ⟨r, hr, rfl⟩ := hl
    have := rowText_facts pyWs '\n' symT symF hT hF hTn hFn r
    exact ⟨this.1, this.2.1, this.2.2 (hrowne r hr)⟩
  have hrowlabel : ∀ l ∈ rows, Label pyWs l := by
    intro l hl
    obtain ⟨h1, h2, h3⟩ := hrowfacts l hl
    exact ⟨h3, h2, fun c hc => h1 c (mem_of_mem_head? hc), fun c hc => h1 c (mem_of_mem_getLast? hc)⟩
  set tbl := objs ++ props ++ rows with htbl
  have hall : ∀ l ∈ tbl, Label pyWs l := by
    intro l hl
    rw [htbl, mem_append, mem_append] at hl
    rcases hl with (h | h) | h
    · exact hobj l h
    · exact hprop l h
    · exact hrowlabel l h
  have htne : tbl ≠ [] := by
    rw [htbl]; intro h
    exact hn (append_eq_nil_iff.mp (append_eq_nil_iff.mp h).1).1
  have hlines : ∀ l ∈ tbl, l ≠ [] ∧ '\n' ∉ l := fun l hl => ⟨(hall l hl).1, (hall l hl).2.1⟩
  have hfirst : ∀ first ∈ tbl.head?, ∀ c ∈ first.head?, pyWs c = false :=
    fun f hf => (hall f (mem_of_mem_head? hf)).2.2.1
  have hlast : ∀ last ∈ tbl.getLast?, ∀ c ∈ last.getLast?, pyWs c = false :=
    fun f hf => (hall f (mem_of_mem_getLast? hf)).2.2.2
  have hparts := cxt_source_parts pyWs '\n' pyWs_nl ['B'] (dec objs.length) (dec props.length) tbl
    ⟨by simp, by decide⟩ ⟨dec_ne_nil _, dec_not_ws _⟩ ⟨dec_ne_nil _, dec_not_ws _⟩ htne hlines hlast
  have hnums := splitWs_pair pyWs '\n' pyWs_nl (dec objs.length) (dec props.length)
    ⟨dec_ne_nil _, dec_not_ws _⟩ ⟨dec_ne_nil _, dec_not_ws _⟩
  have htab := table_lines pyWs '\n' tbl htne hlines hfirst hlast
  have hstrip : tbl.map (strip pyWs) = tbl := by
    conv => rhs; rw [← map_id tbl]
    apply map_congr_left
    intro l hl
    exact strip_eq_self pyWs l (hall l hl).2.2.1 (hall l hl).2.2.2
  have hvals : rows.map (·.map (valueOf symT)) = bools := by
    rw [hrows, map_map]
    conv => rhs; rw [← map_id bools]
    apply map_congr_left
    intro r _
    exact values_rowText symT symF hne r
  unfold loadCxt cxtLines
  rw [hparts]
  simp only [hnums, intOf_dec, htab, hstrip]
  rw [htbl, append_assoc, take_left', drop_left', take_left', ← append_assoc, drop_left', hvals]
  · simp
  · rfl
  · rfl
  · rfl

/-! ## the table format (`concepts/formats/table.py`) and the FIMI index rows (`concepts/formats/fimi.py`):
padding, `partition`, `strip` of a given character, `rstrip` of a whole text, the lines of a text file

Dictionary (Python on the left; `sp = ' '`, `bar = '|'`, `hash = '#'`):

* `s.ljust(w)`                     `ljust sp w s`
* `s.rjust(w)`                     `rjust sp w s`
* `tmpl % tuple(args)`             `pctFormat tmpl args` (templates of literal text and `%-<digits>s` / `%<digits>s`; at the end of the file)
* `' ' * k`                         `replicate k sp`
* `s.lstrip()`, `s.rstrip()`        `lstrip ws s`, `rstrip ws s`  (`strip ws s = rstrip ws (lstrip ws s)`, by definition)
* `s.strip('|')`, `.lstrip('|')`, `.rstrip('|')`   `stripC bar s`, `lstripC bar s`, `rstripC bar s`
* `s.partition(c)[0]`, `[1]`, `[2]`  `before c s`, `sepOf c s`, `after c s`  (one-character separator)
* `s.split('|')`                    `s.splitOn bar` (core)
* `for line in file` (io.StringIO)  `linesKeep nl text` (line ends kept)
* `bool(s)`                         `s ≠ []`
* the fields the csv reader (delimiter `' '`, no quoting) makes of a line   `csvFields sp line`
-/

/-- `s.ljust(w)` -/
def ljust (pad : α) (w : Nat) (s : List α) : List α := s ++ replicate (w - s.length) pad

/-- `s.rjust(w)` -/
def rjust (pad : α) (w : Nat) (s : List α) : List α := replicate (w - s.length) pad ++ s

/-- `s.lstrip()` -/
def lstrip (ws : α → Bool) (s : List α) : List α := s.dropWhile ws

/-- `s.rstrip()` -/
def rstrip (ws : α → Bool) (s : List α) : List α := s.rdropWhile ws

/-- `s.strip(c)` for a one-character `c` -/
def stripC (c : α) (s : List α) : List α := strip (fun x => decide (x = c)) s

/-- `s.lstrip(c)` -/
def lstripC (c : α) (s : List α) : List α := lstrip (fun x => decide (x = c)) s

/-- `s.rstrip(c)` -/
def rstripC (c : α) (s : List α) : List α := rstrip (fun x => decide (x = c)) s

/-- `s.partition(sep)[0]` for a one-character separator -/
def before (sep : α) (s : List α) : List α := s.takeWhile (fun x => !decide (x = sep))

/-- `s.partition(sep)[2]` for a one-character separator -/
def after (sep : α) (s : List α) : List α := (s.dropWhile (fun x => !decide (x = sep))).tail

/-- `s.partition(sep)[1]` for a one-character separator: the separator if it occurs, else the empty text -/
def sepOf (sep : α) (s : List α) : List α := if sep ∈ s then [sep] else []

/-- the lines a text yields when iterated as a file (`for line in io.StringIO(text)`): cut BEHIND every line end, line ends kept -/
def linesKeep (nl : α) : List α → List (List α)
  | [] => []
  | c :: cs =>
    if c = nl then [c] :: linesKeep nl cs
    else match linesKeep nl cs with
      | [] => [[c]]
      | l :: ls => (c :: l) :: ls

/-- the fields the csv reader makes of one line (delimiter `sp`, no quoting): an EMPTY line has NO field (not one empty field) -/
def csvFields (sp : α) (l : List α) : List (List α) := if l = [] then [] else l.splitOn sp

theorem strip_eq_rstrip_lstrip (ws : α → Bool) (s : List α) : strip ws s = rstrip ws (lstrip ws s) := rfl

/-! ### dropWhile / rdropWhile over concatenations -/

theorem dropWhile_append_all (p : α → Bool) (a l : List α) (h : ∀ c ∈ a, p c = true) :
    (a ++ l).dropWhile p = l.dropWhile p := by
  induction a with
  | nil => rfl
  | cons c cs ih =>
    have hc := h c (by simp)
    simp only [cons_append, dropWhile_cons, hc, if_true]
    exact ih (fun x hx => h x (by simp [hx]))

theorem dropWhile_append_stop (p : α → Bool) (x z : List α) (hne : z ≠ []) (hz : ∀ c ∈ z.head?, p c = false) :
    (x ++ z).dropWhile p = x.dropWhile p ++ z := by
  induction x with
  | nil =>
    obtain ⟨c, cs, rfl⟩ := exists_cons_of_ne_nil hne
    simp [dropWhile_cons, hz c (by simp)]
  | cons c cs ih =>
    by_cases hc : p c = true
    · simp only [cons_append, dropWhile_cons, hc, if_true]; exact ih
    · simp [dropWhile_cons, hc]

theorem rdropWhile_append_all (p : α → Bool) (l r : List α) (h : ∀ c ∈ r, p c = true) :
    (l ++ r).rdropWhile p = l.rdropWhile p := by
  induction r using List.reverseRecOn with
  | nil => simp
  | append_singleton r a ih =>
    rw [← append_assoc, rdropWhile_concat_pos _ _ _ (h a (by simp))]
    exact ih (fun x hx => h x (by simp [hx]))

theorem rdropWhile_append_stop (p : α → Bool) (x z : List α) (hne : z ≠ []) (hz : ∀ c ∈ z.getLast?, p c = false) :
    (x ++ z).rdropWhile p = x ++ z := by
  rw [rdropWhile_eq_self_iff]
  intro hl
  have h1 : (x ++ z).getLast? = z.getLast? := getLast?_append_of_ne_nil _ hne
  rw [getLast?_eq_some_getLast hl] at h1
  have := hz _ h1.symm
  simp [this]

theorem dropWhile_eq_self_of_head (p : α → Bool) (l : List α) (h : ∀ c ∈ l.head?, p c = false) : l.dropWhile p = l := by
  cases l with
  | nil => rfl
  | cons c cs => simp [dropWhile_cons, h c (by simp)]

/-- padding, text `x`, a core `z` that neither starts nor ends with whitespace, trailing whitespace: `strip` leaves `x` without its
leading whitespace, then `z` -/
theorem strip_sandwich (ws : α → Bool) (a x z b : List α) (ha : ∀ c ∈ a, ws c = true) (hb : ∀ c ∈ b, ws c = true)
    (hne : z ≠ []) (hh : ∀ c ∈ z.head?, ws c = false) (hl : ∀ c ∈ z.getLast?, ws c = false) :
    strip ws (a ++ (x ++ z) ++ b) = lstrip ws x ++ z := by
  unfold strip lstrip
  have hzb : z ++ b ≠ [] := by simp [hne]
  have hhead : ∀ c ∈ (z ++ b).head?, ws c = false := by
    intro c hc
    rw [head?_append_of_ne_nil _ hne] at hc
    exact hh c hc
  rw [append_assoc, dropWhile_append_all ws a _ ha, append_assoc, dropWhile_append_stop ws x (z ++ b) hzb hhead,
    ← append_assoc, rdropWhile_append_all ws _ b hb, rdropWhile_append_stop ws _ z hne hl]

theorem strip_lstrip (ws : α → Bool) (x : List α) : strip ws (lstrip ws x) = strip ws x := by
  unfold strip lstrip
  congr 1
  induction x with
  | nil => rfl
  | cons c cs ih =>
    by_cases hc : ws c = true
    · simp only [dropWhile_cons, hc, if_true]; exact ih
    · simp [dropWhile_cons, hc]

theorem lstrip_all (ws : α → Bool) (x : List α) (h : ∀ c ∈ x, ws c = true) : lstrip ws x = [] := by
  unfold lstrip
  rw [dropWhile_eq_nil_iff]
  exact h

/-- `rstrip` of the text that printing the lines leaves: the final line end goes, nothing else -- provided the last line is not
empty and does not end with whitespace -/
theorem rstrip_unlines (ws : α → Bool) (nl : α) (hnl : ws nl = true) (ls : List (List α)) (hne : ls ≠ [])
    (hlast : ∀ last ∈ ls.getLast?, last ≠ [] ∧ ∀ c ∈ last.getLast?, ws c = false) :
    rstrip ws (unlines nl ls) = [nl].intercalate ls := by
  obtain ⟨last, hl⟩ : ∃ last, ls.getLast? = some last := by
    cases h : ls.getLast? with
    | none => exact absurd (getLast?_eq_none_iff.mp h) hne
    | some x => exact ⟨x, rfl⟩
  obtain ⟨hlne, hlws⟩ := hlast last hl
  unfold rstrip
  rw [unlines_eq nl ls hne, rdropWhile_concat_pos _ _ _ hnl, rdropWhile_eq_self_iff]
  intro hj
  have h1 : ([nl].intercalate ls).getLast? = last.getLast? := getLast?_intercalate nl ls last hl hlne
  rw [getLast?_eq_some_getLast hj] at h1
  have := hlws _ h1.symm
  simp [this]

/-! ### padding -/

theorem mem_ljust (pad : α) (w : Nat) (s : List α) (c : α) (h : c ∈ ljust pad w s) : c ∈ s ∨ c = pad := by
  unfold ljust at h
  rw [mem_append, mem_replicate] at h
  rcases h with h | h
  · exact Or.inl h
  · exact Or.inr h.2

theorem mem_rjust (pad : α) (w : Nat) (s : List α) (c : α) (h : c ∈ rjust pad w s) : c ∈ s ∨ c = pad := by
  unfold rjust at h
  rw [mem_append, mem_replicate] at h
  rcases h with h | h
  · exact Or.inr h.2
  · exact Or.inl h

theorem length_ljust (pad : α) (w : Nat) (s : List α) : (ljust pad w s).length = max s.length w := by
  unfold ljust
  rw [length_append, length_replicate]
  omega

theorem length_rjust (pad : α) (w : Nat) (s : List α) : (rjust pad w s).length = max s.length w := by
  unfold rjust
  rw [length_append, length_replicate]
  omega

theorem ljust_ne_nil (pad : α) (w : Nat) (s : List α) (h : s ≠ [] ∨ 1 ≤ w) : ljust pad w s ≠ [] := by
  intro h0
  have := length_ljust pad w s
  rw [h0] at this
  simp only [length_nil] at this
  rcases h with h | h
  · exact h (length_eq_zero_iff.mp (by omega))
  · omega

theorem rjust_ne_nil (pad : α) (w : Nat) (s : List α) (h : s ≠ [] ∨ 1 ≤ w) : rjust pad w s ≠ [] := by
  intro h0
  have := length_rjust pad w s
  rw [h0] at this
  simp only [length_nil] at this
  rcases h with h | h
  · exact h (length_eq_zero_iff.mp (by omega))
  · omega

/-- `strip` of a padded label is the label (the label neither starts nor ends with whitespace; the empty label included) -/
theorem strip_ljust (ws : α → Bool) (pad : α) (hpad : ws pad = true) (w : Nat) (s : List α)
    (hh : ∀ c ∈ s.head?, ws c = false) (hl : ∀ c ∈ s.getLast?, ws c = false) :
    strip ws (ljust pad w s) = s := by
  have hr : ∀ c ∈ replicate (w - s.length) pad, ws c = true := by
    intro c hc
    rw [mem_replicate] at hc
    rw [hc.2]; exact hpad
  unfold ljust strip
  cases s with
  | nil =>
    rw [nil_append, (dropWhile_eq_nil_iff).mpr (by simpa using hr)]
    rfl
  | cons c cs =>
    have h1 : (c :: cs ++ replicate (w - (c :: cs).length) pad).dropWhile ws = c :: cs ++ replicate (w - (c :: cs).length) pad := by
      simp [dropWhile_cons, hh c (by simp)]
    rw [h1, rdropWhile_append_all ws _ _ hr]
    have := strip_eq_self ws (c :: cs) hh hl
    unfold strip at this
    have h2 : (c :: cs).dropWhile ws = c :: cs := by simp [dropWhile_cons, hh c (by simp)]
    rwa [h2] at this

theorem strip_rjust (ws : α → Bool) (pad : α) (hpad : ws pad = true) (w : Nat) (s : List α)
    (hh : ∀ c ∈ s.head?, ws c = false) (hl : ∀ c ∈ s.getLast?, ws c = false) :
    strip ws (rjust pad w s) = s := by
  have hr : ∀ c ∈ replicate (w - s.length) pad, ws c = true := by
    intro c hc
    rw [mem_replicate] at hc
    rw [hc.2]; exact hpad
  unfold rjust strip
  rw [dropWhile_append_all ws _ _ hr]
  exact strip_eq_self ws s hh hl

theorem ljust_all (ws : α → Bool) (pad : α) (hpad : ws pad = true) (w : Nat) (s : List α) (h : ∀ c ∈ s, ws c = true) :
    ∀ c ∈ ljust pad w s, ws c = true := by
  intro c hc
  rcases mem_ljust pad w s c hc with h1 | h1
  · exact h c h1
  · rw [h1]; exact hpad

theorem rjust_all (ws : α → Bool) (pad : α) (hpad : ws pad = true) (w : Nat) (s : List α) (h : ∀ c ∈ s, ws c = true) :
    ∀ c ∈ rjust pad w s, ws c = true := by
  intro c hc
  rcases mem_rjust pad w s c hc with h1 | h1
  · exact h c h1
  · rw [h1]; exact hpad

theorem ljust_eq_self (pad : α) (w : Nat) (s : List α) (h : w ≤ s.length) : ljust pad w s = s := by
  unfold ljust
  rw [Nat.sub_eq_zero_of_le h]
  simp

theorem rjust_eq_self (pad : α) (w : Nat) (s : List α) (h : w ≤ s.length) : rjust pad w s = s := by
  unfold rjust
  rw [Nat.sub_eq_zero_of_le h]
  simp

/-- `strip` of a text of whitespace characters only is the empty text -/
theorem strip_all (ws : α → Bool) (x : List α) (h : ∀ c ∈ x, ws c = true) : strip ws x = [] := by
  unfold strip
  rw [dropWhile_eq_nil_iff.mpr (by simpa using h)]
  rfl

/-! ### partition at a character -/

theorem before_after_of_not_mem (sep : α) (s : List α) (h : sep ∉ s) : before sep s = s ∧ after sep s = [] := by
  unfold before after
  have hall : ∀ x ∈ s, (!decide (x = sep)) = true := by
    intro x hx
    have : x ≠ sep := fun e => h (e ▸ hx)
    simp [this]
  refine ⟨takeWhile_eq_self_iff.mpr (by simpa using hall), ?_⟩
  rw [dropWhile_eq_nil_iff.mpr (by simpa using hall)]
  rfl

theorem before_after_append_sep (sep : α) (a b : List α) (h : sep ∉ a) :
    before sep (a ++ sep :: b) = a ∧ after sep (a ++ sep :: b) = b := by
  unfold before after
  induction a with
  | nil => simp [takeWhile_cons, dropWhile_cons]
  | cons c cs ih =>
    have hc : c ≠ sep := fun e => h (by simp [e])
    have hcs : sep ∉ cs := fun e => h (by simp [e])
    obtain ⟨i1, i2⟩ := ih hcs
    constructor
    · simp only [cons_append, takeWhile_cons, hc, decide_false, Bool.not_false, if_true]
      rw [i1]
    · simp only [cons_append, dropWhile_cons, hc, decide_false, Bool.not_false, if_true]
      exact i2

theorem sepOf_of_not_mem (sep : α) (s : List α) (h : sep ∉ s) : sepOf sep s = [] := by
  simp [sepOf, h]

theorem sepOf_append_sep (sep : α) (a b : List α) : sepOf sep (a ++ sep :: b) = [sep] := by
  simp [sepOf]

/-! ### strip of a given character around joined cells -/

theorem head?_intercalate' (bar : α) (l : List α) (ls : List (List α)) (hl : l ≠ []) :
    ([bar].intercalate (l :: ls)).head? = l.head? := head?_intercalate bar l ls hl

/-- cells (non-empty, without the bar) joined with the bar and closed with a bar: `strip('|')` (also `rstrip('|')`) takes off
exactly the closing bar, also when the text starts with one more bar; `split('|')` then gives the cells back -/
theorem bar_cells (bar : α) (ls : List (List α)) (hne : ls ≠ []) (h : ∀ l ∈ ls, l ≠ [] ∧ bar ∉ l) :
    stripC bar ([bar].intercalate ls ++ [bar]) = [bar].intercalate ls ∧
    rstripC bar ([bar].intercalate ls ++ [bar]) = [bar].intercalate ls ∧
    lstripC bar ([bar].intercalate ls ++ [bar]) = [bar].intercalate ls ++ [bar] ∧
    stripC bar (bar :: ([bar].intercalate ls ++ [bar])) = [bar].intercalate ls ∧
    ([bar].intercalate ls).splitOn bar = ls ∧ [bar].intercalate ls ≠ [] := by
  set J := [bar].intercalate ls with hJ
  set p : α → Bool := fun x => decide (x = bar) with hp
  have hpbar : p bar = true := by simp [hp]
  obtain ⟨first, rest, rfl⟩ := exists_cons_of_ne_nil hne
  obtain ⟨last, hlast⟩ : ∃ last, (first :: rest).getLast? = some last := ⟨_, getLast?_eq_some_getLast (by simp)⟩
  have hfirst := h first (by simp)
  have hlastm := h last (mem_of_getLast? hlast)
  have hhead : ∀ c ∈ J.head?, p c = false := by
    intro c hc
    rw [hJ, head?_intercalate bar first rest hfirst.1] at hc
    have : c ≠ bar := fun e => hfirst.2 (e ▸ mem_of_mem_head? hc)
    simp [hp, this]
  have hlst : ∀ c ∈ J.getLast?, p c = false := by
    intro c hc
    rw [hJ, getLast?_intercalate bar _ last hlast hlastm.1] at hc
    have : c ≠ bar := fun e => hlastm.2 (e ▸ mem_of_mem_getLast? hc)
    simp [hp, this]
  have hJne : J ≠ [] := by
    intro h0
    have := head?_intercalate bar first rest hfirst.1
    rw [← hJ, h0] at this
    obtain ⟨c, cs, hc⟩ := exists_cons_of_ne_nil hfirst.1
    rw [hc] at this
    simp at this
  have hself : strip p J = J := strip_eq_self p J hhead hlst
  have hdrop : J.dropWhile p = J := dropWhile_eq_self_of_head p J hhead
  have hdrop2 : (J ++ [bar]).dropWhile p = J ++ [bar] := by
    apply dropWhile_eq_self_of_head
    intro c hc
    rw [head?_append_of_ne_nil _ hJne] at hc
    exact hhead c hc
  have hr : J.rdropWhile p = J := by
    have := hself
    unfold strip at this
    rwa [hdrop] at this
  refine ⟨?_, ?_, ?_, ?_, ?_, hJne⟩
  · show ((J ++ [bar]).dropWhile p).rdropWhile p = J
    rw [hdrop2, rdropWhile_concat_pos _ _ _ hpbar, hr]
  · show (J ++ [bar]).rdropWhile p = J
    rw [rdropWhile_concat_pos _ _ _ hpbar, hr]
  · exact hdrop2
  · show ((bar :: (J ++ [bar])).dropWhile p).rdropWhile p = J
    have : (bar :: (J ++ [bar])).dropWhile p = (J ++ [bar]).dropWhile p := by
      rw [dropWhile_cons, hpbar]; rfl
    rw [this, hdrop2, rdropWhile_concat_pos _ _ _ hpbar, hr]
  · exact splitOn_intercalate bar (fun l hl => (h l hl).2) (by simp)

/-! ### the lines of a text file -/

theorem linesKeep_line (nl : α) (rest : List α) : ∀ l : List α, nl ∉ l →
    linesKeep nl (l ++ nl :: rest) = (l ++ [nl]) :: linesKeep nl rest
  | [], _ => by simp [linesKeep]
  | c :: cs, h => by
    have hc : c ≠ nl := fun e => h (by simp [e])
    have ih := linesKeep_line nl rest cs (fun e => h (by simp [e]))
    rw [cons_append, linesKeep, if_neg hc, ih]
    rfl

theorem linesKeep_last (nl : α) : ∀ l : List α, nl ∉ l → l ≠ [] → linesKeep nl l = [l]
  | [], _, h => absurd rfl h
  | [c], h, _ => by
    have hc : c ≠ nl := fun e => h (by simp [e])
    simp [linesKeep, hc]
  | c :: d :: ds, h, _ => by
    have hc : c ≠ nl := fun e => h (by simp [e])
    have ih := linesKeep_last nl (d :: ds) (fun e => h (by simp only [mem_cons] at e ⊢; exact Or.inr e)) (by simp)
    rw [linesKeep, if_neg hc, ih]

/-- iterating over the printed lines gives every line with its line end -/
theorem linesKeep_unlines (nl : α) : ∀ ls : List (List α), (∀ l ∈ ls, nl ∉ l) →
    linesKeep nl (unlines nl ls) = ls.map (· ++ [nl])
  | [], _ => by simp [unlines, linesKeep]
  | l :: ls, h => by
    have ih := linesKeep_unlines nl ls (fun x hx => h x (by simp [hx]))
    have : unlines nl (l :: ls) = l ++ nl :: unlines nl ls := by simp [unlines]
    rw [this, linesKeep_line nl _ l (h l (by simp)), ih]
    rfl

/-- iterating over the lines joined by line ends (the printed text after `rstrip`): every line but the last with its line end -/
theorem linesKeep_intercalate (nl : α) : ∀ (ls : List (List α)) (hne : ls ≠ []), (∀ l ∈ ls, nl ∉ l) →
    ls.getLast hne ≠ [] →
    linesKeep nl ([nl].intercalate ls) = ls.dropLast.map (· ++ [nl]) ++ [ls.getLast hne]
  | [], h, _, _ => absurd rfl h
  | [l], _, h, hl => by
    simp only [getLast_singleton] at hl
    simpa using linesKeep_last nl l (h l (by simp)) hl
  | l :: l' :: ls, _, h, hl => by
    have hl' : (l' :: ls).getLast (by simp) ≠ [] := by simpa [getLast_cons_cons] using hl
    have ih := linesKeep_intercalate nl (l' :: ls) (by simp) (fun x hx => h x (by simp only [mem_cons] at hx ⊢; exact Or.inr hx)) hl'
    rw [intercalate_cons_cons, show l ++ [nl] ++ [nl].intercalate (l' :: ls) = l ++ nl :: [nl].intercalate (l' :: ls) by simp,
      linesKeep_line nl _ l (h l (by simp)), ih]
    simp [dropLast_cons_cons, getLast_cons_cons]

/-! ### one line of the table: padding, cells closed with bars -/

theorem mem_intercalate_singleton (bar c : α) : ∀ ls : List (List α), c ∈ [bar].intercalate ls → c = bar ∨ ∃ l ∈ ls, c ∈ l
  | [], h => by simp at h
  | [l], h => by
    simp only [intercalate_singleton] at h
    exact Or.inr ⟨l, by simp, h⟩
  | l :: l' :: ls, h => by
    rw [intercalate_cons_cons, mem_append, mem_append] at h
    rcases h with (h | h) | h
    · exact Or.inr ⟨l, by simp, h⟩
    · exact Or.inl (by simpa using h)
    · rcases mem_intercalate_singleton bar c (l' :: ls) h with h1 | ⟨x, hx, hc⟩
      · exact Or.inl h1
      · exact Or.inr ⟨x, by simp only [mem_cons] at hx ⊢; exact Or.inr hx, hc⟩

/-- a character other than the separator that no piece contains is not in the joined text -/
theorem not_mem_intercalate (sep d : α) (ls : List (List α)) (hd : d ≠ sep) (h : ∀ l ∈ ls, d ∉ l) : d ∉ [sep].intercalate ls := by
  intro hm
  rcases mem_intercalate_singleton sep d ls hm with h1 | ⟨x, hx, hc⟩
  · exact hd h1
  · exact h x hx hc

/-- a character other than the padding and the bar that no cell contains is not in the line; the line ends with the bar -/
theorem table_line_chars (sp bar d : α) (k : Nat) (cells : List (List α)) (hd1 : d ≠ sp) (hd2 : d ≠ bar)
    (h : ∀ c ∈ cells, d ∉ c) :
    d ∉ replicate k sp ++ ([bar].intercalate cells ++ [bar]) ∧
    (replicate k sp ++ ([bar].intercalate cells ++ [bar])).getLast? = some bar ∧
    replicate k sp ++ ([bar].intercalate cells ++ [bar]) ≠ [] := by
  refine ⟨?_, ?_, by simp⟩
  · intro hm
    rw [mem_append, mem_append, mem_replicate] at hm
    rcases hm with hm | hm | hm
    · exact hd1 hm.2
    · rcases mem_intercalate_singleton bar d cells hm with h1 | ⟨x, hx, hc⟩
      · exact hd2 h1
      · exact h x hx hc
    · exact hd2 (by simpa using hm)
  · rw [← append_assoc, getLast?_append_of_ne_nil _ (by simp)]
    rfl

/-- ONE LINE of the table as `load_file` sees it.  The line is `k` blanks, the cells `c0 :: rest` joined by bars, a closing bar, and
possibly the line end.  No cell contains the bar or the comment sign; the cells after the first are not empty.  Then:
`partition('#')[0]` is the line; its `strip()` is `c0` without leading whitespace, a bar, the other cells joined, a bar;
`partition('|')` of that cuts at the first bar; and when `c0` is all whitespace (the header), `strip('|')` of the stripped line is
the other cells joined.  (`bar_cells` says what `strip('|')` / `split('|')` make of the part behind the first bar.) -/
theorem table_line (ws : α → Bool) (sp bar hash nl : α) (hsp : ws sp = true) (hnl : ws nl = true) (hbar : ws bar = false)
    (hbh : hash ≠ bar) (hsh : hash ≠ sp) (hnh : hash ≠ nl)
    (k : Nat) (c0 : List α) (rest : List (List α)) (e : List α) (he : e = [] ∨ e = [nl])
    (h0 : bar ∉ c0 ∧ hash ∉ c0) (hrest : rest ≠ []) (hcells : ∀ c ∈ rest, c ≠ [] ∧ bar ∉ c ∧ hash ∉ c) :
    before hash (replicate k sp ++ ([bar].intercalate (c0 :: rest) ++ [bar]) ++ e)
      = replicate k sp ++ ([bar].intercalate (c0 :: rest) ++ [bar]) ++ e ∧
    strip ws (replicate k sp ++ ([bar].intercalate (c0 :: rest) ++ [bar]) ++ e)
      = lstrip ws c0 ++ bar :: ([bar].intercalate rest ++ [bar]) ∧
    before bar (lstrip ws c0 ++ bar :: ([bar].intercalate rest ++ [bar])) = lstrip ws c0 ∧
    after bar (lstrip ws c0 ++ bar :: ([bar].intercalate rest ++ [bar])) = [bar].intercalate rest ++ [bar] ∧
    ((∀ c ∈ c0, ws c = true) →
      stripC bar (lstrip ws c0 ++ bar :: ([bar].intercalate rest ++ [bar])) = [bar].intercalate rest) := by
  obtain ⟨r, rs, rfl⟩ := exists_cons_of_ne_nil hrest
  set J := [bar].intercalate (r :: rs) with hJ
  have hshape : [bar].intercalate (c0 :: r :: rs) ++ [bar] = c0 ++ bar :: (J ++ [bar]) := by
    rw [intercalate_cons_cons]; simp [hJ]
  have hews : ∀ c ∈ e, ws c = true := by
    rcases he with rfl | rfl
    · simp
    · simpa using hnl
  have hehash : hash ∉ e := by
    rcases he with rfl | rfl
    · simp
    · simpa using hnh
  refine ⟨?_, ?_, ?_, ?_, ?_⟩
  · apply (before_after_of_not_mem hash _ _).1
    have := (table_line_chars sp bar hash k (c0 :: r :: rs) hsh hbh (by
      intro c hc
      rcases mem_cons.mp hc with rfl | hc
      · exact h0.2
      · exact (hcells c hc).2.2)).1
    intro hm
    rw [mem_append] at hm
    rcases hm with hm | hm
    · exact this hm
    · exact hehash hm
  · rw [hshape]
    exact strip_sandwich ws (replicate k sp) c0 (bar :: (J ++ [bar])) e
      (by intro c hc; rw [mem_replicate] at hc; rw [hc.2]; exact hsp) hews (by simp)
      (by intro c hc; simp at hc; rw [← hc]; exact hbar)
      (by
        intro c hc
        rw [show bar :: (J ++ [bar]) = (bar :: J) ++ [bar] by simp, getLast?_append_of_ne_nil _ (by simp)] at hc
        simp at hc; rw [← hc]; exact hbar)
  · apply (before_after_append_sep bar _ _ _).1
    intro hm
    exact h0.1 ((dropWhile_sublist ws).subset hm)
  · apply (before_after_append_sep bar _ _ _).2
    intro hm
    exact h0.1 ((dropWhile_sublist ws).subset hm)
  · intro hall
    rw [lstrip_all ws c0 hall, nil_append]
    exact (bar_cells bar (r :: rs) (by simp) (fun l hl => ⟨(hcells l hl).1, (hcells l hl).2.1⟩)).2.2.2.1

/-! ### FIMI: rows of decimal indexes separated by single blanks -/

/-- the csv reader on a line written from fields that are not empty and contain no delimiter gives the fields back; a row
WITHOUT fields is written as the empty line and read back as the row without fields -/
theorem csvFields_intercalate (sp : α) (ds : List (List α)) (h : ∀ d ∈ ds, d ≠ [] ∧ sp ∉ d) :
    csvFields sp ([sp].intercalate ds) = ds := by
  unfold csvFields
  cases ds with
  | nil => simp
  | cons d ds =>
    have hb := bar_cells sp (d :: ds) (by simp) h
    rw [if_neg hb.2.2.2.2.2]
    exact hb.2.2.2.2.1

theorem pyWs_sp : pyWs ' ' = true := by decide

theorem dec_no_sp (n : Nat) : ' ' ∉ dec n := by
  intro h
  have := dec_not_ws n ' ' h
  rw [pyWs_sp] at this
  exact Bool.noConfusion this

/-- a row of natural numbers, written in decimal with single blanks between them, read back field by field with `int` -/
theorem fimi_row (r : List Nat) : (csvFields ' ' ([' '].intercalate (r.map dec))).map intOf = r := by
  rw [csvFields_intercalate ' ' (r.map dec) (by
    intro d hd
    rw [mem_map] at hd
    obtain ⟨n, _, rfl⟩ := hd
    exact ⟨dec_ne_nil n, dec_no_sp n⟩)]
  rw [map_map]
  conv => rhs; rw [← map_id r]
  apply map_congr_left
  intro n _
  exact intOf_dec n

/-- a line without its line end -/
def chomp (nl : α) (l : List α) : List α := if l.getLast? = some nl then l.dropLast else l

/-- the rows the csv reader (delimiter `sp`, no quoting) makes of a text: line by line (`linesKeep`), line end removed -/
def csvRows (nl sp : α) (text : List α) : List (List (List α)) :=
  (linesKeep nl text).map (fun l => csvFields sp (chomp nl l))

theorem csvRows_unlines (nl sp : α) (ls : List (List α)) (h : ∀ l ∈ ls, nl ∉ l) :
    csvRows nl sp (unlines nl ls) = ls.map (csvFields sp) := by
  unfold csvRows
  rw [linesKeep_unlines nl ls h, map_map]
  apply map_congr_left
  intro l _
  simp [chomp]

#print axioms strip_sandwich
#print axioms strip_lstrip
#print axioms lstrip_all
#print axioms rstrip_unlines
#print axioms strip_ljust
#print axioms strip_rjust
#print axioms mem_ljust
#print axioms ljust_ne_nil
#print axioms ljust_all
#print axioms ljust_eq_self
#print axioms strip_all
#print axioms not_mem_intercalate
#print axioms before_after_of_not_mem
#print axioms before_after_append_sep
#print axioms sepOf_append_sep
#print axioms bar_cells
#print axioms linesKeep_unlines
#print axioms linesKeep_intercalate
#print axioms table_line_chars
#print axioms table_line
#print axioms csvFields_intercalate
#print axioms fimi_row
#print axioms csvRows_unlines

#print axioms cxt_source_parts
#print axioms splitWs_pair
#print axioms table_lines
#print axioms split_join
#print axioms intOf_dec
#print axioms values_rowText_getElem
#print axioms values_rowText_any
#print axioms rowText_facts
#print axioms strip_eq_self
#print axioms nows_facts
#print axioms dec_not_ws
#print axioms mem_rowText
#print axioms length_rowText
#print axioms cxt_roundtrip

/-! ### the `%` operator of `str` on templates made of literal text and conversions `%-<digits>s` / `%<digits>s`

`pctFormat tmpl args` is `tmpl % tuple(args)` for the FRAGMENT of the format language that `table.dump_file` uses: a literal
character (other than `'%'`) stands for itself; `'%'`, an optional `'-'`, a run of decimal digits (the minimum width; none = 0) and
`'s'` consume one argument (a text) and produce it left-justified (`'-'`) or right-justified to that width.  `none` stands for "outside the
fragment, or TypeError" (too few / too many arguments, an unfinished conversion).  The function reads the template character by character
(`PctState`: in literal text / behind the `'%'` / in the width).  That CPython's `%` agrees with it on the fragment is the library
assumption (validated by `pyvc/texts.py: selftest()`, `selftest_lean()`). -/

inductive PctState where
  | lit : PctState
  | flag : PctState
  | width (left : Bool) (w : Nat) : PctState

/-- the padded argument -/
def pctPad (left : Bool) (w : Nat) (a : List Char) : List Char := if left then ljust ' ' w a else rjust ' ' w a

def pctGo : PctState → List Char → List (List Char) → Option (List Char)
  | .lit, [], [] => some []
  | .lit, [], _ :: _ => none
  | .lit, c :: t, args => if c = '%' then pctGo .flag t args else (pctGo .lit t args).map (fun r => c :: r)
  | .flag, [], _ => none
  | .flag, c :: t, args =>
    if c = '-' then pctGo (.width true 0) t args
    else if c.isDigit then pctGo (.width false (c.toNat - '0'.toNat)) t args
    else if c = 's' then
      match args with
      | a :: as => (pctGo .lit t as).map (fun r => pctPad false 0 a ++ r)
      | [] => none
    else none
  | .width _ _, [], _ => none
  | .width left w, c :: t, args =>
    if c.isDigit then pctGo (.width left (10 * w + (c.toNat - '0'.toNat))) t args
    else if c = 's' then
      match args with
      | a :: as => (pctGo .lit t as).map (fun r => pctPad left w a ++ r)
      | [] => none
    else none

/-- `tmpl % tuple(args)` on the fragment -/
def pctFormat (tmpl : List Char) (args : List (List Char)) : Option (List Char) := pctGo .lit tmpl args

theorem pctGo_lit (t : List Char) (args : List (List Char)) : ∀ lit : List Char, '%' ∉ lit →
    pctGo .lit (lit ++ t) args = (pctGo .lit t args).map (fun r => lit ++ r)
  | [], _ => by simp
  | c :: cs, h => by
    have hc : c ≠ '%' := fun e => h (by simp [e])
    have ih := pctGo_lit t args cs (fun e => h (by simp [e]))
    rw [cons_append, pctGo, if_neg hc, ih]
    cases pctGo .lit t args <;> simp

theorem ofDigitChars_cons (c : Char) (cs : List Char) (acc : Nat) :
    Nat.ofDigitChars 10 (c :: cs) acc = Nat.ofDigitChars 10 cs (10 * acc + (c.toNat - '0'.toNat)) := by
  simp [Nat.ofDigitChars]

/-- in the width: the digits, then `'s'` -/
theorem pctGo_width (left : Bool) (rest a : List Char) (as : List (List Char)) :
    ∀ (ds : List Char) (acc : Nat), (∀ c ∈ ds, c.isDigit = true) →
      pctGo (.width left acc) (ds ++ 's' :: rest) (a :: as)
        = (pctGo .lit rest as).map (fun r => pctPad left (Nat.ofDigitChars 10 ds acc) a ++ r)
  | [], acc, _ => by
    have h1 : Char.isDigit 's' = false := by decide
    simp [pctGo, h1, Nat.ofDigitChars]
  | c :: cs, acc, h => by
    have hc := h c (by simp)
    have ih := pctGo_width left rest a as cs (10 * acc + (c.toNat - '0'.toNat)) (fun y hy => h y (by simp [hy]))
    rw [cons_append, pctGo, if_pos hc, ih, ofDigitChars_cons]

/-- `'%-{w:d}s...' % (a, ...)`: the argument left-justified to width `w`, then the rest -/
theorem pctGo_left (w : Nat) (rest a : List Char) (as : List (List Char)) :
    pctGo .lit ('%' :: '-' :: (dec w ++ 's' :: rest)) (a :: as) = (pctGo .lit rest as).map (fun r => ljust ' ' w a ++ r) := by
  rw [pctGo, if_pos rfl, pctGo, if_pos rfl, pctGo_width true rest a as (dec w) 0 (dec_isDigit w)]
  have : Nat.ofDigitChars 10 (dec w) 0 = w := intOf_dec w
  rw [this]
  simp [pctPad]

/-- `'%{w:d}s...' % (a, ...)`: the argument right-justified to width `w`, then the rest -/
theorem pctGo_right (w : Nat) (rest a : List Char) (as : List (List Char)) :
    pctGo .lit ('%' :: (dec w ++ 's' :: rest)) (a :: as) = (pctGo .lit rest as).map (fun r => rjust ' ' w a ++ r) := by
  obtain ⟨d, ds, hd⟩ := exists_cons_of_ne_nil (dec_ne_nil w)
  have hdig : ∀ c ∈ d :: ds, c.isDigit = true := by rw [← hd]; exact dec_isDigit w
  have hd1 : d.isDigit = true := hdig d (by simp)
  have hd2 : d ≠ '-' := by
    intro e
    rw [e] at hd1
    exact absurd hd1 (by decide)
  have hval : Nat.ofDigitChars 10 (d :: ds) 0 = w := by rw [← hd]; exact intOf_dec w
  rw [hd, pctGo, if_pos rfl, cons_append, pctGo, if_neg hd2, if_pos hd1,
    pctGo_width false rest a as ds _ (fun y hy => hdig y (by simp [hy]))]
  rw [ofDigitChars_cons] at hval
  simp only [Nat.mul_zero, Nat.zero_add] at hval
  rw [hval]
  simp [pctPad]

/-- the column templates of `table.dump_file`: `'%-{w:d}s'` (left) or `'%{w:d}s'` for every width -/
def colTemplate (left : Bool) (w : Nat) : List Char := '%' :: ((if left then ['-'] else []) ++ (dec w ++ ['s']))

theorem pctGo_col (left : Bool) (w : Nat) (rest a : List Char) (as : List (List Char)) :
    pctGo .lit (colTemplate left w ++ rest) (a :: as) = (pctGo .lit rest as).map (fun r => pctPad left w a ++ r) := by
  cases left
  · have := pctGo_right w rest a as
    simpa [colTemplate, pctPad] using this
  · have := pctGo_left w rest a as
    simpa [colTemplate, pctPad] using this

/-- the columns joined by bars and closed with a bar, applied to one argument per column -/
theorem pctGo_columns (left : Bool) : ∀ (W : List Nat) (A : List (List Char)), W.length = A.length → W ≠ [] →
    pctGo .lit (['|'].intercalate (W.map (colTemplate left)) ++ ['|']) A
      = some (['|'].intercalate (zipWith (fun a w => pctPad left w a) A W) ++ ['|'])
  | [], _, _, h => absurd rfl h
  | [w], [a], _, _ => by
    have hbar : pctGo .lit ['|'] [] = some ['|'] := by simp [pctGo]
    simp only [map_cons, map_nil, intercalate_singleton, zipWith_cons_cons, zipWith_nil_left]
    rw [pctGo_col, hbar]
    simp
  | [_], [], h, _ => by simp at h
  | [_], _ :: _ :: _, h, _ => by simp at h
  | w :: w' :: ws, [], h, _ => by simp at h
  | w :: w' :: ws, [a], h, _ => by simp at h
  | w :: w' :: ws, a :: a' :: as, h, _ => by
    have ih := pctGo_columns left (w' :: ws) (a' :: as) (by simpa using h) (by simp)
    simp only [map_cons, zipWith_cons_cons] at ih ⊢
    rw [intercalate_cons_cons, intercalate_cons_cons]
    rw [show colTemplate left w ++ ['|'] ++ ['|'].intercalate (colTemplate left w' :: map (colTemplate left) ws) ++ ['|']
        = colTemplate left w ++ ('|' :: (['|'].intercalate (colTemplate left w' :: map (colTemplate left) ws) ++ ['|'])) by simp]
    rw [pctGo_col, pctGo, if_neg (by decide), ih]
    simp

/-- THE TEMPLATE OF `table.dump_file` APPLIED:  `(' ' * k + '|'.join(f'%-{w:d}s' for w in W) + '|') % tuple(A)`  is  `' ' * k +
'|'.join(a.ljust(w) for a, w in zip(A, W)) + '|'`  (`left = false`: without the `-` flags, `rjust`), for one argument per column and at
least one column -/
theorem pct_line (left : Bool) (k : Nat) (W : List Nat) (A : List (List Char)) (hlen : W.length = A.length) (hne : W ≠ []) :
    pctFormat (replicate k ' ' ++ (['|'].intercalate (W.map (colTemplate left)) ++ ['|'])) A
      = some (replicate k ' ' ++ (['|'].intercalate (zipWith (fun a w => pctPad left w a) A W) ++ ['|'])) := by
  unfold pctFormat
  rw [pctGo_lit _ _ (replicate k ' ') (by intro h; rw [mem_replicate] at h; exact absurd h.2 (by decide)),
    pctGo_columns left W A hlen hne]
  simp

#print axioms pct_line

end Text
