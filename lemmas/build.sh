#!/bin/sh
# Compile every Lean lemma file (Lean 4.33 + Mathlib, offline) and scan for sorry/admit/axiom.
set -e
cd "$(dirname "$0")"
for f in Lindig.lean Worklist.lean Seq.lean Bits.lean BitsBin.lean Upset.lean Text.lean TextCsv.lean; do
  if grep -n -E "\b(sorry|admit)\b|^axiom " "$f"; then echo "forbidden keyword in $f"; exit 1; fi
  out=$(cd /opt/veriftools/mathlib4 && lake env lean "$OLDPWD/$f" 2>&1) || { echo "$out" | tail -20; echo "lean failed on $f"; exit 1; }
  if echo "$out" | grep -q "error"; then echo "$out" | grep -A3 error | head -20; exit 1; fi
  echo "$out" | grep -E "depends on axioms|does not depend" | sed "s/^/  $f: /"
  echo "lean ok: $f"
done
