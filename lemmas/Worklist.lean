import Mathlib.Order.Closure
import Mathlib.Data.Finset.Max
import Mathlib.Data.Finset.Lattice.Basic
import Mathlib.Order.WellFounded
import Mathlib.Logic.Relation
import Mathlib.Order.Preorder.Finite

open Finset

section closure
variable {α : Type*} [DecidableEq α] [LinearOrder α]
variable (c : ClosureOperator (Finset α))

/-- `E` is an upper cover of `A` among the `c`-closed sets. -/
def IsCov (A E : Finset α) : Prop :=
  c E = E ∧ A ⊂ E ∧ ∀ F, c F = F → A ⊂ F → F ⊆ E → F = E

/-- below any closed strict superset of `A` there is a cover of `A` -/
theorem exists_cov_le {A F : Finset α} (hF : c F = F) (hAF : A ⊂ F) :
    ∃ E, IsCov c A E ∧ E ⊆ F := by
  classical
  -- strong induction on F
  induction F using Finset.strongInduction with
  | H F ih =>
    by_cases hcov : ∀ G, c G = G → A ⊂ G → G ⊆ F → G = F
    · exact ⟨F, ⟨hF, hAF, hcov⟩, Subset.refl _⟩
    · push_neg at hcov
      obtain ⟨G, hG, hAG, hGF, hne⟩ := hcov
      have hlt : G ⊂ F := ⟨hGF, fun h => hne (Subset.antisymm hGF h)⟩
      obtain ⟨E, hE, hEG⟩ := ih G hlt hG hAG
      exact ⟨E, hE, hEG.trans hGF⟩

/-- L-WORKLIST: a family of closed sets that contains the least closed set and is closed under
upper covers contains every closed set. -/
theorem worklist_complete [Fintype α] (S : Finset (Finset α))
    (hS : ∀ A ∈ S, c A = A) (h0 : c ∅ ∈ S)
    (hcl : ∀ A ∈ S, ∀ E, IsCov c A E → E ∈ S) :
    ∀ E, c E = E → E ∈ S := by
  classical
  intro E hE
  by_contra hES
  -- members of S below E
  let T := S.filter (fun A => A ⊆ E)
  have hT : T.Nonempty := ⟨c ∅, by
    simp only [T, mem_filter]
    refine ⟨h0, ?_⟩
    calc c ∅ ⊆ c E := c.monotone (empty_subset _)
      _ = E := hE⟩
  obtain ⟨A, hAmax⟩ := T.exists_maximal hT
  have hAT : A ∈ T := hAmax.prop
  have hAS : A ∈ S := (mem_filter.mp hAT).1
  have hAE : A ⊆ E := (mem_filter.mp hAT).2
  have hlt : A ⊂ E := ⟨hAE, fun h => hES (by rwa [Subset.antisymm hAE h] at hAS)⟩
  obtain ⟨E', hE', hE'E⟩ := exists_cov_le c hE hlt
  have hE'S : E' ∈ S := hcl A hAS E' hE'
  have hE'T : E' ∈ T := mem_filter.mpr ⟨hE'S, hE'E⟩
  have hle : E' ≤ A := hAmax.le_of_ge hE'T (le_of_lt hE'.2.1)
  exact (not_lt_of_ge hle) hE'.2.1
end closure

section reach
variable {β : Type*}

/-- L-REACH: a set containing the seeds and closed under `next` contains everything reachable. -/
theorem reach_subset (next : β → β → Prop) (seeds Y : Set β)
    (hs : seeds ⊆ Y) (hcl : ∀ y ∈ Y, ∀ z, next y z → z ∈ Y) :
    ∀ s ∈ seeds, ∀ z, Relation.ReflTransGen next s z → z ∈ Y := by
  intro s hsS z hz
  induction hz with
  | refl => exact hs hsS
  | tail _ hbc ih => exact hcl _ ih _ hbc
end reach

#print axioms worklist_complete
#print axioms reach_subset
