import Mathlib.Data.Nat.Bitwise
import Mathlib.Data.Nat.Size
import Mathlib.Data.Nat.BitIndices
import Mathlib.Data.List.Basic
import Mathlib.Tactic

/-!
# The text `bin(n)` of a natural number and the bits of `n`
(`pyvc/bintext.py`, units `bitsets.MemberBits.count`, `bitsets.integers.indexes_optimized`, `bitsets.MemberBits.bits`,
`bitsets.MemberBits.shortlex` / `longlex`, `lemma.bitsets.shortlex_key`)

A Python `str` is the list of its characters, as in `Text.lean`.  Dictionary (Python on the left, `n`, `w`, `k` naturals):

* `bin(n)`                         `bin n = '0' :: 'b' :: digits n`
* `format(n, 'b')`, `f'{n:b}'`     `digits n = Nat.toDigits 2 n` (repeated division by two, most significant digit first, `['0']` for 0)
* `'{0:0{1}b}'.format(n, w)`       `fmtB w n`: `digits n` filled with `'0'` on the left to `w` characters
* `int(s, 2)`, `s` binary digits   `intOf2 s = Nat.ofDigitChars 2 s 0`
* `s[k:]`                          `s.drop k`
* `s[:k:-1]`                       `revDownTo k s = (s.drop (k + 1)).reverse`   (from the last character down to position `k + 1`)
* `s[::-1]`                        `s.reverse`
* `s.count(c)`, one character      `s.count c`
* `len(s)`, `s[i]`                 `s.length`, `s[i]`
* "bit `i` of `n`" (`bit(n, i)`)   `n.testBit i`
* "number of members" (`card(n)`, `popcount(n)` on the SMT side)   `card n`: the number of `i < n.size` with `n.testBit i`

That CPython's `bin` / `format` / `int(·, 2)` / slicing / `str.count` / `enumerate` compute these definitions is an ASSUMED library
contract, validated by `pyvc/bintext.py: selftest()` and `selftest_lean()` (the definitions of this file run with `#eval`).
Everything below is proved from the definitions.
-/

namespace BitsBin

/-- the character of a binary digit -/
def bitChar (b : Bool) : Char := if b then '1' else '0'

/-- `format(n, 'b')`: the binary digits of `n`, most significant first -/
def digits (n : ℕ) : List Char := Nat.toDigits 2 n

/-- `bin(n)` -/
def bin (n : ℕ) : List Char := '0' :: 'b' :: digits n

/-- `s[:k:-1]` for a literal `k ≥ 0` -/
def revDownTo {α : Type*} (k : ℕ) (s : List α) : List α := (s.drop (k + 1)).reverse

/-- the number of set bits (members of the bitset `n`) -/
def card (n : ℕ) : ℕ := ((Finset.range n.size).filter (fun i => n.testBit i = true)).card

/-- `'{0:0{1}b}'.format(n, w)`: the digits, zero-filled on the left to width `w` -/
def fmtB (w n : ℕ) : List Char := List.replicate (w - (digits n).length) '0' ++ digits n

/-- `int(s, 2)` for a text of binary digits -/
def intOf2 (s : List Char) : ℕ := Nat.ofDigitChars 2 s 0

/-! ## the digits -/

theorem bitChar_ne_b (b : Bool) : bitChar b ≠ 'b' := by cases b <;> decide

theorem bitChar_eq_one (b : Bool) : bitChar b = '1' ↔ b = true := by cases b <;> decide

theorem bitChar_eq_zero (b : Bool) : bitChar b = '0' ↔ b = false := by cases b <;> decide

theorem digitChar_mod_two (n : ℕ) : Nat.digitChar (n % 2) = bitChar (n.testBit 0) := by
  rw [Nat.testBit_zero]
  rcases Nat.mod_two_eq_zero_or_one n with h | h <;> simp [h, bitChar]

theorem digits_lt_two {n : ℕ} (h : n < 2) : digits n = [bitChar (n.testBit 0)] := by
  rw [digits, Nat.toDigits_of_lt_base h, ← digitChar_mod_two, Nat.mod_eq_of_lt h]

theorem digits_two_le {n : ℕ} (h : 2 ≤ n) : digits n = digits (n / 2) ++ [bitChar (n.testBit 0)] := by
  rw [digits, Nat.toDigits_of_base_le (by decide) h, digitChar_mod_two]; rfl

theorem digits_zero : digits 0 = ['0'] := rfl

/-- the digits, least significant first, are the bits `0, 1, …` of `n` -/
theorem reverse_digits (n : ℕ) :
    (digits n).reverse = (List.range (digits n).length).map (fun i => bitChar (n.testBit i)) := by
  induction n using Nat.strong_induction_on with
  | _ n ih =>
    by_cases h : n < 2
    · rw [digits_lt_two h]; rfl
    · have h2 : 2 ≤ n := by omega
      rw [digits_two_le h2, List.reverse_append, List.length_append, List.length_singleton,
        List.range_succ_eq_map, ih (n / 2) (by omega)]
      simp [Function.comp_def, Nat.testBit_succ]

theorem length_digits_pos (n : ℕ) : 0 < (digits n).length := Nat.length_toDigits_pos

/-- the number of digits is the bit length (`Nat.size`), except that 0 has the one digit `'0'` -/
theorem length_digits (n : ℕ) : (digits n).length = max 1 n.size := by
  have hpos := length_digits_pos n
  have key : ∀ k, 0 < k → ((digits n).length ≤ k ↔ n.size ≤ k) := fun k hk => by
    rw [digits, Nat.length_toDigits_le_iff (by decide) hk, Nat.size_le]
  have h1 : n.size ≤ (digits n).length := (key _ hpos).1 le_rfl
  have h2 : (digits n).length ≤ max 1 n.size := (key _ (by omega)).2 (le_max_right _ _)
  omega

/-- character `i` of the reversed digits -/
theorem reverse_digits_getElem (n i : ℕ) (h : i < (digits n).reverse.length) :
    (digits n).reverse[i] = bitChar (n.testBit i) := by
  have := reverse_digits n
  simp only [this, List.getElem_map, List.getElem_range]

/-- no bit at or above the number of digits -/
theorem testBit_of_length_digits_le {n i : ℕ} (h : (digits n).length ≤ i) : n.testBit i = false := by
  rw [length_digits] at h
  exact Nat.testBit_lt_two_pow (lt_of_lt_of_le (Nat.lt_size_self n) (Nat.pow_le_pow_right (by decide) (by omega)))

/-- [B10] a natural number is below `2^w` iff it has no bit at or above `w` (as `Bits.B10_width`) -/
theorem lt_two_pow_iff (x w : ℕ) : x < 2 ^ w ↔ ∀ k, w ≤ k → x.testBit k = false := by
  constructor
  · intro h k hk
    exact Nat.testBit_lt_two_pow (lt_of_lt_of_le h (Nat.pow_le_pow_right (by omega) hk))
  · intro h
    by_contra hge
    obtain ⟨k, hk, hbit⟩ := Nat.exists_ge_and_testBit_of_ge_two_pow (Nat.le_of_not_lt hge)
    rw [h k hk] at hbit
    exact Bool.false_ne_true hbit

/-- a positive number has its highest bit at the first digit -/
theorem testBit_length_digits_sub_one {n : ℕ} (h : 0 < n) : n.testBit ((digits n).length - 1) = true := by
  have hs : 0 < n.size := Nat.size_pos.2 h
  have hl : (digits n).length = n.size := by rw [length_digits]; omega
  rw [hl]
  by_contra hb
  have hb' : n.testBit (n.size - 1) = false := by simpa using hb
  have : n < 2 ^ (n.size - 1) := by
    apply (lt_two_pow_iff n (n.size - 1)).2
    intro k hk
    by_cases hk' : k = n.size - 1
    · rw [hk']; exact hb'
    · exact Nat.testBit_lt_two_pow (lt_of_lt_of_le (Nat.lt_size_self n) (Nat.pow_le_pow_right (by decide) (by omega)))
  have := Nat.size_le.2 this
  omega

/-! ## `bin(n)` and its slices -/

theorem length_bin (n : ℕ) : (bin n).length = 2 + max 1 n.size := by
  simp [bin, length_digits]; omega

theorem bin_zero : bin 0 = ['0', 'b', '0'] := rfl

/-- `bin(n)[2:]` -/
theorem bin_drop_two (n : ℕ) : (bin n).drop 2 = digits n := rfl

/-- `bin(n)[:1:-1]`: the digits, least significant first -/
theorem bin_revDownTo_one (n : ℕ) : revDownTo 1 (bin n) = (digits n).reverse := rfl

/-- [L_bin_shape] the characters of `bin(n)`: the prefix, then for every `i` below the number of digits `L` the digit of bit `i`
at position `1 + L - i` (counted from the left) -/
theorem bin_getElem (n i : ℕ) (h : i < (digits n).length) :
    (bin n)[1 + (digits n).length - i]'(by simp [bin]; omega) = bitChar (n.testBit i) := by
  have hr := reverse_digits_getElem n i (by simpa using h)
  rw [List.getElem_reverse] at hr
  have : 1 + (digits n).length - i = ((digits n).length - 1 - i) + 2 := by omega
  simp only [bin, this, List.getElem_cons_succ]
  exact hr

/-- [L_bin_shape, as the schema states it] the digit at position `p ≥ 2` of `bin(n)`, `L = len(bin(n)) - 2` -/
theorem bin_getElem' (n p : ℕ) (h2 : 2 ≤ p) (hp : p < (bin n).length) :
    (bin n)[p] = bitChar (n.testBit ((bin n).length - 2 + 1 - p)) := by
  have hl : (bin n).length = (digits n).length + 2 := by simp [bin]
  have hi : (bin n).length - 2 + 1 - p < (digits n).length := by omega
  have := bin_getElem n _ hi
  have hidx : 1 + (digits n).length - ((bin n).length - 2 + 1 - p) = p := by omega
  simp only [hidx] at this
  exact this

theorem bin_getElem_zero (n : ℕ) : (bin n)[0]'(by simp [bin]) = '0' := rfl

theorem bin_getElem_one (n : ℕ) : (bin n)[1]'(by simp [bin]) = 'b' := rfl

/-- [indexes_optimized] `bin(n)[:1:-1]` has a `'1'` exactly at the positions of the set bits -/
theorem bin_revDownTo_one_getElem? (n i : ℕ) : (revDownTo 1 (bin n))[i]? = some '1' ↔ n.testBit i = true := by
  rw [bin_revDownTo_one]
  by_cases h : i < (digits n).reverse.length
  · rw [List.getElem?_eq_getElem h, reverse_digits_getElem n i h, Option.some_inj, bitChar_eq_one]
  · rw [List.getElem?_eq_none (by omega)]
    have : n.testBit i = false := testBit_of_length_digits_le (by simpa using h)
    simp [this]

theorem length_bin_revDownTo_one (n : ℕ) : (revDownTo 1 (bin n)).length = max 1 n.size := by
  rw [bin_revDownTo_one, List.length_reverse, length_digits]

/-! ## the number of members -/

theorem card_eq_length_bitIndices (n : ℕ) : card n = n.bitIndices.length := by
  rw [card, ← List.toFinset_card_of_nodup Nat.bitIndices_nodup]
  congr 1
  ext i
  simp only [Finset.mem_filter, Finset.mem_range, List.mem_toFinset, Nat.mem_bitIndices]
  constructor
  · exact fun h => h.2
  · intro h
    refine ⟨?_, h⟩
    by_contra hge
    have := Nat.testBit_lt_two_pow (lt_of_lt_of_le (Nat.lt_size_self n) (Nat.pow_le_pow_right (by decide) (Nat.le_of_not_lt hge)))
    rw [this] at h
    exact Bool.false_ne_true h

/-- any bound at or above the bit length will do -/
theorem card_eq_of_lt_two_pow {n w : ℕ} (h : n < 2 ^ w) :
    card n = ((Finset.range w).filter (fun i => n.testBit i = true)).card := by
  rw [card]
  congr 1
  ext i
  simp only [Finset.mem_filter, Finset.mem_range]
  constructor
  · rintro ⟨_, hb⟩
    refine ⟨?_, hb⟩
    by_contra hge
    rw [Nat.testBit_lt_two_pow (lt_of_lt_of_le h (Nat.pow_le_pow_right (by decide) (Nat.le_of_not_lt hge)))] at hb
    exact Bool.false_ne_true hb
  · rintro ⟨_, hb⟩
    refine ⟨?_, hb⟩
    by_contra hge
    rw [Nat.testBit_lt_two_pow (lt_of_lt_of_le (Nat.lt_size_self n) (Nat.pow_le_pow_right (by decide) (Nat.le_of_not_lt hge)))] at hb
    exact Bool.false_ne_true hb

theorem card_zero : card 0 = 0 := by simp [card_eq_length_bitIndices]

/-- the size of a set by its lowest position and the rest -/
theorem card_step (n : ℕ) : card n = card (n / 2) + (if n.testBit 0 = true then 1 else 0) := by
  rw [card_eq_length_bitIndices, card_eq_length_bitIndices, Nat.testBit_zero]
  rcases Nat.mod_two_eq_zero_or_one n with h | h
  · have : n = 2 * (n / 2) := by omega
    conv_lhs => rw [this]
    simp [h]
  · have : n = 2 * (n / 2) + 1 := by omega
    conv_lhs => rw [this]
    simp [h]

/-- [card.insert] a new member makes the set one larger (`Finset.card_insert_of_notMem` at the level of the bits) -/
theorem card_insert {n x : ℕ} (h : n.testBit x = false) : card (n ||| 2 ^ x) = card n + 1 := by
  have hbits : ∀ i, (n ||| 2 ^ x).testBit i = true ↔ (i = x ∨ n.testBit i = true) := by
    intro i
    rw [Nat.testBit_or, Nat.testBit_two_pow, Bool.or_eq_true, decide_eq_true_eq]
    constructor
    · rintro (h | h)
      · exact Or.inr h
      · exact Or.inl h.symm
    · rintro (h | h)
      · exact Or.inr h.symm
      · exact Or.inl h
  rw [card_eq_length_bitIndices, card_eq_length_bitIndices,
    ← List.toFinset_card_of_nodup Nat.bitIndices_nodup, ← List.toFinset_card_of_nodup Nat.bitIndices_nodup]
  have hx : x ∉ n.bitIndices.toFinset := by simp [h]
  rw [← Finset.card_insert_of_notMem hx]
  congr 1
  ext i
  simp only [List.mem_toFinset, Nat.mem_bitIndices, Finset.mem_insert]
  exact hbits i

/-- [L-SLEX, size part] a proper subset is smaller -/
theorem card_lt_of_ssubset {a b : ℕ} (hsub : ∀ i, a.testBit i = true → b.testBit i = true) (hne : a ≠ b) : card a < card b := by
  rw [card_eq_length_bitIndices, card_eq_length_bitIndices,
    ← List.toFinset_card_of_nodup Nat.bitIndices_nodup, ← List.toFinset_card_of_nodup Nat.bitIndices_nodup]
  apply Finset.card_lt_card
  refine ⟨fun i hi => ?_, fun hba => hne ?_⟩
  · simp only [List.mem_toFinset, Nat.mem_bitIndices] at hi ⊢
    exact hsub i hi
  · apply Nat.eq_of_testBit_eq
    intro i
    by_cases hb : b.testBit i = true
    · have : i ∈ a.bitIndices.toFinset := hba (by simpa using hb)
      rw [hb]; simpa using this
    · have hb' : b.testBit i = false := by simpa using hb
      have ha : a.testBit i = false := by
        by_contra ha
        exact hb (hsub i (by simpa using ha))
      rw [ha, hb']

theorem card_le_of_lt_two_pow {n w : ℕ} (h : n < 2 ^ w) : card n ≤ w := by
  rw [card_eq_of_lt_two_pow h]
  calc _ ≤ (Finset.range w).card := Finset.card_filter_le _ _
    _ = w := Finset.card_range w

/-! ## counting characters -/

theorem count_one_digits (n : ℕ) : (digits n).count '1' = card n := by
  induction n using Nat.strong_induction_on with
  | _ n ih =>
    rw [card_step]
    by_cases h : n < 2
    · rw [digits_lt_two h]
      have : n / 2 = 0 := by omega
      rw [this, card_zero]
      cases hb : n.testBit 0 <;> simp [bitChar]
    · have h2 : 2 ≤ n := by omega
      rw [digits_two_le h2, List.count_append, ih (n / 2) (by omega)]
      cases hb : n.testBit 0 <;> simp [bitChar]

theorem digits_subset (n : ℕ) : ∀ c ∈ digits n, c = '0' ∨ c = '1' := by
  intro c hc
  rw [← List.mem_reverse, reverse_digits, List.mem_map] at hc
  obtain ⟨i, _, rfl⟩ := hc
  cases n.testBit i <;> simp [bitChar]

theorem count_zero_digits (n : ℕ) : (digits n).count '0' + card n = (digits n).length := by
  rw [← count_one_digits]
  have h := digits_subset n
  generalize digits n = l at h
  induction l with
  | nil => rfl
  | cons c l ih =>
    have ih' := ih (fun d hd => h d (List.mem_cons_of_mem _ hd))
    rcases h c (List.mem_cons_self ..) with rfl | rfl <;> simp <;> omega

/-- [L_bin_count] `bin(n).count('1')` is the number of members: the prefix `0b` has no `'1'` -/
theorem count_one_bin (n : ℕ) : (bin n).count '1' = card n := by
  rw [bin, List.count_cons, List.count_cons, count_one_digits]; simp

/-- `bin(n).count('0')`: the `'0'` of the prefix and the zero digits -/
theorem count_zero_bin (n : ℕ) : (bin n).count '0' + card n = (bin n).length - 1 := by
  have := count_zero_digits n
  simp only [bin, List.count_cons, List.length_cons]
  simp
  omega

/-! ## zero-filled digits (`MemberBits.bits`) and `int(s, 2)` (`MemberBits.frombits`) -/

theorem length_fmtB (w n : ℕ) : (fmtB w n).length = max w (digits n).length := by
  simp [fmtB]; omega

/-- for a number below `2^w`, `w ≥ 1`, the zero-filled text has exactly `w` characters … -/
theorem length_fmtB_of_lt {w n : ℕ} (hw : 1 ≤ w) (h : n < 2 ^ w) : (fmtB w n).length = w := by
  have : (digits n).length ≤ w := by rw [length_digits]; have := Nat.size_le.2 h; omega
  rw [length_fmtB]; omega

/-- … and, read from the right, character `i` is the digit of bit `i` (`bits()` = this text reversed) -/
theorem reverse_fmtB_getElem (w n i : ℕ) (h : i < (fmtB w n).reverse.length) :
    (fmtB w n).reverse[i] = bitChar (n.testBit i) := by
  have hlen : (fmtB w n).reverse.length = max w (digits n).length := by rw [List.length_reverse, length_fmtB]
  simp only [fmtB, List.reverse_append, List.reverse_replicate]
  by_cases hi : i < (digits n).reverse.length
  · rw [List.getElem_append_left hi, reverse_digits_getElem]
  · rw [List.getElem_append_right (by omega), List.getElem_replicate,
      testBit_of_length_digits_le (by simpa using hi)]
    rfl

/-- [L_fmtb_shape] with the premise as the schema states it (no bit at or above `w`) -/
theorem length_fmtB_of_lt' {w n : ℕ} (hw : 1 ≤ w) (h : ∀ k, w ≤ k → n.testBit k = false) : (fmtB w n).length = w :=
  length_fmtB_of_lt hw ((lt_two_pow_iff n w).2 h)

/-- [L_fmtb_shape] the character at position `p` (from the left) is the digit of bit `w - 1 - p` -/
theorem fmtB_getElem {w n : ℕ} (hw : 1 ≤ w) (h : ∀ k, w ≤ k → n.testBit k = false) (p : ℕ) (hp : p < (fmtB w n).length) :
    (fmtB w n)[p] = bitChar (n.testBit (w - 1 - p)) := by
  have hl := length_fmtB_of_lt' hw h
  have hr := reverse_fmtB_getElem w n (w - 1 - p) (by rw [List.length_reverse]; omega)
  rw [List.getElem_reverse] at hr
  have hidx : (fmtB w n).length - 1 - (w - 1 - p) = p := by omega
  simp only [hidx] at hr
  exact hr

theorem intOf2_digits (n : ℕ) : intOf2 (digits n) = n := Nat.ofDigitChars_toDigits (by decide) (by decide)

/-- leading zeros do not change the value: `int(format(n, '0wb'), 2) = n` -/
theorem intOf2_fmtB (w n : ℕ) : intOf2 (fmtB w n) = n := by
  rw [intOf2, fmtB, Nat.ofDigitChars_append, Nat.ofDigitChars_replicate_zero, Nat.mul_zero]
  exact intOf2_digits n

/-! ## the list facts behind the slicing / counting axioms of the SMT vocabulary (`pyvc/bintext.py: A_*`) -/

section ListFacts
variable {α : Type*}

/-- [A_drop] `len(s[k:])` -/
theorem A_drop_length (s : List α) (k : ℕ) : (s.drop k).length = s.length - k := List.length_drop

/-- [A_drop] `s[k:][i] = s[i + k]` -/
theorem A_drop_getElem (s : List α) (k i : ℕ) (h : i < (s.drop k).length) :
    (s.drop k)[i] = s[i + k]'(by rw [List.length_drop] at h; omega) := by
  rw [List.getElem_drop]; congr 1; omega

/-- [A_revdown] `len(s[:k:-1])` -/
theorem A_revDownTo_length (s : List α) (k : ℕ) : (revDownTo k s).length = s.length - (k + 1) := by
  simp [revDownTo]

/-- [A_revdown] `s[:k:-1][i] = s[len(s) - 1 - i]` -/
theorem A_revDownTo_getElem (s : List α) (k i : ℕ) (h : i < (revDownTo k s).length) :
    (revDownTo k s)[i] = s[s.length - 1 - i]'(by rw [A_revDownTo_length] at h; omega) := by
  have hl := A_revDownTo_length s k
  simp only [revDownTo, List.getElem_reverse, List.getElem_drop]
  congr 1
  simp only [List.length_drop]
  omega

/-- [A_rev] `s[::-1][i] = s[len(s) - 1 - i]` -/
theorem A_reverse_getElem (s : List α) (i : ℕ) (h : i < s.reverse.length) :
    s.reverse[i] = s[s.length - 1 - i]'(by rw [List.length_reverse] at h; omega) := List.getElem_reverse _

/-- [A_cnt] counting through the first `j + 1` characters -/
theorem A_count_take_succ [DecidableEq α] (s : List α) (c : α) (j : ℕ) (h : j < s.length) :
    (s.take (j + 1)).count c = (s.take j).count c + (if s[j] = c then 1 else 0) := by
  rw [List.take_succ_eq_append_getElem h, List.count_append, List.count_singleton]
  simp only [beq_iff_eq]

theorem A_count_take_zero [DecidableEq α] (s : List α) (c : α) : (s.take 0).count c = 0 := by simp

theorem A_count_take_length [DecidableEq α] (s : List α) (c : α) : (s.take s.length).count c = s.count c := by simp

/-- [A_cnt_drop] the characters counted in `s[k:]` are those of `s` without the first `k` -/
theorem A_count_drop [DecidableEq α] (s : List α) (c : α) (k : ℕ) : (s.drop k).count c + (s.take k).count c = s.count c := by
  conv_rhs => rw [← List.take_append_drop k s, List.count_append]
  omega

/-- [A_cnt_rev] reversing does not change the counts -/
theorem A_count_reverse [DecidableEq α] (s : List α) (c : α) : s.reverse.count c = s.count c := List.count_reverse

theorem A_count_revDownTo [DecidableEq α] (s : List α) (c : α) (k : ℕ) : (revDownTo k s).count c = (s.drop (k + 1)).count c := by
  simp [revDownTo]

end ListFacts

#print axioms reverse_digits
#print axioms length_digits
#print axioms bin_getElem'
#print axioms bin_revDownTo_one_getElem?
#print axioms count_one_bin
#print axioms count_zero_bin
#print axioms card_insert
#print axioms card_lt_of_ssubset
#print axioms fmtB_getElem
#print axioms intOf2_fmtB

end BitsBin
