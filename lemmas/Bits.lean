import Mathlib.Data.Int.Bitwise
import Mathlib.Data.Nat.Bitwise
import Mathlib.Data.Nat.Find
import Mathlib.Combinatorics.Colex

/-!
# The BITS axioms over `ℤ` / `ℕ`

`bit(x,k)` of the verification theory is `Int.testBit x k` (two's complement, Batteries
definition, the one Mathlib's `Int.testBit_land` … are about).  `band`/`bor` are Mathlib's
`Int.land`/`Int.lor` (this Lean/Mathlib version has no `&&&`/`|||` notation on `ℤ`); `bnot` is
`~~~` (core `Int.not`, equal to Mathlib's `Int.lnot`); `shr(x,s)` is `x >>> s` with `s : ℕ`
(core `Int.shiftRight`, = floor division by `2^s`, which is Python's `>>`).
Indices `k` are natural numbers, so the side conditions `k ≥ 0`, `s ≥ 0` of the axioms are built in.
-/

namespace Bits

theorem lnot_eq_not (x : ℤ) : Int.lnot x = ~~~x := by
  cases x <;> rfl

/-- [B1] bits of bitwise and -/
theorem B1_testBit_land (x y : ℤ) (k : ℕ) :
    (Int.land x y).testBit k = (x.testBit k && y.testBit k) :=
  Int.testBit_land x y k

/-- [B1] on naturals, with the `&&&` notation -/
theorem B1_nat (x y k : ℕ) : (x &&& y).testBit k = (x.testBit k && y.testBit k) :=
  Nat.testBit_and x y k

/-- `Int.land` restricted to naturals is `&&&` -/
theorem land_natCast (x y : ℕ) : Int.land (x : ℤ) (y : ℤ) = ((x &&& y : ℕ) : ℤ) := rfl

/-- [B2] bits of bitwise or -/
theorem B2_testBit_lor (x y : ℤ) (k : ℕ) :
    (Int.lor x y).testBit k = (x.testBit k || y.testBit k) :=
  Int.testBit_lor x y k

/-- [B2] on naturals, with the `|||` notation -/
theorem B2_nat (x y k : ℕ) : (x ||| y).testBit k = (x.testBit k || y.testBit k) :=
  Nat.testBit_or x y k

/-- `Int.lor` restricted to naturals is `|||` -/
theorem lor_natCast (x y : ℕ) : Int.lor (x : ℤ) (y : ℤ) = ((x ||| y : ℕ) : ℤ) := rfl

/-- [B3] bits of bitwise complement -/
theorem B3_testBit_not (x : ℤ) (k : ℕ) : (~~~x).testBit k = !x.testBit k := by
  rw [← lnot_eq_not]
  exact Int.testBit_lnot x k

/-- `~~~x = -x - 1` (Python's `~x`) -/
theorem not_eq_neg_sub_one (x : ℤ) : ~~~x = -x - 1 := by
  cases x with
  | ofNat n => show Int.negSucc n = -(n : ℤ) - 1; omega
  | negSucc n => show (n : ℤ) = -(Int.negSucc n) - 1; omega

/-- [B4] bits of a right shift -/
theorem B4_testBit_shiftRight (x : ℤ) (s k : ℕ) : (x >>> s).testBit k = x.testBit (k + s) := by
  cases x with
  | ofNat n =>
    show (n >>> s).testBit k = n.testBit (k + s)
    rw [Nat.testBit_shiftRight, Nat.add_comm]
  | negSucc n =>
    show (!(n >>> s).testBit k) = !n.testBit (k + s)
    rw [Nat.testBit_shiftRight, Nat.add_comm]

/-- `x >>> s` is floor division by `2^s` (Python's `>>`) -/
theorem shiftRight_eq_ediv (x : ℤ) (s : ℕ) : x >>> s = x / (2 ^ s : ℕ) :=
  Int.shiftRight_eq_div_pow x s

/-- [B7] zero has no bits -/
theorem B7_testBit_zero (k : ℕ) : (0 : ℤ).testBit k = false := by
  show Nat.testBit 0 k = false
  exact Nat.zero_testBit k

/-- [B7] a number with a bit is not zero -/
theorem B7_ne_zero {x : ℤ} {k : ℕ} (h : x.testBit k = true) : x ≠ 0 := by
  rintro rfl
  rw [B7_testBit_zero] at h
  exact Bool.false_ne_true h

/-- the bits of a natural number seen as an integer -/
theorem testBit_natCast (n k : ℕ) : (n : ℤ).testBit k = n.testBit k := rfl

/-- [B9] extensionality on naturals -/
theorem B9_nat_ext {a b : ℕ} (h : ∀ k, a.testBit k = b.testBit k) : a = b :=
  Nat.eq_of_testBit_eq h

/-- [B9] extensionality, in the integer vocabulary of the axioms: two non-negative integers
with the same bits are equal -/
theorem B9_int_ext {x y : ℤ} (hx : 0 ≤ x) (hy : 0 ≤ y)
    (h : ∀ k, x.testBit k = y.testBit k) : x = y := by
  obtain ⟨a, rfl⟩ := Int.eq_ofNat_of_zero_le hx
  obtain ⟨b, rfl⟩ := Int.eq_ofNat_of_zero_le hy
  exact congrArg _ (B9_nat_ext h)

/-- [B11] the atoms `1 <<< i = 2^i` have exactly bit `i` -/
theorem B11_testBit_one_shiftLeft (i k : ℕ) : (1 <<< i : ℕ).testBit k = decide (k = i) := by
  rw [Nat.one_shiftLeft, Nat.testBit_two_pow]
  exact decide_eq_decide.2 eq_comm

/-- [B11] in the integer vocabulary -/
theorem B11_int (i k : ℕ) : ((2 ^ i : ℕ) : ℤ).testBit k = decide (k = i) := by
  rw [testBit_natCast, Nat.testBit_two_pow]
  exact decide_eq_decide.2 eq_comm

/-! ## further axioms -/

/-- [B5] a right shift of a non-negative number is non-negative -/
theorem B5_shiftRight_nonneg {x : ℤ} (hx : 0 ≤ x) (s : ℕ) : 0 ≤ x >>> s :=
  Int.le_shiftRight_of_nonneg hx

/-- [B5] a proper right shift of a positive number is smaller -/
theorem B5_shiftRight_lt {x : ℤ} (hx : 0 < x) {s : ℕ} (hs : 1 ≤ s) : x >>> s < x := by
  rw [Int.shiftRight_eq_div_pow]
  have h2 : (2 : ℤ) ≤ ((2 ^ s : ℕ) : ℤ) := by
    have : 2 ^ 1 ≤ 2 ^ s := Nat.pow_le_pow_right (by omega) hs
    exact_mod_cast this
  exact Int.ediv_lt_self_of_pos_of_ne_one hx (by omega)

/-- [B8] sign of bitwise and -/
theorem B8_land_nonneg {x y : ℤ} (h : 0 ≤ x ∨ 0 ≤ y) : 0 ≤ Int.land x y := by
  cases x <;> cases y <;> simp [Int.land] at h ⊢

/-- [B8] sign of bitwise or -/
theorem B8_lor_nonneg (x y : ℤ) : 0 ≤ Int.lor x y ↔ 0 ≤ x ∧ 0 ≤ y := by
  cases x <;> cases y <;> simp [Int.lor]

/-- [B8] sign of bitwise complement -/
theorem B8_not_nonneg (x : ℤ) : 0 ≤ ~~~x ↔ x < 0 := by
  rw [not_eq_neg_sub_one]; omega

/-- [B10] width: a natural number is below `2^w` iff it has no bit at or above `w` -/
theorem B10_width (x w : ℕ) : x < 2 ^ w ↔ ∀ k, w ≤ k → x.testBit k = false := by
  constructor
  · intro h k hk
    exact Nat.testBit_lt_two_pow (lt_of_lt_of_le h (Nat.pow_le_pow_right (by omega) hk))
  · intro h
    by_contra hge
    obtain ⟨k, hk, hbit⟩ := Nat.exists_ge_and_testBit_of_ge_two_pow (Nat.le_of_not_lt hge)
    rw [h k hk] at hbit
    exact Bool.false_ne_true hbit

/-- [B6] a non-zero integer has a lowest set bit (`tz`) -/
theorem B6_lowest_bit {x : ℤ} (hx : x ≠ 0) :
    ∃ t, x.testBit t = true ∧ ∀ k, k < t → x.testBit k = false := by
  classical
  have hex : ∃ t, x.testBit t = true := by
    by_contra hno
    simp only [not_exists] at hno
    apply hx
    cases x with
    | ofNat n =>
      have : n = 0 := Nat.eq_of_testBit_eq fun k => by
        rw [Nat.zero_testBit]; exact Bool.eq_false_iff.2 (hno k)
      subst this; rfl
    | negSucc n =>
      -- bits of `-[n+1]` are the complements of the bits of `n`, which vanish eventually
      obtain ⟨k, hk⟩ : ∃ k, n < 2 ^ k := ⟨n, Nat.lt_two_pow_self⟩
      have h1 : n.testBit k = false := Nat.testBit_lt_two_pow hk
      have h2 := hno k
      change (!n.testBit k) ≠ true at h2
      rw [h1] at h2
      exact absurd rfl h2
  refine ⟨Nat.find hex, Nat.find_spec hex, fun k hk => ?_⟩
  exact Bool.eq_false_iff.2 (Nat.find_min hex hk)

/-- [B12] `(1 <<< i) - 1 = 2^i - 1` has exactly the bits below `i` (the masks of concepts/algorithms/fcbo.py) -/
theorem B12_testBit_two_pow_sub_one (i k : ℕ) : ((1 <<< i : ℕ) - 1).testBit k = decide (k < i) := by
  rw [Nat.one_shiftLeft]
  exact Nat.testBit_two_pow_sub_one i k

/-- [B13] left shift -/
theorem B13_testBit_shiftLeft (x s k : ℕ) : (x <<< s).testBit k = (decide (s ≤ k) && x.testBit (k - s)) := by
  rw [Nat.testBit_shiftLeft]

/-- [B11c] -/
theorem B11c_one : (1 <<< 0 : ℕ) = 1 := rfl

/-- [SUM-ATOMS] the sum of pairwise distinct powers of two has exactly those bits
(`sum(1 << e for e in ex)` in Lattice._fromlist, `sum(map(cls._map.__getitem__, set(members)))` in bitsets.frommembers,
`sum(compress(cls._atoms, bools))` in bitsets.frombools) -/
theorem sum_two_pow_testBit (s : Finset ℕ) (k : ℕ) : (∑ i ∈ s, 2 ^ i).testBit k = decide (k ∈ s) := by
  have h := Finset.toFinset_bitIndices_sum_two_pow s
  have hm : k ∈ (∑ i ∈ s, 2 ^ i).bitIndices.toFinset ↔ k ∈ s := by rw [h]
  rw [List.mem_toFinset, Nat.mem_bitIndices] at hm
  by_cases hk : k ∈ s
  · simp [hk, hm.mpr hk]
  · have : ¬ (∑ i ∈ s, 2 ^ i).testBit k = true := fun hb => hk (hm.mp hb)
    simp [hk, this]

/-- [B14] order of naturals by the highest differing bit (used for the shortlex / longlex sort keys of bitsets) -/
theorem B14_lt_of_testBit {n m : ℕ} (i : ℕ) (hn : n.testBit i = false) (hm : m.testBit i = true)
    (hnm : ∀ j, i < j → n.testBit j = m.testBit j) : n < m :=
  Nat.lt_of_testBit i hn hm hnm

#print axioms B1_testBit_land
#print axioms B4_testBit_shiftRight
#print axioms B6_lowest_bit
#print axioms B10_width

end Bits
