import Mathlib.Data.List.Nodup
import Mathlib.Data.List.Sort
import Mathlib.Data.List.InsertIdx
import Mathlib.Data.List.Perm.Basic
import Mathlib.Data.List.Range
import Mathlib.Order.WellFounded
import Mathlib.Order.Fin.Basic
import Mathlib.Data.Fintype.Basic
import Mathlib.Data.Fintype.Card
import Mathlib.Data.Fintype.EquivFin

/-!
# The sequence theory (SEQ axioms and assumed lemmas) over `List α`

Python lists of labels are modelled by an abstract sequence theory.  Every axiom of
that theory and every lemma it ASSUMES is proved here for `List α` with decidable
equality.  The docstring of each theorem names the axiom / lemma id it discharges.

Dictionary: `s.append(x)` = `s ++ [x]`, `s.remove(x)` = `s.erase x`,
`s.index(x)` = `s.idxOf x`, `s[i] = n` = `s.set i n`, `del s[i]` = `s.eraseIdx i`,
`s.insert(i, x)` = `s.insertIdx (min i s.length) x`, `[y for y in s if p y]` = `s.filter p`.
-/

open List

set_option linter.unusedSectionVars false

variable {α : Type*} [DecidableEq α]

/-- append x unless already present -/
def add1 (s : List α) (x : α) : List α := if x ∈ s then s else s ++ [x]

/-- fold_add s xs k : add1 of the first k elements of xs, in order -/
def foldAdd (s xs : List α) (k : Nat) : List α := (xs.take k).foldl add1 s

/-- erase_fold s xs k : the first k elements of xs removed from s one by one
(`List.erase` = Python `list.remove`) -/
def eraseFold (s xs : List α) (k : Nat) : List α := (xs.take k).foldl List.erase s

/-! ## append -/

/-- [S1] membership after `append` -/
theorem S1_mem_append (s : List α) (x y : α) : y ∈ s ++ [x] ↔ y ∈ s ∨ y = x := by
  simp

/-- [S2] distinctness after `append` -/
theorem S2_nodup_append (s : List α) (x : α) : (s ++ [x]).Nodup ↔ s.Nodup ∧ x ∉ s := by
  rw [List.nodup_append]
  constructor
  · rintro ⟨h1, -, h3⟩
    exact ⟨h1, fun hx => h3 x hx x (by simp) rfl⟩
  · rintro ⟨h1, h2⟩
    refine ⟨h1, by simp, ?_⟩
    intro a ha b hb
    simp only [List.mem_singleton] at hb
    subst hb
    rintro rfl
    exact h2 ha

/-! ## remove -/

/-- [S3] membership after `remove` in a duplicate-free list -/
theorem S3_mem_erase {s : List α} (hs : s.Nodup) (x y : α) :
    y ∈ s.erase x ↔ y ∈ s ∧ y ≠ x := by
  rw [hs.mem_erase_iff, and_comm]

/-- [S4] `remove` preserves distinctness -/
theorem S4_nodup_erase {s : List α} (hs : s.Nodup) (x : α) : (s.erase x).Nodup :=
  hs.erase x

/-- [S10c] `remove` of a present element shortens the list by one -/
theorem S10c_length_erase {s : List α} (_hs : s.Nodup) {x : α} (hx : x ∈ s) :
    (s.erase x).length = s.length - 1 :=
  List.length_erase_of_mem hx

/-! ## index -/

/-- [S6] `index` of a present element is in range and points at the element -/
theorem S6_idxOf {s : List α} {x : α} (hx : x ∈ s) :
    s.idxOf x < s.length ∧ s[s.idxOf x]? = some x := by
  have h : s.idxOf x < s.length := List.idxOf_lt_length_of_mem hx
  refine ⟨h, ?_⟩
  rw [List.getElem?_eq_getElem h, List.getElem_idxOf h]

/-- [S13] in a duplicate-free list `index` inverts `getitem` -/
theorem S13_idxOf_getElem {s : List α} (hs : s.Nodup) {k : Nat} (hk : k < s.length) :
    s.idxOf s[k] = k :=
  hs.idxOf_getElem k hk

/-! ## item assignment at `index` -/

theorem set_idxOf_perm {s : List α} {o : α} (ho : o ∈ s) (n : α) :
    s.set (s.idxOf o) n ~ n :: s.erase o := by
  have h := List.set_perm_cons_eraseIdx (List.idxOf_lt_length_of_mem ho) n
  rwa [List.eraseIdx_idxOf_eq_erase] at h

/-- [S7] membership after `s[s.index(o)] = n` -/
theorem S7_mem_set {s : List α} (hs : s.Nodup) {o n : α} (ho : o ∈ s) (_hn : n ∉ s) (y : α) :
    y ∈ s.set (s.idxOf o) n ↔ (y ∈ s ∧ y ≠ o) ∨ y = n := by
  rw [(set_idxOf_perm ho n).mem_iff, List.mem_cons, S3_mem_erase hs, or_comm]

/-- [S7] distinctness after `s[s.index(o)] = n` -/
theorem S7_nodup_set {s : List α} (hs : s.Nodup) {o n : α} (_ho : o ∈ s) (hn : n ∉ s) :
    (s.set (s.idxOf o) n).Nodup :=
  hs.set hn

/-! ## del at `index` -/

/-- [S8] `del s[s.index(x)]` is `s.remove(x)` -/
theorem S8_eraseIdx_idxOf {s : List α} (_hs : s.Nodup) {x : α} (_hx : x ∈ s) :
    s.eraseIdx (s.idxOf x) = s.erase x :=
  List.eraseIdx_idxOf_eq_erase x s

/-! ## insert -/

/-- [S9] membership after `insert` at a position inside the list -/
theorem S9_mem_insertIdx {s : List α} {i : Nat} (hi : i ≤ s.length) (x y : α) :
    y ∈ s.insertIdx i x ↔ y ∈ s ∨ y = x := by
  rw [List.mem_insertIdx hi, or_comm]

/-- [S9] `insert` of a fresh element preserves distinctness -/
theorem S9_nodup_insertIdx {s : List α} (hs : s.Nodup) {i : Nat} (hi : i ≤ s.length) {x : α}
    (hx : x ∉ s) : (s.insertIdx i x).Nodup := by
  rw [(List.perm_insertIdx x s hi).nodup_iff]
  exact List.nodup_cons.2 ⟨hx, hs⟩

/-- [S9] Python's `insert` clamps the position: `s.insert(i, x)` is
`s.insertIdx (min i s.length) x`, and `min i s.length ≤ s.length` always holds, so the two
theorems above apply to every call.  (Lean's own `insertIdx` is the identity beyond the end.) -/
theorem S9_clamp (s : List α) (i : Nat) (x y : α) :
    (y ∈ s.insertIdx (min i s.length) x ↔ y ∈ s ∨ y = x) ∧
    (s.Nodup → x ∉ s → (s.insertIdx (min i s.length) x).Nodup) :=
  ⟨S9_mem_insertIdx (Nat.min_le_right _ _) x y,
   fun hs hx => S9_nodup_insertIdx hs (Nat.min_le_right _ _) hx⟩

/-! ## comprehension with a condition -/

/-- [K1] membership in a filtered list -/
theorem K1_mem_filter (s : List α) (p : α → Bool) (y : α) : y ∈ s.filter p ↔ y ∈ s ∧ p y := by
  simp

/-- [K2] filtering preserves distinctness -/
theorem K2_nodup_filter {s : List α} (hs : s.Nodup) (p : α → Bool) : (s.filter p).Nodup :=
  hs.filter p

/-! ## fold_add -/

/-- [F0] nothing added yet -/
theorem F0_foldAdd_zero (s xs : List α) : foldAdd s xs 0 = s := by
  simp [foldAdd]

/-- [F1] one more element added -/
theorem F1_foldAdd_succ (s xs : List α) {k : Nat} (hk : k < xs.length) :
    foldAdd s xs (k + 1) = add1 (foldAdd s xs k) xs[k] := by
  unfold foldAdd
  rw [List.take_succ_eq_append_getElem hk, List.foldl_append]
  rfl

theorem mem_add1 (s : List α) (x y : α) : y ∈ add1 s x ↔ y ∈ s ∨ y = x := by
  unfold add1
  split_ifs with h
  · constructor
    · exact Or.inl
    · rintro (h' | rfl)
      · exact h'
      · exact h
  · simp

theorem nodup_add1 {s : List α} (hs : s.Nodup) (x : α) : (add1 s x).Nodup := by
  unfold add1
  split_ifs with h
  · exact hs
  · exact (S2_nodup_append s x).2 ⟨hs, h⟩

theorem mem_foldl_add1 (xs : List α) : ∀ (s : List α) (y : α),
    y ∈ xs.foldl add1 s ↔ y ∈ s ∨ y ∈ xs := by
  induction xs with
  | nil => simp
  | cons x xs ih =>
    intro s y
    rw [List.foldl_cons, ih, mem_add1, List.mem_cons, or_assoc]

theorem nodup_foldl_add1 (xs : List α) : ∀ {s : List α}, s.Nodup → (xs.foldl add1 s).Nodup := by
  induction xs with
  | nil => exact fun h => h
  | cons x xs ih => exact fun h => ih (nodup_add1 h x)

/-- [lemma.fold_add] the fold keeps distinctness and adds exactly the elements seen so far -/
theorem lemma_fold_add {s : List α} (hs : s.Nodup) (xs : List α) (k : Nat) :
    (foldAdd s xs k).Nodup ∧ ∀ y, y ∈ foldAdd s xs k ↔ y ∈ s ∨ y ∈ xs.take k :=
  ⟨nodup_foldl_add1 _ hs, fun y => mem_foldl_add1 _ s y⟩

/-- adding the elements of `t ++ [x]`-or-`t` commutes with the outer fold -/
theorem foldl_add1_add1 (s t : List α) (x : α) :
    (add1 t x).foldl add1 s = add1 (t.foldl add1 s) x := by
  by_cases h : x ∈ t
  · have h' : x ∈ t.foldl add1 s := (mem_foldl_add1 t s x).2 (Or.inr h)
    simp [add1, h, h']
  · rw [add1, if_neg h, List.foldl_append]
    rfl

theorem foldl_add1_foldl_add1 (xs : List α) : ∀ s t : List α,
    (xs.foldl add1 t).foldl add1 s = xs.foldl add1 (t.foldl add1 s) := by
  induction xs with
  | nil => intros; rfl
  | cons x xs ih =>
    intro s t
    rw [List.foldl_cons, ih, foldl_add1_add1, List.foldl_cons]

/-- [lemma.fold_dedup] adding the de-duplicated list equals adding the list -/
theorem lemma_fold_dedup' (s xs : List α) :
    (xs.foldl add1 []).foldl add1 s = xs.foldl add1 s :=
  foldl_add1_foldl_add1 xs s []

/-- [lemma.fold_dedup] in the `foldAdd` vocabulary of the sequence theory -/
theorem lemma_fold_dedup (s xs : List α) :
    foldAdd s (foldAdd [] xs xs.length) (foldAdd [] xs xs.length).length
      = foldAdd s xs xs.length := by
  simp only [foldAdd, List.take_length]
  exact lemma_fold_dedup' s xs

/-- the fold appends a sublist of its input -/
theorem foldl_add1_eq_append (xs : List α) : ∀ s : List α,
    ∃ r, xs.foldl add1 s = s ++ r ∧ r <+ xs := by
  induction xs with
  | nil => exact fun s => ⟨[], by simp⟩
  | cons x xs ih =>
    intro s
    obtain ⟨r, hr, hsub⟩ := ih (add1 s x)
    by_cases h : x ∈ s
    · refine ⟨r, ?_, hsub.cons x⟩
      rw [List.foldl_cons, hr, add1, if_pos h]
    · refine ⟨x :: r, ?_, hsub.cons_cons x⟩
      rw [List.foldl_cons, hr, add1, if_neg h, List.append_assoc]
      rfl

theorem foldl_add1_sublist (xs : List α) : xs.foldl add1 [] <+ xs := by
  obtain ⟨r, hr, hsub⟩ := foldl_add1_eq_append xs []
  rw [hr, List.nil_append]
  exact hsub

theorem foldl_add1_of_nodup (xs : List α) : ∀ s : List α, (s ++ xs).Nodup →
    xs.foldl add1 s = s ++ xs := by
  induction xs with
  | nil => simp
  | cons x xs ih =>
    intro s h
    have hx : x ∉ s := by
      intro hx
      exact (List.nodup_append.1 h).2.2 x hx x (by simp) rfl
    have h' : (s ++ [x] ++ xs).Nodup := by simpa using h
    rw [List.foldl_cons, add1, if_neg hx, ih _ h']
    simp

/-- [lemma.fold_len] the fold from the empty list has the length of its input exactly when the
input is duplicate-free, and then it is the input -/
theorem lemma_fold_len (xs : List α) :
    ((xs.foldl add1 []).length = xs.length ↔ xs.Nodup) ∧
    (xs.Nodup → xs.foldl add1 [] = xs) := by
  have h2 : xs.Nodup → xs.foldl add1 [] = xs := fun h => by
    simpa using foldl_add1_of_nodup xs [] (by simpa using h)
  refine ⟨⟨fun hlen => ?_, fun h => by rw [h2 h]⟩, h2⟩
  have := (foldl_add1_sublist xs).eq_of_length hlen
  rw [← this]
  exact nodup_foldl_add1 xs List.nodup_nil

/-- [lemma.fold_len] in the `foldAdd` vocabulary -/
theorem lemma_fold_len_foldAdd (xs : List α) :
    ((foldAdd [] xs xs.length).length = xs.length ↔ xs.Nodup) ∧
    (xs.Nodup → foldAdd [] xs xs.length = xs) := by
  simp only [foldAdd, List.take_length]
  exact lemma_fold_len xs

/-! ## erase_fold -/

/-- [E0] nothing removed yet -/
theorem E0_eraseFold_zero (s xs : List α) : eraseFold s xs 0 = s := by
  simp [eraseFold]

/-- [E1] one more element removed -/
theorem E1_eraseFold_succ (s xs : List α) {k : Nat} (hk : k < xs.length) :
    eraseFold s xs (k + 1) = (eraseFold s xs k).erase xs[k] := by
  unfold eraseFold
  rw [List.take_succ_eq_append_getElem hk, List.foldl_append]
  rfl

/-- removing the elements of `r` one by one from a duplicate-free list keeps exactly the
elements outside `r`, in order -/
theorem foldl_erase_eq_filter (r : List α) : ∀ {s : List α}, s.Nodup →
    r.foldl List.erase s = s.filter (fun y => decide (y ∉ r)) := by
  induction r with
  | nil => intro s _; simp
  | cons x r ih =>
    intro s hs
    rw [List.foldl_cons, ih (hs.erase x), hs.erase_eq_filter x, List.filter_filter]
    apply List.filter_congr
    intro y _
    by_cases h1 : y ∈ r <;> by_cases h2 : y = x <;> simp [h1, h2]

/-- [lemma.erase_fold_keep] removing, one by one, the elements that do not satisfy `p`
leaves exactly those that do, in order -/
theorem lemma_erase_fold_keep {s : List α} (hs : s.Nodup) (p : α → Prop) [DecidablePred p] :
    (s.filter (fun y => decide (¬ p y))).foldl List.erase s = s.filter (fun y => decide (p y)) := by
  rw [foldl_erase_eq_filter _ hs]
  apply List.filter_congr
  intro y hy
  simp [hy]

/-- [lemma.erase_fold_keep] for a Boolean predicate -/
theorem lemma_erase_fold_keep_bool {s : List α} (hs : s.Nodup) (p : α → Bool) :
    (s.filter (fun y => !p y)).foldl List.erase s = s.filter p := by
  have h := lemma_erase_fold_keep hs (fun y => p y = true)
  simpa using h

/-- [lemma.erase_fold_keep] in the `eraseFold` vocabulary -/
theorem lemma_erase_fold_keep' {s : List α} (hs : s.Nodup) (p : α → Prop) [DecidablePred p] :
    eraseFold s (s.filter (fun y => decide (¬ p y))) (s.filter (fun y => decide (¬ p y))).length
      = s.filter (fun y => decide (p y)) := by
  simp only [eraseFold, List.take_length]
  exact lemma_erase_fold_keep hs p

/-! ## sorted canonical form -/

/-- [L-SORTED-CANONICAL] a strictly increasing self-map of `Fin n` is the identity -/
theorem strictMono_fin_eq_id {n : Nat} (f : Fin n → Fin n) (hf : StrictMono f) : f = id := by
  funext i
  exact le_antisymm hf.apply_le hf.le_apply

/-- [L-SORTED-CANONICAL] list form: a strictly increasing arrangement of `0, …, n-1` is
`List.range n` -/
theorem sorted_perm_range {n : Nat} {l : List Nat} (hp : l ~ List.range n)
    (hs : l.Pairwise (· < ·)) : l = List.range n :=
  hp.eq_of_pairwise' hs List.pairwise_lt_range

/-- [L-SORTED-CANONICAL] general form: two strictly increasing lists with the same elements
are equal -/
theorem sorted_perm_unique {β : Type*} [LinearOrder β] {l₁ l₂ : List β} (hp : l₁ ~ l₂)
    (h₁ : l₁.Pairwise (· < ·)) (h₂ : l₂.Pairwise (· < ·)) : l₁ = l₂ :=
  hp.eq_of_pairwise' h₁ h₂

/-- [lemma.fold_subset] adding names that are all present changes nothing (`d |= d`: x op x = x) -/
theorem foldl_add1_of_subset (xs : List α) : ∀ s : List α, (∀ x ∈ xs, x ∈ s) → xs.foldl add1 s = s := by
  induction xs with
  | nil => intro s _; rfl
  | cons x xs ih =>
    intro s h
    have hx : x ∈ s := h x (by simp)
    rw [List.foldl_cons]
    have : add1 s x = s := by simp [add1, hx]
    rw [this]
    exact ih s (fun y hy => h y (by simp [hy]))

theorem lemma_fold_self (s : List α) : foldAdd s s s.length = s := by
  simp only [foldAdd, List.take_length]
  exact foldl_add1_of_subset s s (fun x hx => hx)

/-- [lemma.keep_self] keeping the elements of `s` that are in `s` is `s` -/
theorem lemma_keep_self (s : List α) : s.filter (fun x => decide (x ∈ s)) = s := by
  apply List.filter_eq_self.2
  intro x hx
  simpa using hx

#print axioms lemma_fold_dedup
#print axioms lemma_fold_len
#print axioms lemma_erase_fold_keep
#print axioms strictMono_fin_eq_id
#print axioms sorted_perm_range
