import Mathlib.Order.Closure
import Mathlib.Data.Finset.Max
import Mathlib.Data.Finset.Lattice.Basic
import Mathlib.Data.Finset.Powerset
import Mathlib.Order.WellFounded
import Mathlib.Order.Preorder.Finite
import Mathlib.Algebra.BigOperators.Group.Finset.Sigma

/-! L-UPSET / L-DOWNSET (C09): in the lattice of closed sets, everything above (below) a closed set is reached
from it through upper (lower) covers; L-MINIMAL: below every member of a finite set there is a minimal member. -/

open Finset

namespace Upset

variable {α : Type*} [DecidableEq α]
variable (c : ClosureOperator (Finset α))

/-- `E` is an upper cover of `A` among the `c`-closed sets (same definition as in Lindig.lean / Worklist.lean). -/
def IsCov (A E : Finset α) : Prop :=
  c E = E ∧ A ⊂ E ∧ ∀ F, c F = F → A ⊂ F → F ⊆ E → F = E

/-- below any closed strict superset of `A` there is a cover of `A` -/
theorem exists_cov_le {A F : Finset α} (hF : c F = F) (hAF : A ⊂ F) :
    ∃ E, IsCov c A E ∧ E ⊆ F := by
  classical
  induction F using Finset.strongInduction with
  | H F ih =>
    by_cases hcov : ∀ G, c G = G → A ⊂ G → G ⊆ F → G = F
    · exact ⟨F, ⟨hF, hAF, hcov⟩, Subset.refl _⟩
    · push_neg at hcov
      obtain ⟨G, hG, hAG, hGF, hne⟩ := hcov
      have hlt : G ⊂ F := ⟨hGF, fun h => hne (Subset.antisymm hGF h)⟩
      obtain ⟨E, hE, hEG⟩ := ih G hlt hG hAG
      exact ⟨E, hE, hEG.trans hGF⟩

/-- above any closed strict subset `E` of a closed `A` there is a closed set covered by `A` -/
theorem exists_cov_ge {E A : Finset α} (hE : c E = E) (hA : c A = A) (hEA : E ⊂ A) :
    ∃ G, c G = G ∧ E ⊆ G ∧ IsCov c G A := by
  classical
  let T := A.powerset.filter (fun G => c G = G ∧ E ⊆ G ∧ G ⊂ A)
  have hT : T.Nonempty := ⟨E, by
    simp only [T, mem_filter, mem_powerset]
    exact ⟨hEA.1, hE, Subset.refl _, hEA⟩⟩
  obtain ⟨G, hGmax⟩ := T.exists_maximal hT
  have hGT : G ∈ T := hGmax.prop
  simp only [T, mem_filter, mem_powerset] at hGT
  obtain ⟨_, hGc, hEG, hGA⟩ := hGT
  refine ⟨G, hGc, hEG, hA, hGA, ?_⟩
  intro F hF hGF hFA
  by_contra hne
  have hFlt : F ⊂ A := ⟨hFA, fun h => hne (Subset.antisymm hFA h)⟩
  have hFT : F ∈ T := by
    simp only [T, mem_filter, mem_powerset]
    exact ⟨hFA, hF, hEG.trans hGF.1, hFlt⟩
  have hle : F ≤ G := hGmax.le_of_ge hFT (le_of_lt hGF)
  exact (not_lt_of_ge hle) hGF

/-- L-UPSET: a family that contains the closed set `A0` and is closed under upper covers contains every closed
set above `A0`. -/
theorem upset_complete (S : Finset (Finset α)) {A0 : Finset α}
    (h0 : A0 ∈ S) (hS : ∀ A ∈ S, c A = A)
    (hcl : ∀ A ∈ S, ∀ E, IsCov c A E → E ∈ S) :
    ∀ E, c E = E → A0 ⊆ E → E ∈ S := by
  classical
  intro E hE h0E
  by_contra hES
  let T := S.filter (fun A => A ⊆ E)
  have hT : T.Nonempty := ⟨A0, by simp only [T, mem_filter]; exact ⟨h0, h0E⟩⟩
  obtain ⟨A, hAmax⟩ := T.exists_maximal hT
  have hAT : A ∈ T := hAmax.prop
  have hAS : A ∈ S := (mem_filter.mp hAT).1
  have hAE : A ⊆ E := (mem_filter.mp hAT).2
  have hlt : A ⊂ E := ⟨hAE, fun h => hES (by rwa [Subset.antisymm hAE h] at hAS)⟩
  obtain ⟨E', hE', hE'E⟩ := exists_cov_le c hE hlt
  have hE'S : E' ∈ S := hcl A hAS E' hE'
  have hE'T : E' ∈ T := mem_filter.mpr ⟨hE'S, hE'E⟩
  have hle : E' ≤ A := hAmax.le_of_ge hE'T (le_of_lt hE'.2.1)
  exact (not_lt_of_ge hle) hE'.2.1

/-- L-DOWNSET: a family of closed sets that contains `A0` and is closed under lower covers contains every
closed set below `A0`. -/
theorem downset_complete (S : Finset (Finset α)) {A0 : Finset α}
    (h0 : A0 ∈ S) (hS : ∀ A ∈ S, c A = A)
    (hcl : ∀ A ∈ S, ∀ G, c G = G → IsCov c G A → G ∈ S) :
    ∀ E, c E = E → E ⊆ A0 → E ∈ S := by
  classical
  intro E hE hE0
  by_contra hES
  let T := S.filter (fun A => E ⊆ A)
  have hT : T.Nonempty := ⟨A0, by simp only [T, mem_filter]; exact ⟨h0, hE0⟩⟩
  obtain ⟨A, hAmin⟩ := T.exists_minimal hT
  have hAT : A ∈ T := hAmin.prop
  have hAS : A ∈ S := (mem_filter.mp hAT).1
  have hEA : E ⊆ A := (mem_filter.mp hAT).2
  have hlt : E ⊂ A := ⟨hEA, fun h => hES (by rwa [← Subset.antisymm hEA h] at hAS)⟩
  obtain ⟨G, hGc, hEG, hGA⟩ := exists_cov_ge c hE (hS A hAS) hlt
  have hGS : G ∈ S := hcl A hAS G hGc hGA
  have hGT : G ∈ T := mem_filter.mpr ⟨hGS, hEG⟩
  have hle : A ≤ G := hAmin.le_of_le hGT (le_of_lt hGA.2.1)
  exact (not_lt_of_ge hle) hGA.2.1

end Upset

namespace Minimal

variable {β : Type*} [PartialOrder β]

/-- L-MINIMAL (tools.maximal): below every member of a finite set there is a member with nothing of the set
strictly below it; dually above. -/
theorem exists_minimal_le (I : Finset β) {x : β} (hx : x ∈ I) :
    ∃ m ∈ I, m ≤ x ∧ ∀ y ∈ I, ¬ y < m := by
  classical
  let T := I.filter (fun y => y ≤ x)
  have hT : T.Nonempty := ⟨x, by simp only [T, mem_filter]; exact ⟨hx, le_refl x⟩⟩
  obtain ⟨m, hm⟩ := T.exists_minimal hT
  have hmT : m ∈ T := hm.prop
  refine ⟨m, (mem_filter.mp hmT).1, (mem_filter.mp hmT).2, ?_⟩
  intro y hy hlt
  have hyT : y ∈ T := mem_filter.mpr ⟨hy, (le_of_lt hlt).trans (mem_filter.mp hmT).2⟩
  exact (not_lt_of_ge (hm.le_of_le hyT (le_of_lt hlt))) hlt

theorem exists_maximal_ge (I : Finset β) {x : β} (hx : x ∈ I) :
    ∃ m ∈ I, x ≤ m ∧ ∀ y ∈ I, ¬ m < y :=
  exists_minimal_le (β := βᵒᵈ) I hx

end Minimal

namespace Cells

/-- fill_ratio (C14): the sizes of the rows add up to the number of true cells `(i, j)`. -/
theorem card_true_cells {ι κ : Type*} (rows : Finset ι) (row : ι → Finset κ) :
    (rows.sigma row).card = ∑ i ∈ rows, (row i).card :=
  Finset.card_sigma rows row

end Cells

#print axioms Upset.upset_complete
#print axioms Upset.downset_complete
#print axioms Minimal.exists_minimal_le
