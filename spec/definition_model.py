"""The plain ordered-table model of a Definition (properties C13, C14).

Written from the property statements and the operation table of DESIGN "### C13", not from the
library: a definition is two ordered name lists `O`, `P` (new names are appended in the order
given) and a set `C` of true cells.  Every editing operation is a method that either returns the
model's return value or raises `ModelReject(exc_class)` *without having changed the model*.

Pure python, no imports from the repository; usable from the bounded side and as reading aid for
the contracts (`V(d) = (O, P, C)`).
"""


class ModelReject(Exception):
    """The model rejects the call; `exc_class` is the class the real call has to raise."""

    def __init__(self, exc_class, why=''):
        super().__init__(exc_class.__name__, why)
        self.exc_class = exc_class
        self.why = why


SELF = 'SELF'   # model return value of the augmented assignments |= and &= ("the same object")


def app(L, xs):
    """Append the not-yet-present names of `xs` to the list `L` in the order given (in place)."""
    for x in xs:
        if x not in L:
            L.append(x)
    return L


class Model:

    def __init__(self, objects=(), properties=(), bools=()):
        objects, properties = list(objects), list(properties)
        assert len(set(objects)) == len(objects) and len(set(properties)) == len(properties)
        self.O = objects
        self.P = properties
        self.C = {(o, p) for o, row in zip(objects, bools) for p, v in zip(properties, row) if v}

    @classmethod
    def of(cls, O, P, C):
        m = cls()
        m.O, m.P, m.C = list(O), list(P), set(C)
        assert all(o in m.O and p in m.P for o, p in m.C)
        return m

    def clone(self):
        return Model.of(self.O, self.P, self.C)

    def triple(self):
        return (tuple(self.O), tuple(self.P),
                [tuple((o, p) in self.C for p in self.P) for o in self.O])

    def state(self):
        return (tuple(self.O), tuple(self.P), frozenset(self.C))

    def __eq__(self, other):
        return isinstance(other, Model) and self.state() == other.state()

    __hash__ = None

    def __repr__(self):
        return 'Model(%r, %r, %r)' % self.triple()

    # ---- cell assignment -------------------------------------------------------------------

    def setitem(self, key, value):
        if isinstance(key, int):
            raise ModelReject(ValueError, 'key is an int')
        o, p = key
        app(self.O, [o])
        app(self.P, [p])
        if value:
            self.C.add((o, p))
        else:
            self.C.discard((o, p))
        return None

    # ---- add / set -------------------------------------------------------------------------

    def add_object(self, o, ps=()):
        ps = list(ps)
        app(self.O, [o])
        app(self.P, ps)
        self.C |= {(o, p) for p in ps}
        return None

    def add_property(self, p, os=()):
        os = list(os)
        app(self.P, [p])
        app(self.O, os)
        self.C |= {(o, p) for o in os}
        return None

    def set_object(self, o, ps):
        ps = list(ps)
        self.add_object(o, ps)
        self.C -= {(o, q) for q in self.P if q not in ps}
        return None

    def set_property(self, p, os):
        os = list(os)
        self.add_property(p, os)
        self.C -= {(q, p) for q in self.O if q not in os}
        return None

    # ---- remove ----------------------------------------------------------------------------

    def remove_object(self, o):
        if o not in self.O:
            raise ModelReject(KeyError, 'unknown object')
        self.O.remove(o)
        self.C = {(x, p) for x, p in self.C if x != o}
        return None

    def remove_property(self, p):
        if p not in self.P:
            raise ModelReject(KeyError, 'unknown property')
        self.P.remove(p)
        self.C = {(o, x) for o, x in self.C if x != p}
        return None

    def remove_empty_objects(self):
        gone = [o for o in self.O if not any((o, p) in self.C for p in self.P)]
        self.O = [o for o in self.O if o not in gone]
        return gone

    def remove_empty_properties(self):
        gone = [p for p in self.P if not any((o, p) in self.C for o in self.O)]
        self.P = [p for p in self.P if p not in gone]
        return gone

    # ---- rename ----------------------------------------------------------------------------

    def rename_object(self, old, new):
        if new in self.O:
            raise ModelReject(ValueError, 'new name present')
        if old not in self.O:
            raise ModelReject(ValueError, 'old name unknown')
        self.O[self.O.index(old)] = new
        self.C = {(new if o == old else o, p) for o, p in self.C}
        return None

    def rename_property(self, old, new):
        if new in self.P:
            raise ModelReject(ValueError, 'new name present')
        if old not in self.P:
            raise ModelReject(ValueError, 'old name unknown')
        self.P[self.P.index(old)] = new
        self.C = {(o, new if p == old else p) for o, p in self.C}
        return None

    # ---- move (python list semantics: remove, then insert) ---------------------------------

    def move_object(self, o, i):
        if o not in self.O:
            raise ModelReject(ValueError, 'unknown object')
        self.O.remove(o)
        self.O.insert(i, o)
        return None

    def move_property(self, p, i):
        if p not in self.P:
            raise ModelReject(ValueError, 'unknown property')
        self.P.remove(p)
        self.P.insert(i, p)
        return None

    # ---- in-place union / intersection -----------------------------------------------------

    def conflicts(self, other):
        """Cells of a shared object and a shared property on which the two tables differ."""
        return [(o, p) for o in self.O if o in other.O for p in self.P if p in other.P
                if ((o, p) in self.C) != ((o, p) in other.C)]

    def union_update(self, other, ignore=False):
        if not ignore and self.conflicts(other):
            raise ModelReject(ValueError, 'conflicting cells')
        oO, oP, oC = list(other.O), list(other.P), set(other.C)   # other may be self
        app(self.O, oO)
        app(self.P, oP)
        self.C |= oC
        return None

    def intersection_update(self, other, ignore=False):
        if not ignore and self.conflicts(other):
            raise ModelReject(ValueError, 'conflicting cells')
        oO, oP, oC = list(other.O), list(other.P), set(other.C)
        self.O = [o for o in self.O if o in oO]
        self.P = [p for p in self.P if p in oP]
        self.C &= oC
        return None

    def ior(self, other):
        self.union_update(other, False)
        return SELF

    def iand(self, other):
        self.intersection_update(other, False)
        return SELF


# ------------------------------------------------------------------------------------------------
# C14: derived tables (pure functions, arguments are never changed)

def m_copy(m):
    return m.clone()


def m_union(a, b, ignore=False):
    r = a.clone()
    r.union_update(b.clone(), ignore)      # raises ModelReject(ValueError) on a conflict
    return r


def m_intersection(a, b, ignore=False):
    r = a.clone()
    r.intersection_update(b.clone(), ignore)
    return r


def m_take(m, objects=None, properties=None, reorder=False):
    """Sub-table with the given names (None = the whole axis, [] = nothing); original order, or the
    requested order (first mention counts) when `reorder`.  Unknown name -> KeyError."""
    unknown = [x for x in (objects or ()) if x not in m.O] + [x for x in (properties or ()) if x not in m.P]
    if unknown:
        raise ModelReject(KeyError, 'unknown names %r' % (unknown,))
    if objects is None:
        O = list(m.O)
    elif reorder:
        O = app([], objects)
    else:
        O = [o for o in m.O if o in objects]
    if properties is None:
        P = list(m.P)
    elif reorder:
        P = app([], properties)
    else:
        P = [p for p in m.P if p in properties]
    return Model.of(O, P, {(o, p) for o in O for p in P if (o, p) in m.C})


def m_transposed(m):
    return Model.of(m.P, m.O, {(p, o) for o, p in m.C})


def m_inverted(m):
    return Model.of(m.O, m.P, {(o, p) for o in m.O for p in m.P if (o, p) not in m.C})
