"""Reference readers/writers of the context text formats (oracle of C12).

Written from the format descriptions pinned in DESIGN.md "### C12" (and the examples of the
documentation: docs/manual.rst, examples/*.cxt|csv|txt, the ``Context.__str__`` docstring), NOT from the
repository's parsers.  Nothing here imports ``concepts`` and nothing uses the ``csv`` module: every reader
is a character/line scanner with an explicit symbol table, so that a dumper and a loader of the library
that are wrong in the same way disagree with these.

Layouts
-------
table        first non-blank line ``<indent><pad>|p1|...|pm|``, then per object
             ``<indent><name padded to the longest name>|c1|...|cm|``; a cell is ``X`` plus padding to the
             width of the column header, or blanks only; every line ends with ``|``; ``#`` starts a comment.
cxt          ``B``, empty line, number of objects, number of properties, empty line, the object names one
             per line, the property names one per line, one line per object with ``X``/``.`` per property.
csv          header record: object header cell (possibly empty) then the property names; per object its
             name then ``X``/empty cells (``1``/``0`` with bools_as_int); minimal quoting with ``"``
             (doubled inside), delimiter ``,`` (excel) / TAB (excel-tab), records end with CR LF.
wiki-table   ``{| class="featuresystem"``, ``!``, ``!p1!!p2...``, per object ``|-``, ``!name``,
             ``|c1||c2...`` with ``X``/blank cells padded to the header width, closing ``|}``.
fimi .dat    one line per row/concept: 0-based indexes, ascending, separated by single spaces; an empty
             line for an empty set.
python-literal  dict with ``objects``, ``properties`` (tuples of str) and ``context`` (per object the tuple
             of zero-based indexes of its properties).

All readers return ``(objects, properties, bools)`` as ``(tuple of str, tuple of str, tuple of tuples of
bool)`` (``read_fimi``: list of index lists) and raise :class:`FormatError` on text outside the layout.
"""
import ast
import re

__all__ = ['FormatError',
           'read_table', 'write_table',
           'read_cxt', 'write_cxt',
           'read_csv', 'read_csv_records', 'write_csv',
           'read_wikitable', 'write_wikitable',
           'read_fimi', 'write_fimi',
           'read_pyliteral', 'write_pyliteral']

TRUE, FALSE = 'X', '.'

CSV_DELIMITER = {'excel': ',', 'excel-tab': '\t'}
CSV_CELLS = {False: {'X': True, '': False},
             True: {'1': True, '0': False}}
CSV_TERMINATOR = '\r\n'


class FormatError(ValueError):
    """The text does not follow the documented layout."""


def _result(objects, properties, bools):
    return tuple(objects), tuple(properties), tuple(tuple(bool(b) for b in row) for row in bools)


def _check_args(objects, properties, bools):
    objects, properties = list(objects), list(properties)
    bools = [tuple(bool(b) for b in row) for row in bools]
    if len(bools) != len(objects) or any(len(row) != len(properties) for row in bools):
        raise ValueError('bools is not %d rows of %d cells' % (len(objects), len(properties)))
    return objects, properties, bools


# --------------------------------------------------------------------------------------------
# table

def _bar_fields(line):
    """Fields of a table line: text before each ``|``; the rest after the last bar must be blank."""
    fields, cur = [], []
    for ch in line:
        if ch == '|':
            fields.append(''.join(cur))
            cur = []
        else:
            cur.append(ch)
    if ''.join(cur).strip() != '':
        raise FormatError('table line does not end with |: %r' % line)
    if not fields:
        raise FormatError('table line without |: %r' % line)
    return fields


def read_table(text):
    records = []
    for raw in text.split('\n'):
        if raw.endswith('\r'):
            raw = raw[:-1]
        hash_at = raw.find('#')
        if hash_at >= 0:
            raw = raw[:hash_at]
        if raw.strip() == '':
            continue
        records.append(_bar_fields(raw))
    if len(records) < 2:
        raise FormatError('table needs a header line and at least one object line')
    header = records[0]
    if header[0].strip() != '':
        raise FormatError('text before the first | of the header line: %r' % header[0])
    properties = [f.strip() for f in header[1:]]
    if not properties:
        raise FormatError('no property in header line')
    objects, bools = [], []
    for fields in records[1:]:
        if len(fields) != len(properties) + 1:
            raise FormatError('object line with %d cells, expected %d' % (len(fields) - 1, len(properties)))
        objects.append(fields[0].strip())
        row = []
        for cell in fields[1:]:
            cell = cell.strip()
            if cell == TRUE:
                row.append(True)
            elif cell == '':
                row.append(False)
            else:
                raise FormatError('cell is neither X nor blank: %r' % cell)
        bools.append(row)
    return _result(objects, properties, bools)


def write_table(objects, properties, bools, indent=0):
    """Lines joined with LF, no trailing line break (the form ``Context.tostring()`` returns)."""
    objects, properties, bools = _check_args(objects, properties, bools)
    longest = 0
    for o in objects:
        if len(o) > longest:
            longest = len(o)
    margin = ' ' * indent
    lines = [margin + ' ' * longest + '|' + ''.join(p + '|' for p in properties)]
    for o, row in zip(objects, bools):
        line = margin + o + ' ' * (longest - len(o)) + '|'
        for p, b in zip(properties, row):
            mark = TRUE if b else ''
            line += mark + ' ' * (len(p) - len(mark)) + '|'
        lines.append(line)
    return '\n'.join(lines)


# --------------------------------------------------------------------------------------------
# cxt (Burmeister)

def _count(line, what):
    if not re.fullmatch(r'[0-9]+', line):
        raise FormatError('cxt: %s is not a number: %r' % (what, line))
    return int(line)


def read_cxt(text):
    lines = text.split('\n')
    lines = [l[:-1] if l.endswith('\r') else l for l in lines]
    while lines and lines[-1] == '':
        lines.pop()
    if len(lines) < 5:
        raise FormatError('cxt: fewer than 5 lines')
    if lines[0] != 'B':
        raise FormatError('cxt: first line is not B: %r' % lines[0])
    if lines[1] != '' or lines[4] != '':
        raise FormatError('cxt: lines 2 and 5 must be empty')
    n, m = _count(lines[2], 'number of objects'), _count(lines[3], 'number of properties')
    if len(lines) != 5 + n + m + n:
        raise FormatError('cxt: %d lines, expected %d for %d objects and %d properties'
                          % (len(lines), 5 + 2 * n + m, n, m))
    objects = lines[5:5 + n]
    properties = lines[5 + n:5 + n + m]
    bools = []
    for line in lines[5 + n + m:]:
        if len(line) != m:
            raise FormatError('cxt: cell line of length %d, expected %d: %r' % (len(line), m, line))
        row = []
        for ch in line:
            if ch == TRUE:
                row.append(True)
            elif ch == FALSE:
                row.append(False)
            else:
                raise FormatError('cxt: cell is neither X nor .: %r' % ch)
        bools.append(row)
    return _result(objects, properties, bools)


def write_cxt(objects, properties, bools):
    """Every line terminated with LF (the form ``Context.tostring('cxt')`` returns)."""
    objects, properties, bools = _check_args(objects, properties, bools)
    lines = ['B', '', str(len(objects)), str(len(properties)), '']
    lines += objects
    lines += properties
    lines += [''.join(TRUE if b else FALSE for b in row) for row in bools]
    return ''.join(line + '\n' for line in lines)


# --------------------------------------------------------------------------------------------
# csv

def _delimiter(dialect):
    try:
        return CSV_DELIMITER[dialect]
    except KeyError:
        raise ValueError('unknown reference csv dialect %r' % (dialect,))


def read_csv_records(text, dialect='excel'):
    """Records (lists of str) of a CSV text: state machine for ``"`` quoting with doubled quotes; a record
    ends at CR LF, LF or CR outside quotes; the text must end with a record terminator."""
    delim = _delimiter(dialect)
    records, record, field = [], [], []
    quoted = False        # inside a quoted field
    was_quoted = False    # the current field started with a quote and the quote is closed
    i, n = 0, len(text)
    at_record_start = True
    while i < n:
        ch = text[i]
        if quoted:
            if ch == '"':
                if i + 1 < n and text[i + 1] == '"':
                    field.append('"')
                    i += 2
                    continue
                quoted, was_quoted = False, True
            else:
                field.append(ch)
            i += 1
            continue
        if ch == '"':
            if field or was_quoted:
                raise FormatError('csv: quote inside an unquoted field at offset %d' % i)
            quoted = True
            at_record_start = False
        elif ch == delim:
            record.append(''.join(field))
            field, was_quoted = [], False
            at_record_start = False
        elif ch in '\r\n':
            if ch == '\r' and i + 1 < n and text[i + 1] == '\n':
                i += 1
            record.append(''.join(field))
            records.append(record)
            record, field, was_quoted = [], [], False
            at_record_start = True
        else:
            if was_quoted:
                raise FormatError('csv: text after closing quote at offset %d' % i)
            field.append(ch)
            at_record_start = False
        i += 1
    if quoted:
        raise FormatError('csv: unterminated quoted field')
    if not at_record_start:
        raise FormatError('csv: last record is not terminated')
    return records


def read_csv(text, bools_as_int=False, dialect='excel', with_header=False):
    """``bools_as_int=None``: the symbol table is the one all cells of the file belong to."""
    records = read_csv_records(text, dialect)
    if len(records) < 2:
        raise FormatError('csv: needs a header record and at least one object record')
    header = records[0]
    if len(header) < 2:
        raise FormatError('csv: header record without property')
    object_header, properties = header[0], header[1:]
    body = records[1:]
    for rec in body:
        if len(rec) != len(header):
            raise FormatError('csv: record with %d cells, expected %d' % (len(rec), len(header)))
    if bools_as_int is None:
        symbols = {c for rec in body for c in rec[1:]}
        fits = [k for k in (False, True) if symbols <= set(CSV_CELLS[k])]
        if not fits:
            raise FormatError('csv: cells belong to neither symbol table: %r' % sorted(symbols))
        bools_as_int = fits[0]
    table = CSV_CELLS[bool(bools_as_int)]
    objects, bools = [], []
    for rec in body:
        objects.append(rec[0])
        row = []
        for cell in rec[1:]:
            if cell not in table:
                raise FormatError('csv: invalid cell %r (bools_as_int=%r)' % (cell, bools_as_int))
            row.append(table[cell])
        bools.append(row)
    result = _result(objects, properties, bools)
    return result + (object_header,) if with_header else result


def _csv_field(value, delim):
    needs = any(ch == delim or ch == '"' or ch == '\r' or ch == '\n' for ch in value)
    if needs:
        return '"' + value.replace('"', '""') + '"'
    return value


def write_csv(objects, properties, bools, bools_as_int=False, dialect='excel', object_header=''):
    objects, properties, bools = _check_args(objects, properties, bools)
    delim = _delimiter(dialect)
    on, off = ('1', '0') if bools_as_int else ('X', '')
    records = [[object_header or ''] + properties]
    for o, row in zip(objects, bools):
        records.append([o] + [on if b else off for b in row])
    return ''.join(delim.join(_csv_field(v, delim) for v in rec) + CSV_TERMINATOR for rec in records)


# --------------------------------------------------------------------------------------------
# wiki-table (dump only)

WIKI_OPEN, WIKI_CLOSE = '{| class="featuresystem"', '|}'


def read_wikitable(text):
    lines = text.split('\n')
    lines = [l[:-1] if l.endswith('\r') else l for l in lines]
    while lines and lines[-1] == '':
        lines.pop()
    if len(lines) < 4 or lines[0] != WIKI_OPEN or lines[-1] != WIKI_CLOSE:
        raise FormatError('wiki-table: missing %r ... %r frame' % (WIKI_OPEN, WIKI_CLOSE))
    if lines[1] != '!':
        raise FormatError('wiki-table: second line is not the empty corner header !')
    if not lines[2].startswith('!'):
        raise FormatError('wiki-table: third line is not the header row: %r' % lines[2])
    properties = lines[2][1:].split('!!')
    body = lines[3:-1]
    if len(body) % 3 or not body:
        raise FormatError('wiki-table: object rows are not groups of 3 lines')
    objects, bools = [], []
    for k in range(0, len(body), 3):
        sep, name, cells = body[k:k + 3]
        if sep != '|-' or not name.startswith('!') or not cells.startswith('|'):
            raise FormatError('wiki-table: malformed object row %r' % (body[k:k + 3],))
        objects.append(name[1:])
        cells = cells[1:].split('||')
        if len(cells) != len(properties):
            raise FormatError('wiki-table: %d cells, expected %d' % (len(cells), len(properties)))
        row = []
        for p, cell in zip(properties, cells):
            if cell != cell.strip().ljust(len(p)):
                raise FormatError('wiki-table: cell %r not padded to the header width %d' % (cell, len(p)))
            if cell.strip() == TRUE:
                row.append(True)
            elif cell.strip() == '':
                row.append(False)
            else:
                raise FormatError('wiki-table: cell is neither X nor blank: %r' % cell)
        bools.append(row)
    return _result(objects, properties, bools)


def write_wikitable(objects, properties, bools):
    objects, properties, bools = _check_args(objects, properties, bools)
    lines = [WIKI_OPEN, '!', '!' + '!!'.join(properties)]
    for o, row in zip(objects, bools):
        cells = []
        for p, b in zip(properties, row):
            mark = TRUE if b else ''
            cells.append(mark + ' ' * (len(p) - len(mark)))
        lines += ['|-', '!' + o, '|' + '||'.join(cells)]
    lines.append(WIKI_CLOSE)
    return '\n'.join(lines)


# --------------------------------------------------------------------------------------------
# FIMI .dat

def read_fimi(text):
    """List of index lists, one per line.  Every line is terminated with LF."""
    if text == '':
        return []
    if not text.endswith('\n'):
        raise FormatError('fimi: last line is not terminated')
    out = []
    for line in text[:-1].split('\n'):
        if line == '':
            out.append([])
            continue
        row = []
        for tok in line.split(' '):
            if not re.fullmatch(r'0|[1-9][0-9]*', tok):
                raise FormatError('fimi: not a non-negative index: %r in line %r' % (tok, line))
            row.append(int(tok))
        out.append(row)
    return out


def write_fimi(index_rows):
    return ''.join(' '.join(str(i) for i in sorted(row)) + '\n' for row in index_rows)


# --------------------------------------------------------------------------------------------
# python-literal

def read_pyliteral(text):
    doc = ast.literal_eval(text)
    if not isinstance(doc, dict):
        raise FormatError('python-literal: not a dict')
    for key in ('objects', 'properties', 'context'):
        if key not in doc:
            raise FormatError('python-literal: missing key %r' % key)
    objects, properties, context = list(doc['objects']), list(doc['properties']), list(doc['context'])
    if not all(isinstance(x, str) for x in objects + properties):
        raise FormatError('python-literal: non-string label')
    if len(context) != len(objects):
        raise FormatError('python-literal: %d context rows for %d objects' % (len(context), len(objects)))
    bools = []
    for intent in context:
        intent = list(intent)
        if any(not isinstance(i, int) or isinstance(i, bool) or not 0 <= i < len(properties) for i in intent):
            raise FormatError('python-literal: index out of range in %r' % (intent,))
        if len(set(intent)) != len(intent):
            raise FormatError('python-literal: duplicate index in %r' % (intent,))
        bools.append([j in intent for j in range(len(properties))])
    return _result(objects, properties, bools)


def write_pyliteral(objects, properties, bools):
    objects, properties, bools = _check_args(objects, properties, bools)
    doc = {'objects': tuple(objects), 'properties': tuple(properties),
           'context': [tuple(j for j, b in enumerate(row) if b) for row in bools]}
    return repr(doc)
