#!/opt/veriftools/pyvenv/bin/python
"""Regenerate MANIFEST.json from checks/props.py (so that the two cannot drift apart) and validate it."""
import json
import os
import sys

sys.path.insert(0, os.path.dirname(os.path.abspath(__file__)))
from checks.props import PROPS, NOT_APPLICABLE  # noqa: E402

CAT = {'proof': 'proof', 'other': 'other', 'exploration': 'exploration'}
checks = []
for pid in sorted(PROPS):
    s = PROPS[pid]
    checks.append({
        'property_id': pid,
        'quick_cmd': './check %s --tier quick' % pid,
        'thorough_cmd': './check %s --tier thorough' % pid,
        'evidence_file': 'evidence/%s.json' % pid,
        'replay_cmd_template': './check %s --replay {path}' % pid,
        'engine': 'pyvc',
        'level_claimed': {'category': CAT[s['level']], 'text': s['level_text'], 'design_ref': 'DESIGN.md section 6, ' + pid},
        'level_note': s['level_note'],
        'technique': s['technique'],
    })
m = {
    'version': 1,
    'setup_cmd': './setup.sh',
    'hooks': {'guard': 'CONCEPTS_VERIF', 'enable': 'no hooks: contracts are sidecar files under /verif/contracts, run-time wrapping is done from the harness process; the guard is unused by /repo',
              'baseline_off_cmd': 'cd /repo && /venv/bin/python -m pytest -ra -q -p no:cacheprovider --timeout=900 --continue-on-collection-errors',
              'source_commits': [], 'add_only': True},
    'engines': [{'name': 'pyvc', 'path': 'pyvc/', 'serves_properties': sorted(PROPS),
                 'kind_free_text': 'contract-based deductive verification: VCs generated from the real Python AST of /repo/concepts '
                                   '(re-read every run) against sidecar contracts, discharged by z3 5.1 / cvc5 1.0; Lean 4 + Mathlib for '
                                   'lattice-theoretic lemmas; run-time contract checking over stated bounded scopes as the labelled bounded stand-in and replay tool'}],
    'checks': checks,
    'not_applicable': [{'property_id': k, 'reason': v} for k, v in sorted(NOT_APPLICABLE.items())],
    'notes': 'Fixes of genuine defects are unguarded fix: commits in /repo (see known_findings.json). See DESIGN.md.',
}
with open(os.path.join(os.path.dirname(os.path.abspath(__file__)), 'MANIFEST.json'), 'w') as f:
    json.dump(m, f, indent=1)
import jsonschema
jsonschema.validate(m, json.load(open('/root/.vp/MANIFEST.schema.json')))
print('MANIFEST.json written and valid: %d checks, %d not_applicable' % (len(checks), len(m['not_applicable'])))
