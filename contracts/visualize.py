"""Contract for concepts/visualize.py: lattice() -- the Graphviz call trace (C20, DESIGN section C20).

graphviz.Digraph is external: its methods are modelled as appending to a ghost trace.  Relative to LatInv
(objects/properties = reduced labelling, lower_neighbors = lower covers) the loop over lattice._concepts must emit,
for the k-th concept c, exactly:
    node(name(c))
    edge(name(c), name(c), headlabel=make_object_label(c.objects), labelangle='270', color='transparent')   iff c.objects
    edge(name(c), name(c), taillabel=make_property_label(c.properties), labelangle='90', color='transparent') iff c.properties
    edges(pairs)   with pairs = (name(c), name(l)) for l running through a permutation of c.lower_neighbors
and nothing else (render only when asked).  name(c) = 'c' + decimal index (module-level NAME_GETTERS[0], SORTKEYS[0]
are read from the real module source).
"""
from z3 import And, BoolSort, BoolVal, ForAll, Function, Implies, Int, IntSort, Ints, Not, Or

from pyvc import bits, extract
from pyvc.engine import (BoolV, DictV, FuncV, IntV, IterV, ListV, LoopSpec, NONE, ObjV, SeqV, StrV, TupleV, Unsupported,
                         truthy)
from contracts import lib
from contracts.registry import Unit, register

I = IntSort()
B = BoolSort()


def _lattice_unit():
    def make():
        N = Int('N')
        has_obj = Function('has_objects', I, B)
        has_prop = Function('has_properties', I, B)
        nlow = Function('lower.len', I, I)
        low = Function('lower.index', I, I, I)       # index of the t-th lower neighbour of concept k
        perm = Function('sorted.perm', I, I, I)      # sorted(): a permutation of positions
        permi = Function('sorted.perm.inv', I, I, I)
        k_, t_ = Ints('k t')
        axioms = bits.axioms() + [
            ('N', N >= 1),
            ('lower.len', ForAll([k_], nlow(k_) >= 0, patterns=[nlow(k_)])),
            # contract of sorted(): same length, a permutation of the positions of its argument
            ('sorted.perm', ForAll([k_, t_], Implies(And(0 <= t_, t_ < nlow(k_)),
                                                     And(0 <= perm(k_, t_), perm(k_, t_) < nlow(k_), permi(k_, perm(k_, t_)) == t_)),
                                   patterns=[perm(k_, t_)])),
            ('sorted.perm.onto', ForAll([k_, t_], Implies(And(0 <= t_, t_ < nlow(k_)),
                                                          And(0 <= permi(k_, t_), permi(k_, t_) < nlow(k_),
                                                              perm(k_, permi(k_, t_)) == t_)), patterns=[permi(k_, t_)])),
        ]

        def harness(path):
            given = {}
            def labels(kind, k):
                o = ObjV('LabelTuple', {}, name='%s[%s]' % (kind, k))
                o.ident = k
                o.kind = kind
                o.truth_fn = lambda: (has_obj if kind == 'objects' else has_prop)(k)
                return o

            def concept(k):
                c = ObjV('Concept', {'index': IntV(k), 'objects': labels('objects', k), 'properties': labels('properties', k)},
                         name='concept[%s]' % k)
                c.ident = k
                c.fields['lower_neighbors'] = SeqV(lambda t: concept(low(k, t)), nlow(k), 'lower_neighbors')
                return c
            lat = ObjV('Lattice', {'_concepts': SeqV(concept, N, '_concepts')}, name='lattice')
            lat.fields['__class__'] = ObjV('type', {'__name__': StrV('Lattice')})
            trace = path.trace

            def method(name):
                def f(p, args, kw):
                    trace.append((name, list(args), dict(kw)))
                    return NONE
                return FuncV('dot.' + name, f)
            dot = ObjV('Digraph', {n: method(n) for n in ('node', 'edge', 'edges', 'render')}, name='dot')
            ctor = []

            def digraph(p, args, kw):
                ctor.append((list(args), dict(kw)))
                return dot
            graphviz = ObjV('module', {'Digraph': FuncV('graphviz.Digraph', digraph)}, name='graphviz')

            def label_cb(which):
                def f(p, args, kw):
                    (arg,) = args
                    r = ObjV('LabelText', {}, name='%s(%s)' % (which, arg.name))
                    r.made_by, r.arg = which, arg
                    nonempty = p.fresh_bool('label-text-nonempty')       # a callback may return an empty text
                    r.truth_fn = lambda: nonempty
                    return r
                return FuncV(which, f)

            def sorted_(p, args, kw):
                (seq,) = args
                if not isinstance(seq, SeqV) or set(kw) - {'key'}:
                    raise Unsupported('sorted call')
                # which concept's lower_neighbors: recover k from the sequence's length term
                k = p.ghost['k']
                p.oblige('pre@sorted/argument-is-lower-neighbors', 'pre@call', seq.length == nlow(k))
                if 'key' in kw:
                    kw['key'].fn(p, [seq.at(p.fresh_int('t'))], {})      # the key function must be applicable
                return SeqV(lambda t: seq.at(perm(k, t)), seq.length, 'sorted(%s)' % seq.name)

            # module-level helpers are read from the real source (they are part of the verified text)
            from pyvc.engine import Interp, Engine  # noqa
            g = dict(lib.builtins())
            g.update({'graphviz': graphviz, 'sorted': FuncV('sorted', sorted_),
                      'repr': FuncV('repr', lambda p, a, k: StrV(None))})
            loops = {'globals': g, 'module_constants': True}
            render, view = path.fresh_bool('render'), path.fresh_bool('view')
            env = {'lattice': lat, 'filename': NONE, 'directory': NONE, 'render': BoolV(render), 'view': BoolV(view),
                   'kwargs': DictV({})}
            # each callback is either given by the caller or left at its default from the REAL signature (' '.join): the
            # unbound parameter gets its default expression evaluated by the engine; the join keeps what it joined
            for cb in ('make_object_label', 'make_property_label'):
                given[cb] = path.branch(path.fresh_bool(cb + '-given'))
                if given[cb]:
                    env[cb] = label_cb(cb)

            def default_join(p, sep, it):
                r = ObjV('LabelText', {}, name="' '.join(%s)" % getattr(it, 'name', it))
                r.made_by, r.arg, r.sep = 'default-join', it, getattr(sep, 'value', None)
                nonempty = p.fresh_bool('label-text-nonempty')
                r.truth_fn = lambda: nonempty
                return r
            loops['str_join'] = default_join

            def name_of(k):
                return StrV(None, parts=[('lit', 'c'), ('fmt', IntV(k), -1, 'd')])

            def inv(e, k):
                return []
            spec = LoopSpec(inv)
            state = {'start': None}

            def on_entry(p, env_):
                # module globals evaluated lazily here (needs an interpreter): SORTKEYS, NAME_GETTERS
                p.oblige('trace/nothing-before-loop', 'trace', BoolVal(len(trace) == 0))
                p.oblige('trace/one-digraph', 'trace', BoolVal(len(ctor) == 1))
            spec.on_entry = on_entry
            loops[0] = spec

            def finish(path, env_, outcome):
                if outcome[0] != 'return':
                    path.oblige('post/no-exception', 'post', BoolVal(False))
                    return
                path.oblige('post/returns-dot', 'post', BoolVal(outcome[1] is dot))
                # after the loop: only an optional render call, exactly when render or view
                rest = [c for c in trace]
                only_render = all(c[0] == 'render' for c in rest) and len(rest) <= 1
                path.oblige('trace/after-loop-only-render', 'trace', BoolVal(only_render))
                path.oblige('trace/render-iff-asked', 'trace', Or(render, view) == BoolVal(len(rest) == 1))
            loops['given'] = given
            return env, loops, finish, name_of, trace, has_obj, has_prop, nlow, low, perm
        return axioms, lambda path: _harness_with_trace(path, harness)
    return make


def _harness_with_trace(path, harness):
    env, loops, finish, name_of, trace, has_obj, has_prop, nlow, low, perm = harness(path)
    spec = loops[0]
    given = loops.get('given', {})
    from pyvc.engine import EnvView

    def inv(e, k):
        """Invariant 'the trace so far is the specified one' is checked iteration-wise: at the end of iteration k-1
        (k symbolic) the segment produced by this iteration must be the specified segment; the segment is then
        discharged from the ghost trace (the prefix is covered by the induction hypothesis)."""
        seg = list(trace)
        if not seg:
            return []
        kk = path.ghost.get('k')
        if kk is None:
            return [('trace/before-loop', BoolVal(False))]
        out = []
        eq = lambda a, b: _same(a, b)
        nm = name_of(kk)
        ho, hp = has_obj(kk), has_prop(kk)
        calls = [c for c in seg]
        # expected shape under the four label situations
        alts = []
        for bo in (True, False):
            for bp in (True, False):
                exp = [('node',)] + ([('edge', 'headlabel')] if bo else []) + ([('edge', 'taillabel')] if bp else []) + [('edges',)]
                got = [(c[0],) if c[0] != 'edge' else ('edge', 'headlabel' if 'headlabel' in c[2] else 'taillabel' if 'taillabel' in c[2] else '?')
                       for c in calls]
                alts.append(Implies(And(ho == bo, hp == bp), BoolVal(got == exp)))
        out.append(('trace/segment-shape', And(*alts)))
        for c in calls:
            if c[0] == 'node':
                ok = len(c[1]) == 1 and not c[2]
                out.append(('trace/node-call', And(BoolVal(ok), eq(c[1][0], nm)) if ok else BoolVal(False)))
            elif c[0] == 'edge':
                which = 'headlabel' if 'headlabel' in c[2] else 'taillabel'
                cb, kind, angle = (('make_object_label', 'objects', '270') if which == 'headlabel'
                                   else ('make_property_label', 'properties', '90'))
                ok = (len(c[1]) == 2 and set(c[2]) == {which, 'labelangle', 'color'})
                if not ok:
                    out.append(('trace/label-edge', BoolVal(False)))
                    continue
                lab = c[2][which]
                okl = (getattr(lab, 'made_by', None) == (cb if given.get(cb, True) else 'default-join') and getattr(lab.arg, 'kind', None) == kind
                       and (given.get(cb, True) or getattr(lab, 'sep', None) == ' '))
                out.append(('trace/label-edge', And(eq(c[1][0], nm), eq(c[1][1], nm), BoolVal(okl),
                                                    (lab.arg.ident == kk) if okl else BoolVal(False),
                                                    BoolVal(getattr(c[2]['labelangle'], 'value', None) == angle),
                                                    BoolVal(getattr(c[2]['color'], 'value', None) == 'transparent'))))
            elif c[0] == 'edges':
                ok = len(c[1]) == 1 and not c[2] and isinstance(c[1][0], (IterV, SeqV))
                if not ok:
                    out.append(('trace/cover-edges', BoolVal(False)))
                    continue
                it = c[1][0]
                t = path.fresh_int('t')
                el = it.at(t)
                okp = isinstance(el, TupleV) and len(el.items) == 2
                out.append(('trace/cover-edges', And(it.length == nlow(kk),
                                                    Implies(And(0 <= t, t < nlow(kk)),
                                                            And(eq(el.items[0], nm), eq(el.items[1], name_of(low(kk, perm(kk, t))))))
                                                    if okp else BoolVal(False))))
            else:
                out.append(('trace/unexpected-call-in-loop', BoolVal(False)))
        del trace[:]
        return out
    spec.invariant = inv
    return env, loops, finish


def _same(a, b):
    from pyvc.engine import values_equal
    return values_equal(a, b)


register(Unit('visualize.lattice', 'concepts/visualize.py', 'lattice', _lattice_unit(),
              assumptions=['relative to LatInv.5/7: concept.objects/properties are the reduced labelling, lower_neighbors the lower covers',
                           'graphviz.Digraph.node/edge/edges render one statement per call with the given names and attributes (external; bounded side parses the DOT source back)',
                           'contract of sorted(): a permutation of its argument',
                           'module-level SORTKEYS/NAME_GETTERS are read from the real module source'],
              linkage=[('concepts.visualize.lattice', None)]))
