"""Contracts for concepts/algorithms/lindig.py: neighbors (the Lindig step, DESIGN 5.4).

  requires  A := objects is an extent of the context
  iterable  Objects.atomic(~A): the atoms 2^g for g < n with g not in A, ascending (bitsets contract, evaluated once)
  invariant (ghost index k, g_k = k-th such g):
      forall h < n.  bit(minimal,h)  <->  h not in A  /\  (rank(h) >= k  \/  LStar(A,h))
  yields    iteration k yields (Cl(A+g_k), Up(A+g_k))  iff  LStar(A, g_k)
  lemma     L-LINDIG (lemmas/Lindig.lean, theorem lindig_step), used as an explicit instance before the `if`:
      [forall h<n. h in minimal <-> h notin A /\ (g <= h \/ LStar(A,h))]
         ->  ( (Cl(A+g) \ (A+g)) /\ minimal = {}   <->   LStar(A,g) )
  where LStar(A,h) := "Cl(A+h) is an upper cover of A and h is the greatest element of Cl(A+h) \ A".
  Corollary (lemmas/Lindig.lean, theorem cover_unique_gen): g |-> Cl(A+g) is a bijection from {g | LStar(A,g)} onto the
  upper covers of A -- hence the yielded pairs are exactly the upper covers of A, each once.
"""
from z3 import And, BoolSort, BoolVal, ForAll, Function, Implies, Int, IntSort, Ints, MultiPattern, Not, Or

from pyvc.bits import bit, band, bor, bnot
from pyvc.engine import BoolV, FuncV, IntV, IterV, ListV, LoopSpec, NONE, ObjV, TupleV
from contracts import lib
from contracts.ctxtheory import Ctx
from contracts.registry import Unit, register

I = IntSort()


class Atomic:
    """bitsets contract of Objects.atomic(b): atoms of the domain that meet b, ascending."""

    def __init__(self, C, b, path, width):
        self.len = Int('atomic.len')
        self.pos = Function('atomic.pos', I, I)      # k-th index g
        self.rank = Function('atomic.rank', I, I)    # inverse
        self.atom = Function('atomv', I, I)          # 2^g
        k, h, h2 = Ints('k h h2')
        path.assume(self.len >= 0)
        path.assume(ForAll([k], Implies(And(0 <= k, k < self.len),
                                        And(0 <= self.pos(k), self.pos(k) < width, bit(b, self.pos(k)),
                                            self.rank(self.pos(k)) == k)), patterns=[self.pos(k)]))
        path.assume(ForAll([h], Implies(And(0 <= h, h < width, bit(b, h)),
                                        And(0 <= self.rank(h), self.rank(h) < self.len, self.pos(self.rank(h)) == h)),
                           patterns=[self.rank(h)]))
        path.assume(ForAll([h, h2], Implies(And(0 <= h, h < width, bit(b, h), 0 <= h2, h2 < width, bit(b, h2)),
                                            (h < h2) == (self.rank(h) < self.rank(h2))),
                           patterns=[MultiPattern(self.rank(h), self.rank(h2))]))
        path.assume(ForAll([h, k], bit(self.atom(h), k) == (k == h), patterns=[bit(self.atom(h), k)]))
        path.assume(ForAll([h], self.atom(h) >= 0, patterns=[self.atom(h)]))

    def iterv(self, tag):
        return IterV(lambda k: IntV(self.atom(self.pos(k)), tag), self.len, 'atomic')


def neighbors_setup(C, path, A):
    """Shared by lindig.neighbors and its callers: the iterable, LStar, and the Objects class object."""
    LStar = Function('LStar', I, I, BoolSort())
    at = Atomic(C, bnot(A), path, C.n)
    Objects = lib.bitset_class(C, 'Objects')
    dp = C.closure_funcs()[('Objects', 'doubleprime')]

    def doubleprime(p, args, kw):
        r = dp.fn(p, args, kw)
        p.ghost['doubleprime.call'] = (args[0], r)      # roles by data flow (robust against renamed locals)
        return r
    Objects.fields['doubleprime'] = FuncV(dp.name, doubleprime)
    Objects.fields['atomic'] = FuncV('Objects.atomic', lambda p, args, kw: at.iterv('Objects'))
    return LStar, at, Objects


def _neighbors_unit():
    def make():
        C = Ctx()

        def harness(path):
            A = Int('objects0')
            path.assume(And(C.is_objset(A), C.Cl(A) == A))
            LStar, at, Objects = neighbors_setup(C, path, A)
            env = {'objects': IntV(A, 'Objects'), 'Objects': Objects}
            h = Int('h')

            # role `minimal`: the only int variable modified in the loop body (read off the real AST)
            import ast as _ast
            from pyvc import extract as _x
            _fn = _x.get_function('concepts/algorithms/lindig.py', 'neighbors').node
            _loop = [n for n in _ast.walk(_fn) if isinstance(n, _ast.For)][0]
            # = assigned in the loop (by `x op= e` or `x = e`) and bound before it: locals introduced inside the body are not loop state
            def _targets(nodes):
                out = set()
                for n in nodes:
                    for m in _ast.walk(n):
                        if isinstance(m, _ast.AugAssign) and isinstance(m.target, _ast.Name):
                            out.add(m.target.id)
                        elif isinstance(m, _ast.Assign):
                            out |= {t.id for t in m.targets if isinstance(t, _ast.Name)}
                return out
            _before = []
            for _st in _fn.body:
                if _st is _loop:
                    break
                _before.append(_st)
            _mods = sorted(_targets(_loop.body) & _targets(_before))
            if len(_mods) != 1:
                from pyvc.engine import Unsupported
                raise Unsupported('expected exactly one variable bound before the loop of neighbors and assigned in it (the candidate mask)')
            path.ghost['minimal.term'] = lambda e, _n=_mods[0]: getattr(e, _n)

            def inv(e, k):
                minimal = path.ghost['minimal.term'](e)
                return [('minimal', ForAll([h], Implies(And(0 <= h, h < C.n),
                                                        bit(minimal, h) == And(Not(bit(A, h)),
                                                                               Or(at.rank(h) >= k, LStar(A, h)))),
                                           patterns=[bit(minimal, h)]))]
            spec = LoopSpec(inv)

            def yields(e, k):
                g = at.pos(k)
                AG = bor(A, at.atom(g))
                return LStar(A, g), TupleV([IntV(C.Cl(AG), 'Objects'), IntV(C.Up(AG), 'Properties')])
            spec.yields = yields

            def use_lindig(p, e):
                # use lemma L-LINDIG(A, g, minimal) -- lemmas/Lindig.lean: lindig_step -- before the `if`
                gi = at.pos(p.ghost['k'])
                # roles: AG = the argument of this iteration's doubleprime call, E = the first component of its result
                arg, res = p.ghost['doubleprime.call']
                AG, E = arg.t, res.items[0].t
                minimal = p.ghost['minimal.term'](e)
                p.oblige('lemma.use/L-LINDIG/closed', 'lemma.use', C.Cl(A) == A)
                p.oblige('lemma.use/L-LINDIG/g-not-in-A', 'lemma.use', And(0 <= gi, gi < C.n, Not(bit(A, gi))))
                p.oblige('lemma.use/L-LINDIG/AG', 'lemma.use',
                         ForAll([h], bit(AG, h) == Or(bit(A, h), h == gi), patterns=[bit(AG, h)]))
                p.oblige('lemma.use/L-LINDIG/E', 'lemma.use', E == C.Cl(AG))
                p.oblige('lemma.use/L-LINDIG/hmin', 'lemma.use',
                         ForAll([h], Implies(And(0 <= h, h < C.n),
                                             bit(minimal, h) == And(Not(bit(A, h)), Or(h >= gi, LStar(A, h)))),
                                patterns=[bit(minimal, h)]))
                none_in_min = ForAll([h], Implies(And(0 <= h, h < C.n),
                                                  Not(And(bit(E, h), Not(bit(AG, h)), bit(minimal, h)))),
                                     patterns=[bit(E, h)])
                p.assume(none_in_min == LStar(A, gi))

            loops = {'int_methods': lib.int_methods(C), 'globals': lib.builtins(), 0: spec,
                     'before': {'If#0': use_lindig}}
            # (the hook is attached to the first `if` of the body whichever way round its branches are written)
            return env, loops, finish

        def finish(path, env, outcome):
            if outcome[0] != 'return':
                path.oblige('post/no-exception', 'post', BoolVal(False))
                return
            # nothing is yielded outside the loop (the loop's yields are pinned by the yields clause)
            path.oblige('post/only-loop-yields', 'post', BoolVal(len(path.out) == 0))
        return C.axioms(), harness
    return make


register(Unit('lindig.neighbors', 'concepts/algorithms/lindig.py', 'neighbors', _neighbors_unit(),
              assumptions=['requires: objects is an extent (call sites: lattice() passes popped extents, Context.neighbors passes .double())',
                           'bitsets contract: Objects.atomic(b) = atoms of the domain meeting b, ascending, evaluated once',
                           'lemma L-LINDIG proved in Lean (lemmas/Lindig.lean: lindig_step, exists_cov_le, cov_gen); SMT<->Lean transcription by hand',
                           'contract of Objects.doubleprime proved in unit matrices.doubleprime'],
              linkage=[('concepts.algorithms.lindig.neighbors', None), ('concepts.algorithms.neighbors', None)]))


# =============================================================================================
# lindig.lattice -- the worklist (C03, C05, C06; DESIGN section C03)

def _lattice_unit():
    """Abstract state (extents are natural numbers; one tuple per extent, shared by mapping and heap):
         D   extents in `mapping`;  H extents in the heap;  Pr extents already yielded
         U(e,f)   f is in the upper list of e's tuple;   Lo(f,e)  e is in the lower list of f's tuple
       requires infimum = ()  (what Context.lattice passes); e0 = Cl(0)
       outer invariant
         J1  D(e) -> is_extent(e)            J2  D(e0)              J3  D = Pr + H (disjoint)
         J4  Pr(e) /\\ cover(e,f) -> D(f)      J5  Pr(e) /\\ H(h) -> rk(e) < rk(h)
         J6  Pr(e) -> (U(e,f) <-> cover(e,f));   not Pr(e) -> not U(e,f)
         J7  D(f) -> (Lo(f,e) <-> Pr(e) /\\ cover(e,f));   not D(f) -> not Lo(f,e)
       yields: the tuple of the popped extent, whose rank is greater than that of everything yielded before
       exit (H empty): D = Pr contains e0 and is closed under covers => D = Ext by L-WORKLIST (lemmas/Worklist.lean);
         U(e,.) = upper covers, Lo(f,.) = lower covers for every extent."""
    from z3 import BoolSort
    B = BoolSort()

    def make():
        C = Ctx()
        cover = Function('cover', I, I, B)
        rk = Function('rk', I, I)                 # shortlex rank (bitsets contract: the key realises shortlex)
        nb_len = Function('nb.len', I, I)
        nb_E = Function('nb.E', I, I, I)
        nrank = Function('nb.rank', I, I, I)
        e, f, t = Ints('e f t')
        isext = lambda x: And(C.is_objset(x), C.Cl(x) == x)
        axioms = C.axioms() + [
            # contract of lindig.neighbors (unit lindig.neighbors + lemmas/Lindig.lean: cover_unique_gen): for an extent e the
            # yielded extents nb.E(e, 0..len-1) are exactly the upper covers of e, each once
            ('nb.iter', ForAll([e, t], Implies(And(isext(e), 0 <= t, t < nb_len(e)), And(cover(e, nb_E(e, t)), nrank(e, nb_E(e, t)) == t)),
                               patterns=[nb_E(e, t)])),
            ('nb.onto', ForAll([e, f], Implies(And(isext(e), cover(e, f)), And(0 <= nrank(e, f), nrank(e, f) < nb_len(e), nb_E(e, nrank(e, f)) == f)),
                               patterns=[cover(e, f)])),
            ('nb.len', ForAll([e], nb_len(e) >= 0, patterns=[nb_len(e)])),
            # covers are extents strictly above; the shortlex rank is strictly monotone on strict inclusion (L-SLEX) and injective
            ('cover.ext', ForAll([e, f], Implies(cover(e, f), And(isext(f), rk(e) < rk(f))), patterns=[cover(e, f)])),
            ('rk.inj', ForAll([e, f], Implies(And(isext(e), isext(f), rk(e) == rk(f)), e == f), patterns=[MultiPattern(rk(e), rk(f))])),
        ]

        def harness(path):
            cnt = path.eng.counter

            def fs(name, n=1):
                return Function('%s!%d' % (name, next(cnt)), *([I] * n + [B]))
            G = path.ghost
            e0 = C.Cl(IntVal0())
            st = {'D': None, 'H': None, 'Pr': fs('Pr'), 'U': fs('U', 2), 'Lo': fs('Lo', 2)}
            path.assume(ForAll([e], Not(st['Pr'](e)), patterns=[st['Pr'](e)]))
            path.assume(ForAll([e, f], Not(st['U'](e, f)), patterns=[st['U'](e, f)]))
            from contracts.lemmas_z3 import Side, use_galois
            use_galois(path, Side(C, 'O'), IntVal0())

            class Handle(ListV):
                """the upper / lower list inside the tuple of extent `key`"""
                def __init__(self, kind, key):
                    ListV.__init__(self, [])
                    self.kind, self.key = kind, key

            def tuple_of(key):
                tv = TupleV([IntV(key, 'Objects'), IntV(C.Up(key), 'Properties'), Handle('U', key), Handle('Lo', key)])
                tv.key = key
                return tv

            def handle_append(h, x):
                rel = 'U' if h.kind == 'U' else 'Lo'
                old = st[rel]
                new = fs(rel, 2)
                path.assume(ForAll([e, f], new(e, f) == Or(And(e == h.key, f == x.t), old(e, f)), patterns=[new(e, f), old(e, f)]))
                st[rel] = new

            # list.append on handles is intercepted through getattr of ListV: patch by subclass method lookup in engine -> use FuncV
            def dict_factory(p, items):
                ((k, v),) = items
                ok = isinstance(k, IntV) and isinstance(v, TupleV) and len(v.items) == 4 and v.items[0] is k \
                    and isinstance(v.items[2], ListV) and isinstance(v.items[3], ListV) and not v.items[2].items and not v.items[3].items \
                    and v.items[2] is not v.items[3]
                p.oblige('init/mapping-entry', 'post', And(BoolVal(ok), k.t == e0, v.items[1].t == C.Up(e0)) if ok else BoolVal(False))
                D0 = fs('D')
                p.assume(ForAll([e], D0(e) == (e == e0), patterns=[D0(e)]))
                st['D'] = D0
                Lo0 = fs('Lo', 2)
                p.assume(ForAll([e, f], Not(Lo0(e, f)), patterns=[Lo0(e, f)]))
                st['Lo'] = Lo0
                G['first_tuple'] = v
                return mapping
            mapping = ObjV('dict', {}, name='mapping')

            def m_contains(p, args, kw):
                return BoolV(st['D'](args[-1].t))

            def m_get(p, args, kw):
                k = args[-1]
                lib.key_present(p, 'key@mapping', st['D'](k.t))      # present, or the code catches the KeyError (then: both cases)
                return tuple_of(k.t)

            def m_set(p, args, kw):
                _, k, v = args
                ok = isinstance(v, TupleV) and len(v.items) == 4 and isinstance(v.items[2], ListV) and isinstance(v.items[3], ListV) \
                    and v.items[2] is not v.items[3] and not v.items[2].items and len(v.items[3].items) == 1
                p.oblige('mapping-store/tuple-shape', 'post',
                         And(v.items[0].t == k.t, v.items[1].t == C.Up(k.t)) if ok else BoolVal(False))
                if not ok:
                    return NONE
                D2, Lo2 = fs('D'), fs('Lo', 2)
                p.assume(ForAll([e], D2(e) == Or(e == k.t, st['D'](e)), patterns=[D2(e), st['D'](e)]))
                x = v.items[3].items[0]
                p.assume(ForAll([e, f], Lo2(e, f) == Or(And(e == k.t, f == x.t), st['Lo'](e, f)), patterns=[Lo2(e, f), st['Lo'](e, f)]))
                st['D'], st['Lo'] = D2, Lo2
                G['stored'] = (k, v)
                return NONE
            for nm, fn in (('__contains__', m_contains), ('__getitem__', m_get), ('__setitem__', m_set)):
                mapping.fields[nm] = FuncV('dict.' + nm, fn)

            heap_abs = ObjV('heap', {}, name='heap')

            def heap_truth():
                w = path.fresh_int('hw')
                ne = path.fresh_bool('heap.nonempty')
                H = st['H']
                path.assume(Implies(ne, H(w)))
                path.assume(Implies(Not(ne), ForAll([e], Not(H(e)), patterns=[H(e)])))
                return ne
            heap_abs.truth_fn = heap_truth

            def heappush(p, args, kw):
                h, it = args
                ok = isinstance(it, TupleV) and len(it.items) == 2 and isinstance(it.items[0], IntV) and isinstance(it.items[1], TupleV)
                p.oblige('heappush/pair-shape', 'pre@call', BoolVal(ok))
                if not ok:
                    return NONE
                key, tup = it.items
                stored = G.get('stored')
                # the heap entry is (shortlex key of the extent, THE tuple just stored in mapping) -- mapping and heap share it
                shared = stored is not None and tup is stored[1]
                p.oblige('heappush/shares-the-mapping-tuple', 'pre@call',
                         And(BoolVal(shared), key.t == rk(tup.items[0].t), BoolVal(key.tag == 'Key')) if shared else BoolVal(False))
                H2 = fs('H')
                p.assume(ForAll([e], H2(e) == Or(e == tup.items[0].t, st['H'](e)), patterns=[H2(e), st['H'](e)]))
                st['H'] = H2
                return NONE

            def heappop(p, args, kw):
                H = st['H']
                m = p.fresh_int('m')
                p.assume(And(H(m), ForAll([e], Implies(H(e), rk(m) <= rk(e)), patterns=[H(e)])))
                H2 = fs('H')
                # keys in the heap are pairwise distinct (one entry per extent): the popped extent is gone
                p.assume(ForAll([e], H2(e) == And(e != m, H(e)), patterns=[H2(e), H(e)]))
                st['H'] = H2
                G['current'] = m
                return TupleV([IntV(rk(m), 'Key'), tuple_of(m)])
            functools = ObjV('module', {'partial': FuncV('functools.partial', lambda p, a, k: FuncV(
                'partial', lambda p2, a2, k2, _f=a[0], _r=a[1:]: _f.fn(p2, list(_r) + list(a2), k2)))}, name='functools')
            heapq = ObjV('module', {'heappush': FuncV('heappush', heappush), 'heappop': FuncV('heappop', heappop)}, name='heapq')

            def neighbors(p, args, kw):
                (x,) = args
                p.oblige('pre@neighbors/extent', 'pre@call', isext(x.t))
                p.oblige('pre@neighbors/Objects', 'pre@call', BoolVal(set(kw) == {'Objects'} and kw['Objects'] is Objects))
                return IterV(lambda tt: TupleV([IntV(nb_E(x.t, tt), 'Objects'), IntV(C.Up(nb_E(x.t, tt)), 'Properties')]),
                             nb_len(x.t), 'neighbors')
            Objects = lib.bitset_class(C, 'Objects')
            meths = lib.int_methods(C)
            meths[('Objects', 'shortlex')] = FuncV('shortlex', lambda p, a, k: IntV(rk(a[0].t), 'Key'))

            def J(st_, cur=None, upto=None):
                """the invariant; inside the inner loop `cur` is the extent being processed and `upto` the number of its
                neighbours handled so far"""
                D, H, Pr, U, Lo = st_['D'], st_['H'], st_['Pr'], st_['U'], st_['Lo']
                done = (lambda a, b: Pr(a)) if cur is None else (lambda a, b: Or(Pr(a), And(a == cur, nrank(cur, b) < upto)))
                out = [
                    ('J1', ForAll([e], Implies(D(e), isext(e)), patterns=[D(e)])),
                    ('J2', D(e0)),
                    ('J3', ForAll([e], And(D(e) == Or(Pr(e), H(e), (e == cur) if cur is not None else False), Not(And(Pr(e), H(e)))),
                                  patterns=[D(e), Pr(e), H(e)])),
                    ('J4', ForAll([e, f], Implies(And(cover(e, f), done(e, f)), D(f)), patterns=[cover(e, f)])),
                    ('J5', ForAll([e, f], Implies(And(Pr(e), H(f)), rk(e) < rk(f)), patterns=[MultiPattern(Pr(e), H(f))])),
                    ('J6', ForAll([e, f], U(e, f) == And(cover(e, f), done(e, f)), patterns=[U(e, f), cover(e, f)])),
                    ('J7', ForAll([e, f], Lo(f, e) == And(cover(e, f), done(e, f)), patterns=[Lo(f, e), cover(e, f)])),
                ]
                if cur is not None:
                    out.append(('J8', And(isext(cur), Not(Pr(cur)), Not(H(cur)),
                                          ForAll([e], Implies(Pr(e), rk(e) < rk(cur)), patterns=[Pr(e)]),
                                          ForAll([e], Implies(H(e), Or(rk(cur) < rk(e))), patterns=[H(e)]))))
                return out

            def outer_inv(en):
                hv = en.val('heap')
                if isinstance(hv, ListV):
                    # before the loop: the concrete one-element heap list
                    ok = len(hv.items) == 1 and isinstance(hv.items[0], TupleV) and len(hv.items[0].items) == 2 \
                        and hv.items[0].items[1] is G.get('first_tuple')
                    H0 = fs('H')
                    path.assume(ForAll([e], H0(e) == (e == e0), patterns=[H0(e)]))
                    st['H'] = H0
                    return [('heap-init', And(BoolVal(ok), hv.items[0].items[0].t == rk(e0)) if ok else BoolVal(False))] + J(st)
                return J(st)

            def havoc_state(p, env_):
                st.update({'D': fs('D'), 'H': fs('H'), 'Pr': fs('Pr'), 'U': fs('U', 2), 'Lo': fs('Lo', 2)})
            outer = LoopSpec(outer_inv, ghost_havoc=havoc_state)
            outer.modifies = ['heap']

            def inner_inv(en, k):
                return J(st, G['current'], k)
            inner = LoopSpec(inner_inv, ghost_havoc=lambda p, env_: st.update({'D': fs('D'), 'H': fs('H'), 'U': fs('U', 2), 'Lo': fs('Lo', 2)}))

            def on_yield(p, env_, val):
                m = G['current']
                ok = isinstance(val, TupleV) and getattr(val, 'key', None) is not None
                p.oblige('yield/tuple-of-the-popped-extent', 'yield', (val.key == m) if ok else BoolVal(False))
                # canonical order: strictly greater shortlex rank than everything yielded before (hence no repeats)
                p.oblige('yield/strictly-increasing-shortlex', 'yield',
                         ForAll([e], Implies(st['Pr'](e), rk(e) < rk(m)), patterns=[st['Pr'](e)]))
                Pr2 = fs('Pr')
                p.assume(ForAll([e], Pr2(e) == Or(e == m, st['Pr'](e)), patterns=[Pr2(e), st['Pr'](e)]))
                st['Pr'] = Pr2

            def list_append_hook(h, x):
                if isinstance(h, Handle):
                    handle_append(h, x)
                    return True
                return False
            G['list_append_hook'] = list_append_hook

            def finish(path, env_, outcome):
                if outcome[0] != 'return':
                    path.oblige('post/no-exception', 'post', BoolVal(False))
                    return
                D, Pr, U, Lo = st['D'], st['Pr'], st['U'], st['Lo']
                # use lemma L-WORKLIST (lemmas/Worklist.lean: worklist_complete) with S = D
                path.oblige('lemma.use/L-WORKLIST/closed-sets', 'lemma.use', ForAll([e], Implies(D(e), isext(e)), patterns=[D(e)]))
                path.oblige('lemma.use/L-WORKLIST/least', 'lemma.use', D(e0))
                path.oblige('lemma.use/L-WORKLIST/closed-under-covers', 'lemma.use',
                            ForAll([e, f], Implies(And(D(e), cover(e, f)), D(f)), patterns=[cover(e, f)]))
                path.assume(ForAll([e], Implies(isext(e), D(e)), patterns=[D(e)]))
                path.oblige('post/yields-exactly-the-extents', 'post', ForAll([e], Pr(e) == isext(e), patterns=[Pr(e)]))
                path.oblige('post/upper-lists-are-the-upper-covers', 'post',
                            ForAll([e, f], U(e, f) == And(isext(e), cover(e, f)), patterns=[U(e, f), cover(e, f)]))
                path.oblige('post/lower-lists-are-the-lower-covers', 'post',
                            ForAll([e, f], Lo(f, e) == And(isext(e), cover(e, f)), patterns=[Lo(f, e), cover(e, f)]))
            loops = {'int_methods': meths, 'globals': dict(lib.builtins(), functools=functools, heapq=heapq, neighbors=FuncV('neighbors', neighbors)),
                     0: outer, 1: inner, 'on_yield': on_yield, 'dict_factory': dict_factory,
                     'havoc_heap': lambda p, cur: heap_abs,
                     # `concept`, `neighbor` are re-assigned before use in every iteration
                     'havoc_concept': lambda p, cur: NONE, 'havoc_neighbor': lambda p, cur: NONE, 'havoc_upper': lambda p, cur: NONE}
            return {'Objects': Objects, 'infimum': TupleV([])}, loops, finish
        return axioms, harness
    return make


def IntVal0():
    from z3 import IntVal
    return IntVal(0)


register(Unit('lindig.lattice', 'concepts/algorithms/lindig.py', 'lattice', _lattice_unit(),
              assumptions=['requires infimum = () (what Context.lattice passes)',
                           'contract of lindig.neighbors (unit lindig.neighbors + lemmas/Lindig.lean: cover_unique_gen)',
                           'cover(e,f) implies f is an extent with greater shortlex rank (L-SLEX); bitsets shortlex() keys realise an injective rank',
                           'heapq contract (one entry per extent: keys pairwise distinct, so tuple comparison never reaches the tuples)',
                           'lemma L-WORKLIST proved in Lean (lemmas/Worklist.lean: worklist_complete)',
                           'A-GEN: consumers that collect the generator see the lists after exhaustion; termination not proved'],
              linkage=[('concepts.algorithms.lindig.lattice', None), ('concepts.algorithms.lattice', None)]))
