"""Contracts for concepts/algorithms/lindig.py: neighbors (the Lindig step, DESIGN 5.4).

  requires  A := objects is an extent of the context
  iterable  Objects.atomic(~A): the atoms 2^g for g < n with g not in A, ascending (bitsets contract, evaluated once)
  invariant (ghost index k, g_k = k-th such g):
      forall h < n.  bit(minimal,h)  <->  h not in A  /\  (rank(h) >= k  \/  LStar(A,h))
  yields    iteration k yields (Cl(A+g_k), Up(A+g_k))  iff  LStar(A, g_k)
  lemma     L-LINDIG (lemmas/Lindig.lean, theorem lindig_step), used as an explicit instance before the `if`:
      [forall h<n. h in minimal <-> h notin A /\ (g <= h \/ LStar(A,h))]
         ->  ( (Cl(A+g) \ (A+g)) /\ minimal = {}   <->   LStar(A,g) )
  where LStar(A,h) := "Cl(A+h) is an upper cover of A and h is the greatest element of Cl(A+h) \ A".
  Corollary (lemmas/Lindig.lean, theorem cover_unique_gen): g |-> Cl(A+g) is a bijection from {g | LStar(A,g)} onto the
  upper covers of A -- hence the yielded pairs are exactly the upper covers of A, each once.
"""
from z3 import And, BoolSort, BoolVal, ForAll, Function, Implies, Int, IntSort, Ints, MultiPattern, Not, Or

from pyvc.bits import bit, band, bor, bnot
from pyvc.engine import FuncV, IntV, IterV, LoopSpec, ObjV, TupleV
from contracts import lib
from contracts.ctxtheory import Ctx
from contracts.registry import Unit, register

I = IntSort()


class Atomic:
    """bitsets contract of Objects.atomic(b): atoms of the domain that meet b, ascending."""

    def __init__(self, C, b, path, width):
        self.len = Int('atomic.len')
        self.pos = Function('atomic.pos', I, I)      # k-th index g
        self.rank = Function('atomic.rank', I, I)    # inverse
        self.atom = Function('atomv', I, I)          # 2^g
        k, h, h2 = Ints('k h h2')
        path.assume(self.len >= 0)
        path.assume(ForAll([k], Implies(And(0 <= k, k < self.len),
                                        And(0 <= self.pos(k), self.pos(k) < width, bit(b, self.pos(k)),
                                            self.rank(self.pos(k)) == k)), patterns=[self.pos(k)]))
        path.assume(ForAll([h], Implies(And(0 <= h, h < width, bit(b, h)),
                                        And(0 <= self.rank(h), self.rank(h) < self.len, self.pos(self.rank(h)) == h)),
                           patterns=[self.rank(h)]))
        path.assume(ForAll([h, h2], Implies(And(0 <= h, h < width, bit(b, h), 0 <= h2, h2 < width, bit(b, h2)),
                                            (h < h2) == (self.rank(h) < self.rank(h2))),
                           patterns=[MultiPattern(self.rank(h), self.rank(h2))]))
        path.assume(ForAll([h, k], bit(self.atom(h), k) == (k == h), patterns=[bit(self.atom(h), k)]))
        path.assume(ForAll([h], self.atom(h) >= 0, patterns=[self.atom(h)]))

    def iterv(self, tag):
        return IterV(lambda k: IntV(self.atom(self.pos(k)), tag), self.len, 'atomic')


def neighbors_setup(C, path, A):
    """Shared by lindig.neighbors and its callers: the iterable, LStar, and the Objects class object."""
    LStar = Function('LStar', I, I, BoolSort())
    at = Atomic(C, bnot(A), path, C.n)
    Objects = lib.bitset_class(C, 'Objects')
    Objects.fields['doubleprime'] = C.closure_funcs()[('Objects', 'doubleprime')]
    Objects.fields['atomic'] = FuncV('Objects.atomic', lambda p, args, kw: at.iterv('Objects'))
    return LStar, at, Objects


def _neighbors_unit():
    def make():
        C = Ctx()

        def harness(path):
            A = Int('objects0')
            path.assume(And(C.is_objset(A), C.Cl(A) == A))
            LStar, at, Objects = neighbors_setup(C, path, A)
            env = {'objects': IntV(A, 'Objects'), 'Objects': Objects}
            h = Int('h')

            def inv(e, k):
                return [('minimal', ForAll([h], Implies(And(0 <= h, h < C.n),
                                                        bit(e.minimal, h) == And(Not(bit(A, h)),
                                                                                 Or(at.rank(h) >= k, LStar(A, h)))),
                                           patterns=[bit(e.minimal, h)]))]
            spec = LoopSpec(inv)

            def yields(e, k):
                g = at.pos(k)
                AG = bor(A, at.atom(g))
                return LStar(A, g), TupleV([IntV(C.Cl(AG), 'Objects'), IntV(C.Up(AG), 'Properties')])
            spec.yields = yields

            def use_lindig(p, e):
                # use lemma L-LINDIG(A, g, minimal) -- lemmas/Lindig.lean: lindig_step -- before the `if`
                gi = at.pos(p.ghost['k'])
                AG = e.objects_and_add
                E = e.extent
                p.oblige('lemma.use/L-LINDIG/closed', 'lemma.use', C.Cl(A) == A)
                p.oblige('lemma.use/L-LINDIG/g-not-in-A', 'lemma.use', And(0 <= gi, gi < C.n, Not(bit(A, gi))))
                p.oblige('lemma.use/L-LINDIG/AG', 'lemma.use',
                         ForAll([h], bit(AG, h) == Or(bit(A, h), h == gi), patterns=[bit(AG, h)]))
                p.oblige('lemma.use/L-LINDIG/E', 'lemma.use', E == C.Cl(AG))
                p.oblige('lemma.use/L-LINDIG/hmin', 'lemma.use',
                         ForAll([h], Implies(And(0 <= h, h < C.n),
                                             bit(e.minimal, h) == And(Not(bit(A, h)), Or(h >= gi, LStar(A, h)))),
                                patterns=[bit(e.minimal, h)]))
                none_in_min = ForAll([h], Implies(And(0 <= h, h < C.n),
                                                  Not(And(bit(E, h), Not(bit(AG, h)), bit(e.minimal, h)))),
                                     patterns=[bit(E, h)])
                p.assume(none_in_min == LStar(A, gi))

            loops = {'int_methods': lib.int_methods(C), 'globals': lib.builtins(), 0: spec,
                     'before': {'If#0': use_lindig}}
            return env, loops, finish

        def finish(path, env, outcome):
            if outcome[0] != 'return':
                path.oblige('post/no-exception', 'post', BoolVal(False))
                return
            # nothing is yielded outside the loop (the loop's yields are pinned by the yields clause)
            path.oblige('post/only-loop-yields', 'post', BoolVal(len(path.out) == 0))
        return C.axioms(), harness
    return make


register(Unit('lindig.neighbors', 'concepts/algorithms/lindig.py', 'neighbors', _neighbors_unit(),
              assumptions=['requires: objects is an extent (call sites: lattice() passes popped extents, Context.neighbors passes .double())',
                           'bitsets contract: Objects.atomic(b) = atoms of the domain meeting b, ascending, evaluated once',
                           'lemma L-LINDIG proved in Lean (lemmas/Lindig.lean: lindig_step, exists_cov_le, cov_gen); SMT<->Lean transcription by hand',
                           'contract of Objects.doubleprime proved in unit matrices.doubleprime'],
              linkage=[('concepts.algorithms.lindig.neighbors', None), ('concepts.algorithms.neighbors', None)]))
