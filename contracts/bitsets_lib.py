"""Contracts for the third-party package `bitsets` (0.8.4, pure Python, the copy installed for the interpreter that runs the
library): the library contracts the other units ASSUME are proved here from the package's own source, which is put under
PyVC like repository code (path `ABS:<site-packages>/bitsets/...`, linkage checked against the live functions).

  integers.indexes (= MemberBits.iter_set)      yields exactly the positions of the set bits, ascending
  MemberBits.bools                              the tuple of membership booleans, one per domain position
  MemberBits.atoms / inatoms, Meta.atomic / inatomic     the atoms 2^k of the members / non-members, ascending (descending with reverse)
  Meta.reduce_and / reduce_or                   intersection / union of the given bitsets (supremum / infimum for none)
  Meta.__init__                                 _len, _atoms = (2^0 .. 2^(len-1)), infimum = 0, supremum = 2^len - 1, _map = member -> atom
  MemberBits.members                            the labels at the positions `_indexes()` yields
  Series.bools / index_sets / frombools / frommembers     element-wise maps
  integers.reinverted                           the natural with bit (r-1-k) = not bit(n, k) for k < r  (the tie-break part of the shortlex key)
Through the text bin(x): contracts/bitsets_bin.py (count, indexes_optimized, bits; the first component of the shortlex / longlex keys below).
Still assumed (C level): itertools.compress, filter, map; that CPython's bin / format / slicing / str.count compute the definitions of lemmas/BitsBin.lean
(validated by pyvc/bintext.py, never proved).  Sum of pairwise distinct atoms = their union: Lean, lemmas/Bits.lean sum_two_pow_testBit.
"""
import os

from z3 import And, BoolSort, BoolVal, ForAll, Function, If, Implies, Int, IntSort, IntVal, Ints, MultiPattern, Not, Or

from pyvc import bits
from pyvc.bits import atomv, band, bit, bnot, bor, shr
from pyvc.engine import BoolV, FilterV, FuncV, IntV, IterV, LoopSpec, NONE, ObjV, SeqV, TupleV, Unsupported, truthy
from contracts import lib
from contracts.registry import Unit, register

I = IntSort()
B = BoolSort()


def site_file(name):
    for base in ('/venv/lib/python3.12/site-packages/bitsets',):
        p = os.path.join(base, name)
        if os.path.exists(p):
            return 'ABS:' + p
    return None


INTEGERS, BASES, META, SERIES = (site_file(n) for n in ('integers.py', 'bases.py', 'meta.py', 'series.py'))
LINK = '__import__("bitsets").'


def _unit(body, axioms=None):
    def make():
        def harness(path):
            env, loops, finish = body(path)
            loops = dict(loops)
            loops.setdefault('globals', lib.builtins())
            return env, loops, finish
        return (axioms or bits.axioms)(), harness
    return make


# ---------------------------------------------------------------------------------------------------------------------
# integers.indexes

def _indexes(path):
    n0 = Int('n0')
    path.assume(n0 >= 0)          # requires a natural (bitsets are naturals; a negative int would never reach 0)
    k = Int('k')
    cnt = path.eng.counter
    st = {'Y': Function('Y!%d' % next(cnt), I, B)}
    path.assume(ForAll([k], Not(st['Y'](k)), patterns=[st['Y'](k)]))

    def inv(e):
        Y = st['Y']
        return [('i-nonneg', e.i >= 0), ('n-nonneg', e.n >= 0),
                ('n-is-n0-shifted', ForAll([k], Implies(k >= 0, bit(e.n, k) == bit(n0, k + e.i)), patterns=[bit(e.n, k)])),
                ('n-is-n0-shifted-back', ForAll([k], Implies(k >= e.i, bit(n0, k) == bit(e.n, k - e.i)), patterns=[bit(n0, k)])),
                ('yielded-so-far', ForAll([k], Y(k) == And(0 <= k, k < e.i, bit(n0, k)), patterns=[Y(k)]))]
    spec = LoopSpec(inv, decreases=lambda e: e.n, ghost_havoc=lambda p, env: st.update(Y=Function('Y!%d' % next(cnt), I, B)))

    def on_yield(p, env, val):
        Y = st['Y']
        ok = isinstance(val, IntV)
        p.oblige('yield/position-of-a-set-bit', 'yield', And(val.t >= 0, bit(n0, val.t)) if ok else BoolVal(False))
        p.oblige('yield/ascending', 'yield', ForAll([k], Implies(Y(k), k < val.t), patterns=[Y(k)]) if ok else BoolVal(False))
        Y2 = Function('Y!%d' % next(cnt), I, B)
        p.assume(ForAll([k], Y2(k) == Or(k == val.t, Y(k)), patterns=[Y2(k), Y(k)]))
        st['Y'] = Y2

    def finish(path, env, outcome):
        if outcome[0] != 'return':
            path.oblige('post/no-exception', 'post', BoolVal(False))
            return
        Y = st['Y']
        path.oblige('post/yields-exactly-the-set-bits', 'post', ForAll([k], Y(k) == bit(n0, k), patterns=[Y(k), bit(n0, k)]))
    return {'n': IntV(n0)}, {0: spec, 'on_yield': on_yield}, finish


if INTEGERS:
    register(Unit('bitsets.integers.indexes', INTEGERS, 'indexes', _unit(_indexes),
                  assumptions=['requires n >= 0', 'BITS theory (n & 1, n >>= 1)'],
                  linkage=[(LINK + 'integers.indexes', None), (LINK + 'bases.MemberBits.iter_set', None)]))


# ---------------------------------------------------------------------------------------------------------------------
# a bitset value `self` of a class with _len = W, _atoms = (2^0, ..., 2^(W-1))

def _class_env(path, tag='Bits'):
    W = Int('W')
    path.assume(W >= 0)
    x = Int('self0')
    k = Int('k')
    path.assume(And(x >= 0, ForAll([k], Implies(bit(x, k), k < W), patterns=[bit(x, k)])))
    atoms = SeqV(lambda t: IntV(atomv(t), tag), W, '_atoms')
    meths = {
        (tag, '_atoms'): _prop(lambda p, a, kw: atoms),
        (tag, '__and__'): FuncV('int.__and__', lambda p, a, kw: IntV(band(a[0].t, a[1].t), tag)),
    }
    return W, x, atoms, meths


def _prop(fn):
    f = FuncV('property', fn)
    f.is_property = True
    return f


def _bools(path):
    W, x, atoms, meths = _class_env(path)

    def finish(path, env, outcome):
        if outcome[0] != 'return':
            path.oblige('post/no-exception', 'post', BoolVal(False))
            return
        r = outcome[1]
        ok = isinstance(r, (SeqV, IterV))
        path.oblige('post/one-boolean-per-domain-position', 'post', (r.length == W) if ok else BoolVal(False))
        if ok:
            t = path.fresh_int('t')
            n0 = len(path.pc)
            path.pc.append(And(0 <= t, t < W))
            el = r.at(t)
            path.oblige('post/membership', 'post', (truthy(el) == bit(x, t)) if isinstance(el, BoolV) else BoolVal(False))
            del path.pc[n0:]
    return {'self': IntV(x, 'Bits')}, {'int_methods': meths}, finish


def _filter(p, args, kw):
    f, it = args
    if isinstance(it, ObjV) and '__iter__' in it.fields:
        it = it.fields['__iter__'].fn(p, [it], {})
    if not isinstance(it, (SeqV, IterV)):
        raise Unsupported('filter over %r' % (it,))
    return FilterV(it, lambda t: p.truth(f.fn(p, [it.at(t)], {})), lambda t: it.at(t))


def _filterfalse(p, args, kw):
    f, it = args
    if not isinstance(it, (SeqV, IterV)):
        raise Unsupported('filterfalse over %r' % (it,))
    return FilterV(it, lambda t: Not(p.truth(f.fn(p, [it.at(t)], {}))), lambda t: it.at(t))


def _reversed(p, args, kw):
    (it,) = args
    if not isinstance(it, (SeqV, IterV)):
        raise Unsupported('reversed of %r' % (it,))
    return IterV(lambda t: it.at(it.length - 1 - t), it.length, 'reversed(%s)' % it.name)


def _atoms(which, meta):
    """atoms / inatoms (MemberBits, of self) and atomic / inatomic (metaclass, of the argument)"""
    member = which in ('atoms', 'atomic')

    def body(path):
        W, x, atoms, meths = _class_env(path)
        g = dict(lib.builtins(), filter=FuncV('filter', _filter), filterfalse=FuncV('filterfalse', _filterfalse), reversed=FuncV('reversed', _reversed))
        env = {}
        rev = None
        if meta:
            cls = ObjV('BitSetClass', {'_atoms': atoms}, name='self')
            env.update(self=cls, bitset=IntV(x, 'Bits'))
        else:
            rev = path.fresh_bool('reverse')
            env.update(self=IntV(x, 'Bits'), reverse=BoolV(rev))

        def finish(path, env_, outcome):
            if outcome[0] != 'return':
                path.oblige('post/no-exception', 'post', BoolVal(False))
                return
            r = outcome[1]
            ok = isinstance(r, FilterV) and isinstance(r.base, (SeqV, IterV))
            path.oblige('post/a-filter-of-the-class-atoms', 'post', (r.base.length == W) if ok else BoolVal(False))
            if not ok:
                return
            t = path.fresh_int('t')
            n0 = len(path.pc)
            path.pc.append(And(0 <= t, t < W))
            pos = t if (rev is None) else If(rev, W - 1 - t, t)
            el = r.elt(t)
            path.oblige('post/candidates-in-domain-order', 'post', (el.t == atomv(pos)) if isinstance(el, IntV) else BoolVal(False))
            c = r.cond(t)
            path.oblige('post/kept-iff-%smember' % ('' if member else 'non-'), 'post', c == (bit(x, pos) if member else Not(bit(x, pos))))
            del path.pc[n0:]
        return env, {'int_methods': meths, 'globals': g}, finish
    return body


if BASES and META:
    register(Unit('bitsets.MemberBits.bools', BASES, 'MemberBits.bools', _unit(_bools),
                  assumptions=['class invariant of a bitset class (unit bitsets.Meta.__init__): _atoms = (2^0 .. 2^(len-1)); self is a natural below 2^len'],
                  linkage=[(LINK + 'bases.MemberBits.bools', None)]))
    for _w in ('atoms', 'inatoms'):
        register(Unit('bitsets.MemberBits.' + _w, BASES, 'MemberBits.' + _w, _unit(_atoms(_w, False)),
                      assumptions=['class invariant of a bitset class (unit bitsets.Meta.__init__)', 'builtin filter / itertools.filterfalse / reversed'],
                      linkage=[(LINK + 'bases.MemberBits.' + _w, None)]))
    for _w in ('atomic', 'inatomic'):
        register(Unit('bitsets.Meta.' + _w, META, 'MemberBitsMeta.' + _w, _unit(_atoms(_w, True)),
                      assumptions=['class invariant of a bitset class (unit bitsets.Meta.__init__)', 'builtin filter / itertools.filterfalse'],
                      linkage=[(LINK + 'meta.MemberBitsMeta.' + _w, None)]))


# ---------------------------------------------------------------------------------------------------------------------
# MemberBitsMeta.reduce_and / reduce_or

def _reduce(which):
    def body(path):
        W = Int('W')
        path.assume(W >= 0)
        k, t = Ints('k t')
        n = Int('n')
        path.assume(n >= 0)
        el = Function('bitsets.at', I, I)
        path.assume(ForAll([t], Implies(And(0 <= t, t < n), el(t) >= 0), patterns=[el(t)]))
        sup = Int('supremum')
        path.assume(And(sup >= 0, ForAll([k], bit(sup, k) == And(0 <= k, k < W), patterns=[bit(sup, k)])))
        wit = Function('w.reduce', I, I, I)
        start = sup if which == 'and' else IntVal(0)

        def copyable(v):
            return FuncV('copy', lambda p, a, kw: a[0])
        meths = {('Bits', 'copy'): copyable(None)}
        cls = ObjV('BitSetClass', {'supremum': IntV(sup, 'Bits'), 'infimum': IntV(IntVal(0), 'Bits'),
                                   'frombitset': FuncV('fromint', lambda p, a, kw: IntV(a[-1].t, 'Bits'))}, name='self')
        seq = IterV(lambda tt: IntV(el(tt), 'Bits'), n, 'bitsets')
        var = 'inters' if which == 'and' else 'union'

        def spec(acc, upto):
            if which == 'and':
                return [('acc-nonneg', acc >= 0),
                        ('acc-bits', ForAll([k], Implies(bit(acc, k), And(0 <= k, k < W, ForAll([t], Implies(And(0 <= t, t < upto), bit(el(t), k)),
                                                                                                    patterns=[bit(el(t), k)]))), patterns=[bit(acc, k)])),
                        ('acc-bits-converse', ForAll([k], Implies(And(0 <= k, k < W, Not(bit(acc, k))),
                                                                  And(0 <= wit(k, upto), wit(k, upto) < upto, Not(bit(el(wit(k, upto)), k)))),
                                                     patterns=[bit(acc, k)]))]
            return [('acc-nonneg', acc >= 0),
                    ('acc-bits', ForAll([k], Implies(bit(acc, k), And(0 <= wit(k, upto), wit(k, upto) < upto, bit(el(wit(k, upto)), k))), patterns=[bit(acc, k)])),
                    ('acc-bits-converse', ForAll([k, t], Implies(And(0 <= t, t < upto, bit(el(t), k)), bit(acc, k)), patterns=[bit(el(t), k)]))]
        # the witness functions are skolem functions of the spec (existential side); they are given per `upto` by the prover:
        # upto+1 keeps the old witness unless the new element is the witness
        path.assume(ForAll([k, t], Implies(t >= 0, wit(k, t + 1) == If(
            (Not(bit(el(t), k)) if which == 'and' else bit(el(t), k)), t, wit(k, t))), patterns=[wit(k, t + 1)]))
        spec_ = LoopSpec(lambda e, kk: spec(getattr(e, var), kk))

        def finish(path, env, outcome):
            if outcome[0] != 'return':
                path.oblige('post/no-exception', 'post', BoolVal(False))
                return
            r = outcome[1]
            ok = isinstance(r, IntV)
            for nm, f in (spec(r.t, n) if ok else [('int', BoolVal(False))]):
                path.oblige('post/' + nm, 'post', f)
        return {'self': cls, 'bitsets': seq}, {0: spec_, 'int_methods': meths}, finish
    return body


if META:
    for _w in ('and', 'or'):
        register(Unit('bitsets.Meta.reduce_' + _w, META, 'MemberBitsMeta.reduce_' + _w, _unit(_reduce(_w)),
                      assumptions=['class invariant: supremum = 2^len - 1, infimum = 0; elements are naturals'],
                      linkage=[(LINK + 'meta.MemberBitsMeta.reduce_' + _w, None)]))


# ---------------------------------------------------------------------------------------------------------------------
# integers.reinverted(n, r): the tie-break component of the shortlex / longlex keys

def _reinverted(path):
    from pyvc.bits import tz, maskv, shl
    n0, r0 = Int('n0'), Int('r0')
    k = Int('k')
    # requires: n is a natural below 2^r, r >= 1 (a class with at least one member; r = 0 would shift by -1)
    path.assume(And(n0 >= 0, r0 >= 1, ForAll([k], Implies(bit(n0, k), k < r0), patterns=[bit(n0, k)])))

    def count(e):
        # number of completed iterations, recovered from r: r = 2^(r0-1-c) while c < r0, r = 0 afterwards
        return If(e.r == 0, r0, r0 - 1 - tz(e.r))

    def before_shift(p, e):
        # r >>= 1 for the power of two r = 2^j: 2^(j-1), or 0 for j = 0   (extensionality hints)
        j = tz(e.r)
        for cand in (atomv(j - 1), IntVal(0)):
            p.assume(bits.ext_instance(shr(e.r, 1), cand, p.fresh_int('wext')))

    def inv(e):
        c = count(e)
        return [('r-is-the-next-position', And(e.r >= 0, Or(e.r == 0, And(0 <= tz(e.r), tz(e.r) < r0, e.r == atomv(tz(e.r)))))),
                ('c-range', And(0 <= c, c <= r0)),
                ('n-nonneg', e.n >= 0),
                ('n-shifted', ForAll([k], Implies(k >= 0, bit(e.n, k) == bit(n0, k + c)), patterns=[bit(e.n, k)])),
                ('n-shifted-back', ForAll([k], Implies(k >= c, bit(n0, k) == bit(e.n, k - c)), patterns=[bit(n0, k)])),
                ('result-nonneg', e.result >= 0),
                ('result-bits', ForAll([k], bit(e.result, k) == And(r0 - c <= k, k < r0, Not(bit(n0, r0 - 1 - k))), patterns=[bit(e.result, k)]))]
    spec = LoopSpec(inv, decreases=lambda e: e.n)

    def before_final(p, e):
        # (r << 1) - 1 for the power of two r = 2^j is the mask of the positions below j + 1
        j = tz(e.r)
        p.assume(bits.ext_instance(shl(e.r, 1), atomv(j + 1), p.fresh_int('wext')))
        p.oblige('final/r-shifted-left-is-the-next-power', 'lemma', Implies(e.r != 0, shl(e.r, 1) == atomv(j + 1)))
        p.oblige('final/mask', 'lemma', Implies(e.r != 0, shl(e.r, 1) - 1 == maskv(j + 1)))
        k_ = Int('k')
        p.oblige('final/remaining-positions-are-zero-in-n', 'lemma',
                 Implies(e.n == 0, ForAll([k_], Implies(k_ >= count(e), Not(bit(n0, k_))), patterns=[bit(n0, k_)])))

    def finish(path, env, outcome):
        if outcome[0] != 'return':
            path.oblige('post/no-exception', 'post', BoolVal(False))
            return
        res = outcome[1]
        ok = isinstance(res, IntV)
        path.oblige('post/natural', 'post', (res.t >= 0) if ok else BoolVal(False))
        if ok:
            kk = path.fresh_int('k')       # an arbitrary position (instance form of the quantified statement)
            hb = Function('hint!%d' % next(path.eng.counter), B, B)
            if env['r'].t is not None:
                path.assume(hb(bit(shl(env['r'].t, 1) - 1, kk)))
            path.oblige('post/reversed-and-inverted-bits', 'post', bit(res.t, kk) == And(0 <= kk, kk < r0, Not(bit(n0, r0 - 1 - kk))))
    return {'n': IntV(n0), 'r': IntV(r0)}, {0: spec, 'before': {'If#1': before_final, 'AugAssign#1': before_shift}}, finish


if INTEGERS:
    register(Unit('bitsets.integers.reinverted', INTEGERS, 'reinverted', _unit(_reinverted),
                  assumptions=['requires 0 <= n < 2^r and r >= 1', 'ghost iteration counter c'],
                  linkage=[(LINK + 'integers.reinverted', None)]))


# ---------------------------------------------------------------------------------------------------------------------
# MemberBitsMeta.__init__: the class invariant of a bitset class

def _meta_init(path):
    from pyvc.bits import maskv
    W = Int('len(members)')
    path.assume(W >= 0)
    members = ObjV('Arg', {'__len__': FuncV('len', lambda p, a, k: IntV(W))}, name='_members')
    cls = ObjV('BitSetClass', {'_members': members}, name='self')
    cls.fields['fromint'] = FuncV('fromint', lambda p, a, k: IntV(a[-1].t, 'Bits'))
    has_id = path.fresh_bool('has _id')
    if path.branch(has_id):
        cls.fields['_id'] = ObjV('Arg', {}, name='_id')
    zips = []

    def zip_(p, a, k):
        z = ObjV('zip', {}, name='zip(...)')
        z.args = list(a)
        zips.append(z)
        return z

    def dict_(p, a, k):
        d = ObjV('dict', {}, name='dict(...)')
        d.of = a[0] if a else None
        return d

    def hasattr_(p, a, k):
        o, nm = a
        return BoolV(isinstance(o, ObjV) and nm.value in o.fields)
    g = dict(lib.builtins(), zip=FuncV('zip', zip_), dict=FuncV('dict', dict_), hasattr=FuncV('hasattr', hasattr_),
             id=FuncV('id', lambda p, a, k: ObjV('Arg', {}, name='id(self)')))

    def finish(path, env, outcome):
        if outcome[0] != 'return':
            path.oblige('post/no-exception', 'post', BoolVal(False))
            return
        f = cls.fields
        ok = all(n in f for n in ('_len', '_atoms', '_map', 'infimum', 'supremum', '_id'))
        path.oblige('post/attributes-set', 'post', BoolVal(ok))
        if not ok:
            return
        path.oblige('post/_len', 'post', (f['_len'].t == W) if isinstance(f['_len'], IntV) else BoolVal(False))
        at = f['_atoms']
        oka = isinstance(at, (SeqV, IterV))
        path.oblige('post/_atoms-one-per-member', 'post', (at.length == W) if oka else BoolVal(False))
        if oka:
            t = path.fresh_int('t')
            n0 = len(path.pc)
            path.pc.append(And(0 <= t, t < W))
            el = at.at(t)
            path.oblige('post/_atoms-are-the-powers-of-two-in-order', 'post', (el.t == atomv(t)) if isinstance(el, IntV) else BoolVal(False))
            del path.pc[n0:]
        path.oblige('post/infimum-is-the-empty-set', 'post', (f['infimum'].t == 0) if isinstance(f['infimum'], IntV) else BoolVal(False))
        k = Int('k')
        sup = f['supremum']
        path.oblige('post/supremum-has-exactly-the-domain-bits', 'post',
                    And(sup.t >= 0, ForAll([k], bit(sup.t, k) == And(0 <= k, k < W), patterns=[bit(sup.t, k)])) if isinstance(sup, IntV) else BoolVal(False))
        mp = f['_map']
        path.oblige('post/_map-pairs-members-with-atoms-in-order', 'post',
                    BoolVal(getattr(mp, 'of', None) in zips and len(mp.of.args) == 2 and mp.of.args[0] is members and mp.of.args[1] is at))
    return {'self': cls, 'name': ObjV('Arg', {}, name='name'), 'bases': ObjV('Arg', {}, name='bases'), 'dct': ObjV('Arg', {}, name='dct')}, {'globals': g}, finish


if META:
    register(Unit('bitsets.Meta.__init__', META, 'MemberBitsMeta.__init__', _unit(_meta_init),
                  assumptions=['for a class with _members (the abstract base classes return early); builtin zip/dict/hasattr/id', 'fromint is int.__new__ (identity on the value)'],
                  linkage=[(LINK + 'meta.MemberBitsMeta.__init__', None)]))


# ---------------------------------------------------------------------------------------------------------------------
# members(), Series maps, frommembers / frombools, shortlex / longlex

def _map_(p, args, kw):
    f, it = args[0], args[1]
    if isinstance(it, ObjV) and '__iter__' in it.fields:
        it = it.fields['__iter__'].fn(p, [it], {})
    if isinstance(it, FilterV):
        return FilterV(it.base, it.cond, lambda t: f.fn(p, [it.elt(t)], {}))
    if not isinstance(it, (SeqV, IterV)):
        raise Unsupported('map over %r' % (it,))
    return IterV(lambda t: f.fn(p, [it.at(t)], {}), it.length, 'map')


def _members(path):
    W, x, atoms, meths = _class_env(path)
    idx = ObjV('Indexes', {}, name='self._indexes()')
    n = Int('n_indexes')
    pos = Function('index.at', I, I)
    k, t = Ints('k t')
    # contract of MemberBits._indexes = integers.indexes_optimized (unit bitsets.integers.indexes_optimized: the postcondition of integers.indexes)
    path.assume(And(n >= 0, ForAll([t], Implies(And(0 <= t, t < n), And(0 <= pos(t), bit(x, pos(t)))), patterns=[pos(t)])))
    label = Function('member.at', I, I)
    mem = ObjV('Members', {'__getitem__': FuncV('tuple.__getitem__', lambda p, a, kw: _label(p, a[-1], W, label))}, name='_members')
    meths[('Bits', '_members')] = _prop(lambda p, a, kw: mem)
    meths[('Bits', '_indexes')] = FuncV('_indexes', lambda p, a, kw: IterV(lambda tt: IntV(pos(tt)), n, 'indexes'))
    as_set = path.fresh_bool('as_set')
    made = []

    def coll(kind):
        def f(p, a, kw):
            r = ObjV(kind, {}, name=kind + '(...)')
            r.of = a[0]
            made.append(r)
            return r
        return FuncV(kind, f)
    g = dict(lib.builtins(), map=FuncV('map', _map_), tuple=coll('tuple'), frozenset=coll('frozenset'))

    def finish(path, env, outcome):
        if outcome[0] != 'return':
            path.oblige('post/no-exception', 'post', BoolVal(False))
            return
        r = outcome[1]
        ok = r in made and isinstance(r.of, IterV)
        path.oblige('post/collection-of-the-mapped-indexes', 'post', (r.of.length == n) if ok else BoolVal(False))
        path.oblige('post/kind', 'post', BoolVal(ok) if not ok else If(as_set, BoolVal(r.cls == 'frozenset'), BoolVal(r.cls == 'tuple')))
        if ok:
            tt = path.fresh_int('t')
            n0 = len(path.pc)
            path.pc.append(And(0 <= tt, tt < n))
            el = r.of.at(tt)
            path.oblige('post/label-of-the-index', 'post', (el.t == label(pos(tt))) if isinstance(el, IntV) else BoolVal(False))
            del path.pc[n0:]
    return {'self': IntV(x, 'Bits'), 'as_set': BoolV(as_set)}, {'int_methods': meths, 'globals': g}, finish


def _label(p, i, W, label):
    p.oblige('index@_members', 'index', And(i.t >= 0, i.t < W))
    return IntV(label(i.t), 'Label')


if BASES:
    register(Unit('bitsets.MemberBits.members', BASES, 'MemberBits.members', _unit(_members),
                  assumptions=['MemberBits._indexes = integers.indexes_optimized yields the positions of the set bits (unit bitsets.integers.indexes_optimized, '
                               'the same postcondition as integers.indexes; linkage-checked)',
                               'builtin map / tuple / frozenset'],
                  linkage=[(LINK + 'bases.MemberBits.members', None)]))


def _series(which):
    """Series.bools / index_sets / frombools / frommembers: element-wise maps"""
    def body(path):
        n = Int('len(self)')
        path.assume(n >= 0)
        el = Function('series.at', I, I)
        calls = []

        def meth(name):
            def f(p, a, kw):
                r = ObjV('Result', {}, name=name)
                calls.append((name, list(a), dict(kw), r))
                return r
            return FuncV(name, f)
        meths = {('Bits', nm): meth(nm) for nm in ('bools', 'iter_set')}
        this = SeqV(lambda t: IntV(el(t), 'Bits'), n, 'self')
        env = {'self': this}
        g = dict(lib.builtins(), map=FuncV('map', _map_))
        if which == 'index_sets':
            as_set = path.fresh_bool('as_set')
            env['as_set'] = BoolV(as_set)
            g['frozenset'] = FuncV('frozenset', lambda p, a, kw: ObjV('frozenset', {'of': a[0]}, name='frozenset(...)'))
            g['tuple'] = FuncV('tuple', lambda p, a, kw: ObjV('tuple', {'of': a[0]}, name='tuple(...)'))
        if which in ('frombools', 'frommembers'):
            src = IterV(lambda t: ObjV('Row', {}, name='row[%s]' % t), n, which[4:])
            src.rows = {}
            BitSet = ObjV('BitSetClass', {nm: meth('BitSet.' + nm) for nm in ('frombools', 'frommembers')}, name='BitSet')
            cls = ObjV('SeriesClass', {'BitSet': BitSet, 'frombitsets': meth('frombitsets')}, name='cls')
            env = {'cls': cls, which[4:]: src}

        def finish(path, env_, outcome):
            if outcome[0] != 'return':
                path.oblige('post/no-exception', 'post', BoolVal(False))
                return
            r = outcome[1]
            t = path.fresh_int('t')
            if which in ('bools', 'index_sets'):
                ok = isinstance(r, (IterV, SeqV))
                path.oblige('post/one-result-per-element', 'post', (r.length == n) if ok else BoolVal(False))
                if ok:
                    n0 = len(path.pc)
                    path.pc.append(And(0 <= t, t < n))
                    calls.clear()
                    e = r.at(t)
                    if which == 'bools':
                        good = len(calls) == 1 and calls[0][0] == 'bools' and calls[0][1][0].t.eq(el(t)) and e is calls[0][3]
                    else:
                        good = len(calls) == 1 and calls[0][0] == 'iter_set' and calls[0][1][0].t.eq(el(t)) and getattr(e, 'cls', None) in ('tuple', 'frozenset') \
                            and e.fields['of'] is calls[0][3]
                    path.oblige('post/element-wise', 'post', BoolVal(bool(good)))
                    del path.pc[n0:]
            else:
                ok = calls and calls[-1][0] == 'frombitsets' and r is calls[-1][3] and isinstance(calls[-1][1][-1], IterV)
                path.oblige('post/frombitsets-of-the-mapped-rows', 'post', (calls[-1][1][-1].length == n) if ok else BoolVal(False))
                if ok:
                    it = calls[-1][1][-1]
                    calls.clear()
                    n0 = len(path.pc)
                    path.pc.append(And(0 <= t, t < n))
                    e = it.at(t)
                    good = len(calls) == 1 and calls[0][0] == 'BitSet.' + which and e is calls[0][3]
                    path.oblige('post/element-wise', 'post', BoolVal(bool(good)))
                    del path.pc[n0:]
        return env, {'int_methods': meths, 'globals': g}, finish
    return body


if SERIES:
    for _w in ('bools', 'index_sets', 'frombools', 'frommembers'):
        register(Unit('bitsets.Series.' + _w, SERIES, 'Series.' + _w, _unit(_series(_w)),
                      assumptions=['comprehension / builtin map = element-wise in order'], linkage=[(LINK + 'series.Series.' + _w + ('.__func__' if _w.startswith('from') else ''), None)]))


# ---------------------------------------------------------------------------------------------------------------------
# lemma: the tie-break key is injective on the bitsets of a class (rk.inj of unit lindig.lattice, together with the member count)

def _lemma_key_injective():
    def prove(path):
        a, b, ra, rb, r0, k = Ints('a b ra rb r0 k')
        dom = lambda v: And(v >= 0, ForAll([k], Implies(bit(v, k), k < r0), patterns=[bit(v, k)]))
        post = lambda res, v: And(res >= 0, ForAll([k], bit(res, k) == And(0 <= k, k < r0, Not(bit(v, r0 - 1 - k))), patterns=[bit(res, k)]))
        path.assume(And(r0 >= 1, dom(a), dom(b), post(ra, a), post(rb, b)))      # post of unit bitsets.integers.reinverted for both
        w = path.fresh_int('wext')
        path.assume(bits.ext_instance(a, b, w))
        hb = Function('hint!%d' % next(path.eng.counter), B, B)
        path.assume(And(hb(bit(ra, r0 - 1 - w)), hb(bit(rb, r0 - 1 - w))))
        path.oblige('reinverted-is-injective', 'lemma', Implies(ra == rb, a == b))
    return bits.axioms(), prove


register(Unit('lemma.bitsets.key_injective', None, None, _lemma_key_injective,
              assumptions=['post of unit bitsets.integers.reinverted; extensionality instance']))


# ---------------------------------------------------------------------------------------------------------------------
# MemberBits.frommembers / frombools  (SUM-ATOMS: lemmas/Bits.lean sum_two_pow_testBit)

def _sum_of_atoms(p, positions, length, cond=None):
    """builtin sum over atoms 2^positions(t), t < length (kept when cond(t)): requires the kept positions pairwise distinct and >= 0;
    the result is the natural with exactly those bits"""
    t, u, k = Ints('t u k')
    keep = cond or (lambda tt: BoolVal(True))
    tt, uu = p.fresh_int('t'), p.fresh_int('u')
    p.oblige('sum/atoms-pairwise-distinct', 'pre@call',
             Implies(And(0 <= tt, tt < uu, uu < length, keep(tt), keep(uu)), positions(tt) != positions(uu)))
    p.oblige('sum/positions-nonneg', 'pre@call', Implies(And(0 <= tt, tt < length, keep(tt)), positions(tt) >= 0))
    S = p.fresh_int('sum')
    w = Function('w.sum!%d' % next(p.eng.counter), I, I)
    p.assume(And(S >= 0,
                 ForAll([k], Implies(bit(S, k), And(0 <= w(k), w(k) < length, keep(w(k)), positions(w(k)) == k)), patterns=[bit(S, k)]),
                 ForAll([t], Implies(And(0 <= t, t < length, keep(t)), bit(S, positions(t))),
                        patterns=[bit(S, t) if positions(t).eq(t) else positions(t)])))
    return S


def _frommembers(path):
    W = Int('W')
    path.assume(W >= 0)
    n = Int('len(members)')
    ns = Int('len(set(members))')
    mkey = Function('members.at', I, I)          # label ids of the given members
    skey = Function('set.at', I, I)
    srank = Function('set.rank', I, I)
    posof = Function('position', I, I)           # _map: label id -> position, defined for the labels of the class
    t, u, k, y = Ints('t u k y')
    inM = Function('inM', I, B)
    wM = Function('w.M', I, I)
    path.assume([n >= 0,
                 ForAll([t], Implies(And(0 <= t, t < n), inM(mkey(t))), patterns=[mkey(t)]),
                 ForAll([y], Implies(inM(y), And(0 <= wM(y), wM(y) < n, mkey(wM(y)) == y)), patterns=[inM(y)]),
                 # requires: every member is a label of the class (else KeyError from _map) and _map is injective (labels are unique)
                 ForAll([y], Implies(inM(y), And(0 <= posof(y), posof(y) < W)), patterns=[posof(y)]),
                 ForAll([y, k], Implies(And(inM(y), inM(k), posof(y) == posof(k)), y == k), patterns=[MultiPattern(posof(y), posof(k))])])
    set_contract = [And(0 <= ns, ns <= n),
                    ForAll([t], Implies(And(0 <= t, t < ns), And(inM(skey(t)), srank(skey(t)) == t)), patterns=[skey(t)]),
                    ForAll([y], Implies(inM(y), And(0 <= srank(y), srank(y) < ns, skey(srank(y)) == y)), patterns=[inM(y)])]
    members = IterV(lambda tt: IntV(mkey(tt), 'Label'), n, 'members')
    members.is_input = True

    def set_(p, a, kw):
        ok = len(a) == 1 and a[0] is members
        p.oblige('set/of-the-members', 'pre@call', BoolVal(ok))
        p.assume(set_contract)
        return IterV(lambda tt: IntV(skey(tt), 'Label'), ns, 'set(members)')

    def getitem(p, a, kw):
        lbl = a[-1]
        v = IntV(atomv(posof(lbl.t)), 'Bits')
        v.pos = posof(lbl.t)
        return v

    def sum_(p, a, kw):
        (it,) = a
        if not isinstance(it, IterV):
            raise Unsupported('sum of %r' % (it,))
        def pos(tt):
            e = it.at(tt)
            if getattr(e, 'pos', None) is None:
                raise Unsupported('sum of non-atoms')
            return e.pos
        return IntV(_sum_of_atoms(p, pos, it.length), None)
    cls = ObjV('BitSetClass', {'_map': ObjV('dict', {'__getitem__': FuncV('dict.__getitem__', getitem)}, name='_map'),
                               'fromint': FuncV('fromint', lambda p, a, kw: IntV(a[-1].t, 'Bits'))}, name='cls')
    g = dict(lib.builtins(), set=FuncV('set', set_), map=FuncV('map', _map_), sum=FuncV('sum', sum_))

    def finish(path, env, outcome):
        if outcome[0] != 'return':
            path.oblige('post/no-exception', 'post', BoolVal(False))
            return
        r = outcome[1]
        ok = isinstance(r, IntV)
        path.oblige('post/natural', 'post', (r.t >= 0) if ok else BoolVal(False))
        if ok:
            kk, yy = path.fresh_int('k'), path.fresh_int('y')
            path.oblige('post/every-member-is-in', 'post', Implies(inM(yy), bit(r.t, posof(yy))))
            # in instance form: a set bit is the position of some member
            hb = Function('hint!%d' % next(path.eng.counter), B, B)
            path.assume(hb(bit(r.t, kk)))
            path.oblige('post/only-members-are-in (instance)', 'post',
                        Implies(bit(r.t, kk), And(0 <= kk, kk < W, Not(ForAll([y], Implies(inM(y), posof(y) != kk), patterns=[posof(y)])))))
    return {'cls': cls, 'members': members}, {'globals': g}, finish


def _frombools(path):
    W = Int('W')
    path.assume(W >= 0)
    n = Int('len(bools)')
    path.assume(n >= 0)
    bval = Function('bools.at', I, B)
    atoms = SeqV(lambda t: _atom(t), W, '_atoms')
    bools = IterV(lambda t: BoolV(bval(t)), n, 'bools')

    def compress(p, a, kw):
        data, sel = a
        if not (isinstance(data, (SeqV, IterV)) and isinstance(sel, (SeqV, IterV))):
            raise Unsupported('compress of %r' % (a,))
        m = p.fresh_int('min')
        p.assume(m == If(data.length <= sel.length, data.length, sel.length))
        return FilterV(IterV(lambda t: data.at(t), m, 'zip'), lambda t: truthy(sel.at(t)), lambda t: data.at(t))

    def sum_(p, a, kw):
        (it,) = a
        if not isinstance(it, FilterV):
            raise Unsupported('sum of %r' % (it,))
        def pos(tt):
            e = it.elt(tt)
            if getattr(e, 'pos', None) is None:
                raise Unsupported('sum of non-atoms')
            return e.pos
        return IntV(_sum_of_atoms(p, pos, it.base.length, it.cond), None)
    cls = ObjV('BitSetClass', {'_atoms': atoms, 'fromint': FuncV('fromint', lambda p, a, kw: IntV(a[-1].t, 'Bits'))}, name='cls')
    g = dict(lib.builtins(), compress=FuncV('compress', compress), sum=FuncV('sum', sum_))

    def finish(path, env, outcome):
        if outcome[0] != 'return':
            path.oblige('post/no-exception', 'post', BoolVal(False))
            return
        r = outcome[1]
        ok = isinstance(r, IntV)
        path.oblige('post/natural', 'post', (r.t >= 0) if ok else BoolVal(False))
        if ok:
            kk = path.fresh_int('k')
            hb = Function('hint!%d' % next(path.eng.counter), B, B)
            path.assume(hb(bit(r.t, kk)))
            # truncating to the domain: positions beyond the shorter of (domain, bools) are not set
            path.oblige('post/bit-k-iff-the-k-th-boolean-is-true', 'post', bit(r.t, kk) == And(0 <= kk, kk < W, kk < n, bval(kk)))
    return {'cls': cls, 'bools': bools}, {'globals': g}, finish


def _atom(t):
    v = IntV(atomv(t), 'Bits')
    v.pos = t
    return v


def _keys(which):
    def body(path):
        from contracts.bitsets_bin import Texts            # the text model of bin() / str.count (DESIGN 11.22); imported here: bitsets_bin imports this module
        from pyvc import bintext
        W, x, atoms, meths = _class_env(path)
        T = bintext.Z3B()
        pc = T.card                                        # the number of members (BitsBin.card; `card` of contracts/bitsets_powerset.py)
        rv = Function('reinverted', I, I, I)
        meths[('Bits', '_len')] = _prop(lambda p, a, kw: IntV(W))
        meths[('Bits', '_reinverted')] = FuncV('_reinverted', lambda p, a, kw: IntV(rv(a[0].t, a[1].t)))
        meths[('Bits', '_int')] = _prop(lambda p, a, kw: IntV(a[0].t))
        # bin(self).count('1') is no longer answered by the contract: bin() gives the text term, count('1') the number of its '1' characters, and
        # the lemma instance L_bin_count (lemmas/BitsBin.lean: count_one_bin; premise self >= 0 obliged) says that this is card(self)
        g = dict(lib.builtins(), bin=Texts(path, T).bin_fn())

        def finish(path, env, outcome):
            r = outcome[1] if outcome[0] == 'return' else None
            ok = isinstance(r, TupleV) and len(r.items) == 2 and all(isinstance(v, IntV) for v in r.items)
            path.oblige('post/pair-of-ints', 'post', BoolVal(ok))
            if ok:
                sign = 1 if which == 'shortlex' else -1
                path.oblige('post/(%smember count, reversed-inverted bits over the domain length)' % ('' if sign == 1 else '-'), 'post',
                            And(r.items[0].t == sign * pc(x), r.items[1].t == rv(x, W)))
        return {'self': IntV(x, 'Bits')}, {'int_methods': meths, 'globals': g}, finish
    return body


def _keys_axioms():
    from pyvc import bintext
    return bits.axioms() + bintext.Z3B().axioms()


if BASES:
    register(Unit('bitsets.MemberBits.frommembers', BASES, 'MemberBits.frommembers', _unit(_frommembers),
                  assumptions=['requires every member to be a label of the class (else KeyError); builtin set = the distinct elements; '
                               'SUM-ATOMS: the sum of pairwise distinct powers of two has exactly those bits (lemmas/Bits.lean: sum_two_pow_testBit)'],
                  linkage=[(LINK + 'bases.MemberBits.frommembers.__func__', None)]))
    register(Unit('bitsets.MemberBits.frombools', BASES, 'MemberBits.frombools', _unit(_frombools),
                  assumptions=['itertools.compress(data, selectors) = the data items whose selector is true, up to the shorter length; SUM-ATOMS (lemmas/Bits.lean)'],
                  linkage=[(LINK + 'bases.MemberBits.frombools.__func__', None)]))
    for _w in ('shortlex', 'longlex'):
        register(Unit('bitsets.MemberBits.' + _w, BASES, 'MemberBits.' + _w, _unit(_keys(_w), _keys_axioms),
                      assumptions=["bin(x).count('1') = card(x), the number of set bits: lemma instance L_bin_count (Lean, lemmas/BitsBin.lean: count_one_bin); "
                                   "LIBRARY (validated by pyvc/bintext.py selftest / selftest_lean, never proved): CPython's bin / str.count compute the List Char "
                                   "definitions of lemmas/BitsBin.lean",
                                   '_reinverted = integers.reinverted (unit bitsets.integers.reinverted)'],
                      linkage=[(LINK + 'bases.MemberBits.' + _w, None)]))


# ---------------------------------------------------------------------------------------------------------------------
# lemma: the tie-break key orders the bitsets of a class lexicographically by member POSITION
#   reinverted(a) < reinverted(b)  <->  at the lowest position where a and b differ, a has the member      (a, b below 2^r, a != b)

def _lemma_key_order():
    def prove(path):
        a, b, ra, rb, r0, k = Ints('a b ra rb r0 k')
        dom = lambda v: And(v >= 0, ForAll([k], Implies(bit(v, k), k < r0), patterns=[bit(v, k)]))
        post = lambda res, v: And(res >= 0, ForAll([k], bit(res, k) == And(0 <= k, k < r0, Not(bit(v, r0 - 1 - k))), patterns=[bit(res, k)]))
        path.assume(And(r0 >= 1, dom(a), dom(b), post(ra, a), post(rb, b), a != b))      # posts of unit bitsets.integers.reinverted
        from pyvc.bits import tz, band, bor, bnot
        d = bor(band(a, bnot(b)), band(b, bnot(a)))        # symmetric difference
        lo = tz(d)                                         # lowest differing position
        path.assume(bits.ext_instance(a, b, path.fresh_int('wext')))
        path.oblige('difference-nonempty', 'lemma', d != 0)
        path.oblige('lowest-difference', 'lemma', And(0 <= lo, lo < r0, bit(a, lo) != bit(b, lo),
                                                      ForAll([k], Implies(And(0 <= k, k < lo), bit(a, k) == bit(b, k)), patterns=[bit(a, k), bit(b, k)])))
        hi = r0 - 1 - lo                                   # = highest differing position of the keys
        hb = Function('hint!%d' % next(path.eng.counter), B, B)
        path.assume(And(hb(bit(ra, hi)), hb(bit(rb, hi))))
        path.oblige('keys-differ-at-the-mirrored-position', 'lemma', And(bit(ra, hi) == Not(bit(a, lo)), bit(rb, hi) == Not(bit(b, lo))))
        path.oblige('keys-agree-above', 'lemma', ForAll([k], Implies(k > hi, bit(ra, k) == bit(rb, k)), patterns=[bit(ra, k), bit(rb, k)]))
        path.assume([bits.order_instance(ra, rb, hi), bits.order_instance(rb, ra, hi)])        # B14 both ways
        path.oblige('key-order-is-lexicographic-by-position', 'lemma', (ra < rb) == bit(a, lo))
    return bits.axioms(), prove


register(Unit('lemma.bitsets.key_order', None, None, _lemma_key_order,
              assumptions=['post of unit bitsets.integers.reinverted', 'B14: order of naturals by the highest differing bit (lemmas/Bits.lean: B14_lt_of_testBit)']))
