"""LatInv(L, ctx): the lattice invariant as a symbolic model (DESIGN 5.3).  Consumers of a lattice are verified
relative to it (it is their precondition); establishing it is the job of Lattice.__init__/_fromlist (C03..C06, C11).

Model: N concepts, ext(i) the extent of the i-th (0 <= i < N); idx(e) the position of the concept with extent e.
  LatInv.1  forall i in range. is_extent(ext(i));  forall e. is_extent(e) -> 0 <= idx(e) < N /\ ext(idx(e)) = e;
            idx(ext(i)) = i   (no repeats);  intent of i = Up(ext(i))
  LatInv.2  ext(0) = Cl(0), ext(N-1) = all objects           (consequences of shortlex order, L-SLEX)
  LatInv.4  _mapping[e] is the member with index idx(e), defined exactly on extents (lookup by value)
Concept objects are ObjV with `ident` = their index term (identity of members = equality of indexes).
"""
from z3 import And, ForAll, Function, Implies, Int, IntSort, Ints, Not, Or

from pyvc.bits import bit
from pyvc.engine import FuncV, IntV, ObjV, PyRaise, SeqV, TupleV, Unsupported, BoolV

I = IntSort()


class Lat:
    def __init__(self, C, prefix='L'):
        self.C = C
        self.N = Int(prefix + '.N')
        self.ext = Function(prefix + '.ext', I, I)
        self.idx = Function(prefix + '.idx', I, I)

    def facts(self):
        i, e = Ints('i e')
        C, L = self.C, self
        return [
            ('LatInv.N', L.N >= 1),
            ('LatInv.1a', ForAll([i], Implies(And(0 <= i, i < L.N), And(C.is_objset(L.ext(i)), C.Cl(L.ext(i)) == L.ext(i),
                                                                       L.idx(L.ext(i)) == i)),
                                 patterns=[L.ext(i)])),
            ('LatInv.1b', ForAll([e], Implies(And(C.is_objset(e), C.Cl(e) == e),
                                              And(0 <= L.idx(e), L.idx(e) < L.N, L.ext(L.idx(e)) == e)),
                                 patterns=[L.idx(e)])),
            ('LatInv.2a', L.ext(0) == C.Cl(0)),
            ('LatInv.2b', L.ext(L.N - 1) == C.ObjSup),
        ]

    # ---- python-level objects
    def concept(self, i, lattice_obj=None):
        """The member object with index term i."""
        o = ObjV('Concept', {'_extent': IntV(self.ext(i), 'Objects'),
                             '_intent': IntV(self.C.Up(self.ext(i)), 'Properties'),
                             'index': IntV(i)}, name='concept[%s]' % i)
        o.ident = i
        if lattice_obj is not None:
            o.fields['lattice'] = lattice_obj
        return o

    def lattice_obj(self, ctx_obj):
        L = self
        lat = ObjV('Lattice', {}, name='lattice')
        lat.fields['_context'] = ctx_obj

        def mapping_getitem(p, args, kw):
            _, key = args
            if not isinstance(key, IntV):
                raise Unsupported('_mapping key of kind %s' % type(key).__name__)
            # `key` obligation: the key is an extent (dict lookup by value must not raise KeyError)
            p.oblige('key@_mapping', 'key', And(L.C.is_objset(key.t), L.C.Cl(key.t) == key.t))
            return L.concept(L.idx(key.t), lat)
        lat.fields['_mapping'] = ObjV('dict', {'__getitem__': FuncV('_mapping.__getitem__', mapping_getitem)}, name='_mapping')
        lat.fields['supremum'] = L.concept(L.N - 1, lat)
        lat.fields['infimum'] = L.concept(0, lat)
        lat.fields['_concepts'] = SeqV(lambda t: L.concept(t, lat), L.N, '_concepts')
        return lat


def context_obj(C):
    """ctx as seen by lattice members: _extents/_intents with their closures, _Objects/_Properties classes."""
    from contracts.ctxtheory import Ctx  # noqa
    meths = C.closure_funcs()

    def vectors(tag, env):
        o = ObjV('Vectors', {}, name='_' + ('extents' if tag == 'Objects' else 'intents'))
        for nm in ('prime', 'double', 'doubleprime'):
            f = meths[(tag, nm)]
            o.fields[nm] = FuncV(f.name, (lambda p, args, kw, _f=f: _f.fn(p, args, kw)))
        return o
    ctx = ObjV('Context', {}, name='ctx')
    ctx.fields['_extents'] = vectors('Objects', C.O)
    ctx.fields['_intents'] = vectors('Properties', C.P)
    return ctx
