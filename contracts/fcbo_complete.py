"""Completeness and exactly-once of concepts/algorithms/fcbo.py: fast_generate_from / fcbo_dual (C04).

Proved here (units fcbo.<name>.complete), for all contexts:  the generator yields every formal concept exactly once
(together with the soundness units fcbo.<name>: and nothing else).

Ghost state (versioned uninterpreted functions; "key" = intent for fast_generate_from, extent for fcbo_dual):
  Cnt(K, y)    number of stack entries with key K and index y            (the stack as a multiset; the emission ORDER is not part of C04)
  Lst(K, y)    identity of the failed-sets list object of that entry     (lists are shared between entries and mutated later: modelled as a heap)
  Cont(l, j)   element j of list object l
  Y(D)         the key D has been yielded
Outer invariant (theory and lemmas: contracts/fcbo_theory.py)
  A   Cnt >= 0; an entry has Cnt = 1, a closed key and 0 <= y <= W      (the other component of an entry is up(K): obliged at every push)
  B   entry (K,y), y <= j < W:  Cont(Lst(K,y), j) is a natural with  Cont(..) <= CJ(K, j)       (inherited failed sets are sound)
  C   every closed D is yielded or lies in the subtree In(K,y,D) of some entry
  D   the subtrees of the entries are pairwise disjoint and contain no yielded key
  E   only closed keys are yielded
Inner invariant (k attributes j = W-1 .. W-k handled, entry (K,y) popped, l_n the copied list):
  a   Cnt = Cnt_0 + [ (B,y2) is the child (CJ(K,y2-1), y2) of a handled valid attribute y2-1 ],   b  Lst likewise (children carry l_n)
  c   other lists unchanged;  y <= j < W:  Cont(l_n, j) <= CJ(K, j)
Exit (stack empty): by C every closed key has been yielded; by D (obliged at each yield: not Y(K)) none twice.
"""
from z3 import And, BoolSort, BoolVal, ForAll, Function, If, Implies, Int, IntSort, IntVal, Ints, MultiPattern, Not, Or

from pyvc.bits import atomv, band, bit, bor
from pyvc.engine import BoolV, FuncV, IntV, IterV, ListV, LoopSpec, NONE, ObjV, TupleV
from contracts import lib
from contracts.contexts import full_context_obj
from contracts.fcbo import _at, st_line_closed, st_line_derivation
from contracts.fcbo_theory import CbO, _theory, maskv
from contracts.lemmas_z3 import ext, st_cl_def, st_least, st_up_cl, use_galois
from contracts.registry import Unit, register

I = IntSort()
B = BoolSort()


def _unit(dual):
    def make():
        C, T, axioms = _theory(dual)
        S, W = T.S, T.W

        def harness(path):
            cnt = path.eng.counter

            def fn(name, n, rng=I):
                return Function('%s!%d' % (name, next(cnt)), *([I] * n + [rng]))
            G = path.ghost
            st = {}
            b_, y_, l_, j_, d_ = Ints('b_ y_ l_ j_ d_')

            def fresh_state(names=('Cnt', 'Lst', 'Cont', 'Y')):
                for nm in names:
                    st[nm] = fn(nm, 1 if nm == 'Y' else 2, B if nm == 'Y' else I)

            def upd2(nm, a, b, val):
                old = st[nm]
                new = fn(nm, 2)
                path.assume(ForAll([b_, y_], new(b_, y_) == If(And(b_ == a, y_ == b), val, old(b_, y_)), patterns=[new(b_, y_), old(b_, y_)]))
                st[nm] = new

            def key_of(concept):
                return concept.items[0 if dual else 1], concept.items[1 if dual else 0]

            def concept_of(K):
                k, o = IntV(K, T.key_tag), IntV(S.up(K), T.other_tag)
                return TupleV([k, o] if dual else [o, k])

            # ---- the failed-sets lists: heap objects
            def setlist(lid):
                o = ObjV('SetList', {}, name='failed_sets')
                o.lid = lid

                def getitem(p, args, kw):
                    _, i = args
                    p.oblige('index@failed_sets', 'index', And(i.t >= 0, i.t < W))
                    v = st['Cont'](lid, i.t)
                    if G.get('cur'):
                        # use lemma.cbo.basic (skip-sound) for the value read
                        p.assume(T.st_skip_sound(G['cur'][0], i.t, v))
                    return IntV(v, T.key_tag)

                def setitem(p, args, kw):
                    _, i, v = args
                    p.oblige('index@failed_sets', 'index', And(i.t >= 0, i.t < W, BoolVal(isinstance(v, IntV))))
                    upd2('Cont', lid, i.t, v.t)
                    return NONE

                def copy(p, args, kw):
                    ln = p.fresh_int('l_n')
                    Cnt, Lst, Cont = st['Cnt'], st['Lst'], st['Cont']
                    # allocation: the new list object is none of the existing ones
                    p.assume(And(ln != lid, ForAll([b_, y_], Implies(Cnt(b_, y_) > 0, Lst(b_, y_) != ln), patterns=[Lst(b_, y_)])))
                    new = fn('Cont', 2)
                    p.assume(ForAll([l_, j_], new(l_, j_) == If(l_ == ln, Cont(lid, j_), Cont(l_, j_)), patterns=[new(l_, j_)]))
                    st['Cont'] = new
                    G['l_n'] = ln
                    return setlist(ln)
                o.fields['__getitem__'] = FuncV('list.__getitem__', getitem)
                o.fields['__setitem__'] = FuncV('list.__setitem__', setitem)
                o.fields['copy'] = FuncV('list.copy', copy)
                o.fields['__list__'] = FuncV('list', copy)
                return o

            def list_repeat(p, lst, n):
                ok = len(lst.items) == 1 and isinstance(lst.items[0], IntV)
                p.oblige('list-repeat/length', 'post', And(n.t == W, BoolVal(ok)))
                l0 = p.fresh_int('l_0')
                Cont0 = fn('Cont', 2)
                p.assume(ForAll([j_], Cont0(l0, j_) == lst.items[0].t, patterns=[Cont0(l0, j_)]))
                st['Cont'] = Cont0
                return setlist(l0)

            # ---- the stack
            stack = ObjV('Stack', {}, name='stack')

            def truth():
                ne = path.fresh_bool('stack.nonempty')
                Cnt = st['Cnt']
                # list truthiness: the stack is empty iff no entry is on it
                path.assume(Implies(Not(ne), ForAll([b_, y_], Cnt(b_, y_) <= 0, patterns=[Cnt(b_, y_)])))
                G['ne'] = ne
                return ne
            stack.truth_fn = truth

            def pop(p, args, kw):
                p.oblige('pop/stack-nonempty', 'pre@call', G['ne'])
                K, y = p.fresh_int('K'), p.fresh_int('y')
                p.assume(st['Cnt'](K, y) > 0)           # some entry is on the stack (which one is irrelevant for C04)
                lid = st['Lst'](K, y)
                # every entry lies in its own subtree (from the definitions: K <= K, agree(K, K, y))
                p.oblige('pop/entry-in-its-own-subtree', 'lemma', T.In(K, y, K))
                G['cur'] = (K, y, lid)
                G['head'] = dict(st)
                upd2('Cnt', K, y, st['Cnt'](K, y) - 1)
                return TupleV([concept_of(K), IntV(y), setlist(lid)])

            def append(p, args, kw):
                (entry,) = args
                ok = (isinstance(entry, TupleV) and len(entry.items) == 3 and isinstance(entry.items[0], TupleV) and len(entry.items[0].items) == 2
                      and all(isinstance(x, IntV) for x in entry.items[0].items) and isinstance(entry.items[1], IntV)
                      and getattr(entry.items[2], 'cls', None) == 'SetList')
                p.oblige('push/entry-shape', 'pre@call', BoolVal(ok))
                if not ok:
                    return NONE
                k, o = key_of(entry.items[0])
                p.oblige('push/tags', 'pre@call', BoolVal(k.tag == T.key_tag and o.tag == T.other_tag))
                p.oblige('push/other-component-is-the-derivation-of-the-key', 'pre@call', o.t == S.up(k.t))
                yy = entry.items[1].t
                p.oblige('push/key-not-on-stack', 'pre@call', st['Cnt'](k.t, yy) == 0)
                upd2('Cnt', k.t, yy, st['Cnt'](k.t, yy) + 1)
                upd2('Lst', k.t, yy, entry.items[2].lid)
                return NONE
            stack.fields['pop'] = FuncV('stack.pop', pop)
            stack.fields['append'] = FuncV('stack.append', append)

            def on_yield(p, env_, val):
                K, y, lid = G['cur']
                ok = isinstance(val, TupleV) and len(val.items) == 2 and all(isinstance(x, IntV) for x in val.items)
                p.oblige('yield/the-popped-concept', 'yield', And(*[a.t == b.t for a, b in zip(val.items, concept_of(K).items)]) if ok else BoolVal(False))
                p.oblige('yield/exactly-once: not yielded before', 'yield', Not(st['Y'](K)))
                Y2 = fn('Y', 1, B)
                p.assume(ForAll([d_], Y2(d_) == Or(d_ == K, st['Y'](d_)), patterns=[Y2(d_), st['Y'](d_)]))
                st['Y'] = Y2

            # ---- invariants
            def q(phase, vs, body, pats):
                """assume: the quantified formula; entry/preserve: the instance for fresh constants (returned with them)"""
                if phase == 'assume':
                    return ForAll(vs, body(*vs), patterns=pats(*vs)), None
                cs = [path.fresh_int(str(v)) for v in vs]
                return body(*cs), cs

            def outer(en, phase):
                Cnt, Lst, Cont, Y = st['Cnt'], st['Lst'], st['Cont'], st['Y']
                out = []
                if phase == 'assume':
                    oB, oY = fn('own.K', 1), fn('own.y', 1)
                    G['own'] = (oB, oY)
                own = G.get('own')
                cur = G.get('cur') if phase == 'preserve' else None
                # A
                f, cs = q(phase, [b_, y_], lambda b, y: And(Cnt(b, y) >= 0, Implies(Cnt(b, y) > 0, And(Cnt(b, y) == 1, T.closed(b), 0 <= y, y <= W))),
                          lambda b, y: [Cnt(b, y)])
                if cs and cur:
                    path.assume([T.st_union(cur[0], cs[1] - 1), T.bridge(cur[0], cs[1] - 1)])
                out.append(('A entries', f))
                # B
                f, cs = q(phase, [b_, y_, j_], lambda b, y, j: Implies(And(Cnt(b, y) > 0, y <= j, j < W),
                                                                     And(Cont(Lst(b, y), j) >= 0, T.sub(Cont(Lst(b, y), j), T.CJ(b, j)))),
                          lambda b, y, j: [MultiPattern(Cnt(b, y), Cont(Lst(b, y), j))])
                if cs and cur:
                    path.assume([T.st_union(cur[0], cs[1] - 1), T.st_mono(cur[0], cs[0], cs[2]), T.bridge(cur[0], cs[1] - 1)])
                out.append(('B failed-sets-sound', f))
                # C
                if phase == 'assume':
                    oB, oY = own
                    out.append(('C coverage', ForAll([d_], Implies(T.closed(d_), Or(Y(d_), And(Cnt(oB(d_), oY(d_)) > 0, T.In(oB(d_), oY(d_), d_)))),
                                                     patterns=[Y(d_)])))
                elif phase == 'entry':
                    d = path.fresh_int('d')
                    K0 = G['root']
                    path.assume(T.st_root(d))
                    out.append(('C coverage', Implies(T.closed(d), And(Cnt(K0, 0) > 0, T.In(K0, 0, d)))))
                else:
                    d = path.fresh_int('d')
                    K, y, lid = cur
                    oB, oY = own
                    jd = T.jmin(K, d)
                    path.assume([T.st_child_exists(K, y, d), T.st_leaf(K, d), T.st_full(K), T.bridge(K, jd)])
                    out.append(('C coverage', Implies(T.closed(d), Or(Y(d),
                                                                      And(Cnt(oB(d), oY(d)) > 0, T.In(oB(d), oY(d), d)),
                                                                      And(Cnt(T.CJ(K, jd), jd + 1) > 0, T.In(T.CJ(K, jd), jd + 1, d))))))
                # D
                f, cs = q(phase, [d_, b_, y_], lambda d, b, y: Implies(And(Cnt(b, y) > 0, T.In(b, y, d), T.closed(d)), Not(Y(d))),
                          lambda d, b, y: [MultiPattern(T.agree(b, d, y), Cnt(b, y))])
                if cs and cur:
                    path.assume([T.st_child_inside(cur[0], cur[1], cs[2] - 1, cs[0]), T.bridge(cur[0], cs[2] - 1)])
                out.append(('D1 yielded-keys-are-in-no-subtree', f))
                f, cs = q(phase, [d_, b_, y_, l_, j_], lambda d, b, y, b2, y2: Implies(
                    And(Cnt(b, y) > 0, Cnt(b2, y2) > 0, T.In(b, y, d), T.In(b2, y2, d), T.closed(d)), And(b == b2, y == y2)),
                    lambda d, b, y, b2, y2: [MultiPattern(T.agree(b, d, y), T.agree(b2, d, y2), Cnt(b, y), Cnt(b2, y2))])
                if cs and cur:
                    path.assume([T.st_child_inside(cur[0], cur[1], cs[2] - 1, cs[0]), T.st_child_inside(cur[0], cur[1], cs[4] - 1, cs[0]),
                                 T.bridge(cur[0], cs[2] - 1), T.bridge(cur[0], cs[4] - 1)])
                out.append(('D2 subtrees-disjoint', f))
                # E
                f, cs = q(phase, [d_], lambda d: Implies(Y(d), T.closed(d)), lambda d: [Y(d)])
                out.append(('E yielded-keys-are-closed', f))
                return out

            def outer_inv(en, phase):
                sv = en.val('stack')
                if phase == 'entry':
                    # the concrete one-element stack [(root concept, 0, [empty set] * W)]
                    ok = (isinstance(sv, ListV) and len(sv.items) == 1 and isinstance(sv.items[0], TupleV) and len(sv.items[0].items) == 3
                          and isinstance(sv.items[0].items[0], TupleV) and len(sv.items[0].items[0].items) == 2
                          and getattr(sv.items[0].items[2], 'cls', None) == 'SetList' and isinstance(sv.items[0].items[1], IntV))
                    if not ok:
                        return [('stack-init', BoolVal(False))]
                    e0 = sv.items[0]
                    k, o = key_of(e0.items[0])
                    K0 = S.cl(IntVal(0))
                    G['root'] = K0
                    path.assume(T.st_up0())
                    use_galois(path, S, IntVal(0))
                    use_galois(path, T.D, T.ofull)
                    use_galois(path, T.D, IntVal(0))
                    Cnt0, Lst0, Y0 = fn('Cnt', 2), fn('Lst', 2), fn('Y', 1, B)
                    path.assume(ForAll([b_, y_], Cnt0(b_, y_) == If(And(b_ == K0, y_ == 0), 1, 0), patterns=[Cnt0(b_, y_)]))
                    path.assume(Lst0(K0, 0) == e0.items[2].lid)
                    path.assume(ForAll([d_], Not(Y0(d_)), patterns=[Y0(d_)]))
                    st.update({'Cnt': Cnt0, 'Lst': Lst0, 'Y': Y0})
                    return [('stack-init', And(k.t == K0, o.t == S.up(K0), e0.items[1].t == 0,
                                               BoolVal(k.tag == T.key_tag and o.tag == T.other_tag)))] + outer(en, phase)
                return outer(en, phase)

            def head_havoc(p, env_):
                fresh_state()
            outer_spec = LoopSpec(outer_inv, ghost_havoc=head_havoc, phased=True)
            outer_spec.modifies = ['stack']

            def inner_inv(en, k, phase):
                K, y, lid = G['cur']
                ln = G['l_n']
                if phase == 'entry':
                    G['st0'] = dict(st)
                s0 = G['st0']
                if phase == 'preserve':
                    path.assume(T.bridge(K, en.j))        # definitions of validp / CJf for the attribute of this iteration
                Cnt, Lst, Cont = st['Cnt'], st['Lst'], st['Cont']
                child = lambda b, y2: And(W - k <= y2 - 1, y2 - 1 < W, y <= y2 - 1, T.validp(K, y2 - 1), b == T.CJf(K, y2 - 1))
                out = []
                f, cs = q(phase, [b_, y_], lambda b, y2: Cnt(b, y2) == s0['Cnt'](b, y2) + If(child(b, y2), 1, 0), lambda b, y2: [Cnt(b, y2)])
                out.append(('a stack = entry stack + valid children handled so far', f))
                f, cs = q(phase, [b_, y_], lambda b, y2: Implies(child(b, y2), s0['Cnt'](b, y2) == 0), lambda b, y2: [s0['Cnt'](b, y2)])
                out.append(('a2 the children were not on the entry stack', f))
                f, cs = q(phase, [b_, y_], lambda b, y2: Lst(b, y2) == If(child(b, y2), ln, s0['Lst'](b, y2)), lambda b, y2: [Lst(b, y2)])
                out.append(('b children carry the copied list', f))
                f, cs = q(phase, [l_, j_], lambda l, j: Implies(l != ln, Cont(l, j) == s0['Cont'](l, j)), lambda l, j: [Cont(l, j)])
                out.append(('c1 other lists unchanged', f))
                f, cs = q(phase, [j_], lambda j: Implies(And(y <= j, j < W), And(Cont(ln, j) >= 0, T.sub(Cont(ln, j), T.CJ(K, j)))),
                          lambda j: [Cont(ln, j)])
                out.append(('c2 copied list sound', f))
                return out

            def inner_havoc(p, env_):
                fresh_state(('Cnt', 'Lst', 'Cont'))
            inner_spec = LoopSpec(inner_inv, ghost_havoc=inner_havoc, phased=True)

            # ---- the context, bitset classes, library contracts
            ctx = full_context_obj(C)
            ctx.fields['shape'] = ObjV('Shape', {'objects': IntV(C.n), 'properties': IntV(C.m)})
            ctx.fields['_extents'].fields['__getitem__'] = FuncV('Vectors.__getitem__', lambda p, args, kw: _at(p, C, 'col', args[1]))
            ctx.fields['_intents'].fields['__getitem__'] = FuncV('Vectors.__getitem__', lambda p, args, kw: _at(p, C, 'row', args[1]))
            meths = lib.int_methods(C)
            for tag, width in (('Objects', C.n), ('Properties', C.m)):
                meths[(tag, 'atoms')] = FuncV(tag + '.atoms', lambda p, args, kw, _t=tag, _w=width:
                                              IterV(lambda t: IntV(atomv(t), _t), _w, 'atoms'))

            def use_lemmas(p, e):
                # `use lemma` before the candidate is computed: for the attribute j of this iteration
                K, y, lid = G['cur']
                j = e.j
                p.assume([T.bridge(K, j), T.st_union(K, j), T.st_canon_test(K, j), st_line_closed(C, 'row' if dual else 'col', j),
                          st_line_derivation(C, 'row' if dual else 'col', j)])
                KJ = bor(K, atomv(j))
                use_galois(p, S, KJ)
                use_galois(p, S, K)
                use_galois(p, T.D, S.up(K))
                use_galois(p, T.D, band(S.up(K), T.line(j)))
                # the head invariants for the candidate key (it is not on the stack): instances of lemma.cbo.child_inside
                CJ = T.CJ(K, j)
                p.assume(T.st_child_inside(K, y, j, CJ))
            loops = {'int_methods': meths, 'globals': lib.builtins(), 0: outer_spec, 1: inner_spec, 'on_yield': on_yield,
                     'havoc_stack': lambda p, cur: stack, 'list_repeat': list_repeat,
                     'before_assign_to': {('x'): use_lemmas},
                     'havoc_concept': lambda p, cur: NONE}

            def finish(path, env_, outcome):
                if outcome[0] != 'return':
                    path.oblige('post/no-exception', 'post', BoolVal(False))
                    return
                Y = st['Y']
                d = path.fresh_int('d')
                # the stack is empty: C gives completeness
                path.oblige('post/complete: every closed key has been yielded', 'post', Implies(T.closed(d), Y(d)))
                path.oblige('post/sound: only closed keys have been yielded', 'post', Implies(Y(d), T.closed(d)))
                # in terms of pairs: every formal concept (e, i) is the pair yielded for its key (each yield is the pair
                # (up(K), K) resp. (K, up(K)) of a key yielded for the first time: obligations yield/*)
                from contracts.fcbo import is_concept
                e, i = path.fresh_int('e'), path.fresh_int('i')
                key, other = (e, i) if dual else (i, e)
                use_galois(path, S, key)
                use_galois(path, T.D, other)
                use_galois(path, S, d)
                path.oblige('post/every formal concept is the pair yielded for its key', 'post',
                            Implies(is_concept(C, e, i), And(Y(key), other == S.up(key))))
                path.oblige('post/every yielded pair is a formal concept', 'post',
                            Implies(Y(d), is_concept(C, *((d, S.up(d)) if dual else (S.up(d), d)))))
            return {'context': ctx}, loops, finish
        return axioms, harness
    return make


for _name, _dual in (('fast_generate_from', False), ('fcbo_dual', True)):
    register(Unit('fcbo.%s.complete' % _name, 'concepts/algorithms/fcbo.py', _name, _unit(_dual),
                  assumptions=['the stack as a multiset of (key, index, list identity): pop returns SOME entry (emission order is not part of C04); '
                               'list truthiness = some entry on it',
                               'failed-sets lists as heap objects: copy() allocates a new object, element assignment updates that object only',
                               'bitsets contracts: atoms() = the atoms 2^j ascending, fromint identity, supremum/infimum',
                               'contracts of prime/doubleprime (units matrices.*); lemmas lemma.cbo.* (z3), lemma.galois*, lemma.line_closed, lemma.bits_subset',
                               'termination not proved'],
                  linkage=[('concepts.algorithms.fcbo.' + _name, None), ('concepts.algorithms.' + _name, None)], max_paths=400))
