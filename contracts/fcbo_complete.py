"""Completeness and exactly-once of concepts/algorithms/fcbo.py: fast_generate_from / fcbo_dual (C04).

Proved here (units fcbo.<name>.complete), for all contexts:  the generator yields every formal concept exactly once
(together with the soundness units fcbo.<name>: and nothing else).

Ghost state (versioned uninterpreted functions; "key" = intent for fast_generate_from, extent for fcbo_dual):
  Cnt(K, y)    number of stack entries with key K and index y            (the stack as a multiset; the emission ORDER is not part of C04)
  Lst(K, y)    identity of the failed-sets list object of that entry     (lists are shared between entries and mutated later: modelled as a heap)
  Cont(l, j)   element j of list object l
  Y(D)         the key D has been yielded
Outer invariant (theory and lemmas: contracts/fcbo_theory.py)
  A   Cnt >= 0; an entry has Cnt = 1, a closed key and 0 <= y <= W      (the other component of an entry is up(K): obliged at every push)
  B   entry (K,y), y <= j < W:  Cont(Lst(K,y), j) is a natural with  Cont(..) <= CJ(K, j)       (inherited failed sets are sound)
  C   every closed D is yielded or lies in the subtree In(K,y,D) of some entry
  D   the subtrees of the entries are pairwise disjoint and contain no yielded key
  E   only closed keys are yielded
Inner invariant (k attributes handled: j = W-1 .. W-k, or j = y .. y+k-1 when the code iterates them in ascending order; entry (K,y) popped,
l_n the copied list; children are pushed with index j + off, off = 1 or 0 -- order and off are read off the code on each path, see `P`):
  a   Cnt = Cnt_0 + [ (B,y2) is the child (CJ(K,j), j + off) of a handled valid attribute j ],   b  Lst likewise (children carry l_n)
  c   other lists unchanged;  y <= j < W:  Cont(l_n, j) <= CJ(K, j)
Exit (stack empty): by C every closed key has been yielded; by D (obliged at each yield: not Y(K)) none twice.
"""
from z3 import And, BoolSort, BoolVal, ForAll, Function, If, Implies, Int, IntSort, IntVal, Ints, MultiPattern, Not, Or

from pyvc.bits import atomv, band, bit, bor
from pyvc.engine import BoolV, FuncV, IntV, IterV, ListV, LoopSpec, NONE, ObjV, TupleV
from contracts import lib
from contracts.contexts import full_context_obj
from contracts.fcbo import _at, loop_roles, st_line_closed, st_line_derivation
from contracts.fcbo_theory import CbO, _theory, maskv
from contracts.lemmas_z3 import ext, st_cl_def, st_least, st_up_cl, use_galois
from contracts.registry import Unit, register

I = IntSort()
B = BoolSort()


def _unit(name, dual):
    def make():
        C, T, axioms = _theory(dual)
        S, W = T.S, T.W

        def harness(path):
            cnt = path.eng.counter
            roles = loop_roles(name)        # the name of the stack variable, read off the real AST (robust against renamed locals)

            def fn(name, n, rng=I):
                return Function('%s!%d' % (name, next(cnt)), *([I] * n + [rng]))
            G = path.ghost
            st = {}
            # The shape of the inner invariant, read off the code on this path when the inner loop is reached (`read_shape`), never
            # assumed: every obligation below is generated for the shape that was read, so a wrong reading loses obligations.
            #   off  the child of attribute j is pushed with index j + off; off = 1 (skip j) or off = 0 (j is in the child's key: the
            #        child looks at it once more and skips it; same subtree by lemma.cbo.child_index)
            #   asc  the attributes y .. W-1 are handled in ascending order (else descending): after k iterations the handled ones
            #        are y <= j < y + k (else W - k <= j < W); the emission order is not part of C04
            P = {'off': 1, 'asc': False}

            def cidx(j):
                return j + 1 if P['off'] else j

            def attr(y2):
                return y2 - 1 if P['off'] else y2

            def index_hints(K, j, d):
                return [] if P['off'] else [T.st_union(K, j), T.st_child_index(K, j, d)]
            b_, y_, l_, j_, d_ = Ints('b_ y_ l_ j_ d_')

            def fresh_state(names=('Cnt', 'Lst', 'Cont', 'Y')):
                for nm in names:
                    st[nm] = fn(nm, 1 if nm == 'Y' else 2, B if nm == 'Y' else I)

            def upd2(nm, a, b, val):
                old = st[nm]
                new = fn(nm, 2)
                path.assume(ForAll([b_, y_], new(b_, y_) == If(And(b_ == a, y_ == b), val, old(b_, y_)), patterns=[new(b_, y_), old(b_, y_)]))
                st[nm] = new

            def key_of(concept):
                return concept.items[0 if dual else 1], concept.items[1 if dual else 0]

            def concept_of(K):
                k, o = IntV(K, T.key_tag), IntV(S.up(K), T.other_tag)
                return TupleV([k, o] if dual else [o, k])

            # ---- the failed-sets lists: heap objects
            def setlist(lid):
                o = ObjV('SetList', {}, name='failed_sets')
                o.lid = lid

                def getitem(p, args, kw):
                    _, i = args
                    if G.get('cur'):
                        # the inherited failed set of attribute i is read: the lemma instances for the candidate of i (before it is computed)
                        use_lemmas(p, i.t)
                    p.oblige('index@failed_sets', 'index', And(i.t >= 0, i.t < W))
                    v = st['Cont'](lid, i.t)
                    if G.get('cur'):
                        # use lemma.cbo.basic (skip-sound) for the value read
                        p.assume(T.st_skip_sound(G['cur'][0], i.t, v))
                    return IntV(v, T.key_tag)

                def setitem(p, args, kw):
                    _, i, v = args
                    p.oblige('index@failed_sets', 'index', And(i.t >= 0, i.t < W, BoolVal(isinstance(v, IntV))))
                    upd2('Cont', lid, i.t, v.t)
                    return NONE

                def copy(p, args, kw):
                    ln = p.fresh_int('l_n')
                    Cnt, Lst, Cont = st['Cnt'], st['Lst'], st['Cont']
                    # allocation: the new list object is none of the existing ones
                    p.assume(And(ln != lid, ForAll([b_, y_], Implies(Cnt(b_, y_) > 0, Lst(b_, y_) != ln), patterns=[Lst(b_, y_)])))
                    new = fn('Cont', 2)
                    p.assume(ForAll([l_, j_], new(l_, j_) == If(l_ == ln, Cont(lid, j_), Cont(l_, j_)), patterns=[new(l_, j_)]))
                    st['Cont'] = new
                    G['l_n'] = ln
                    return setlist(ln)
                o.fields['__getitem__'] = FuncV('list.__getitem__', getitem)
                o.fields['__setitem__'] = FuncV('list.__setitem__', setitem)
                o.fields['copy'] = FuncV('list.copy', copy)
                o.fields['__list__'] = FuncV('list', copy)
                return o

            def list_repeat(p, lst, n):
                ok = len(lst.items) == 1 and isinstance(lst.items[0], IntV)
                p.oblige('list-repeat/length', 'post', And(n.t == W, BoolVal(ok)))
                l0 = p.fresh_int('l_0')
                Cont0 = fn('Cont', 2)
                p.assume(ForAll([j_], Cont0(l0, j_) == lst.items[0].t, patterns=[Cont0(l0, j_)]))
                st['Cont'] = Cont0
                return setlist(l0)

            # ---- the stack
            stack = ObjV('Stack', {}, name='stack')

            def truth():
                ne = path.fresh_bool('stack.nonempty')
                Cnt = st['Cnt']
                # list truthiness: the stack is empty iff no entry is on it
                path.assume(Implies(Not(ne), ForAll([b_, y_], Cnt(b_, y_) <= 0, patterns=[Cnt(b_, y_)])))
                G['ne'] = ne
                return ne
            stack.truth_fn = truth

            def pop(p, args, kw):
                p.oblige('pop/stack-nonempty', 'pre@call', G['ne'])
                K, y = p.fresh_int('K'), p.fresh_int('y')
                p.assume(st['Cnt'](K, y) > 0)           # some entry is on the stack (which one is irrelevant for C04)
                lid = st['Lst'](K, y)
                # every entry lies in its own subtree (from the definitions: K <= K, agree(K, K, y))
                p.oblige('pop/entry-in-its-own-subtree', 'lemma', T.In(K, y, K))
                G['cur'] = (K, y, lid)
                G['head'] = dict(st)
                upd2('Cnt', K, y, st['Cnt'](K, y) - 1)
                return TupleV([concept_of(K), IntV(y), setlist(lid)])

            def append(p, args, kw):
                (entry,) = args
                ok = (isinstance(entry, TupleV) and len(entry.items) == 3 and isinstance(entry.items[0], TupleV) and len(entry.items[0].items) == 2
                      and all(isinstance(x, IntV) for x in entry.items[0].items) and isinstance(entry.items[1], IntV)
                      and getattr(entry.items[2], 'cls', None) == 'SetList')
                p.oblige('push/entry-shape', 'pre@call', BoolVal(ok))
                if not ok:
                    return NONE
                k, o = key_of(entry.items[0])
                p.oblige('push/tags', 'pre@call', BoolVal(k.tag == T.key_tag and o.tag == T.other_tag))
                p.oblige('push/other-component-is-the-derivation-of-the-key', 'pre@call', o.t == S.up(k.t))
                yy = entry.items[1].t
                p.oblige('push/key-not-on-stack', 'pre@call', st['Cnt'](k.t, yy) == 0)
                upd2('Cnt', k.t, yy, st['Cnt'](k.t, yy) + 1)
                upd2('Lst', k.t, yy, entry.items[2].lid)
                G.setdefault('pushed', []).append((k.t, yy))
                return NONE
            stack.fields['pop'] = FuncV('stack.pop', pop)
            stack.fields['append'] = FuncV('stack.append', append)

            def on_yield(p, env_, val):
                K, y, lid = G['cur']
                ok = isinstance(val, TupleV) and len(val.items) == 2 and all(isinstance(x, IntV) for x in val.items)
                p.oblige('yield/the-popped-concept', 'yield', And(*[a.t == b.t for a, b in zip(val.items, concept_of(K).items)]) if ok else BoolVal(False))
                p.oblige('yield/exactly-once: not yielded before', 'yield', Not(st['Y'](K)))
                Y2 = fn('Y', 1, B)
                p.assume(ForAll([d_], Y2(d_) == Or(d_ == K, st['Y'](d_)), patterns=[Y2(d_), st['Y'](d_)]))
                st['Y'] = Y2

            # ---- invariants
            def q(phase, vs, body, pats):
                """assume: the quantified formula; entry/preserve: the instance for fresh constants (returned with them)"""
                if phase == 'assume':
                    return ForAll(vs, body(*vs), patterns=pats(*vs)), None
                cs = [path.fresh_int(str(v)) for v in vs]
                return body(*cs), cs

            def outer(en, phase):
                Cnt, Lst, Cont, Y = st['Cnt'], st['Lst'], st['Cont'], st['Y']
                out = []
                if phase == 'assume':
                    oB, oY = fn('own.K', 1), fn('own.y', 1)
                    G['own'] = (oB, oY)
                own = G.get('own')
                cur = G.get('cur') if phase == 'preserve' else None
                # A
                f, cs = q(phase, [b_, y_], lambda b, y: And(Cnt(b, y) >= 0, Implies(Cnt(b, y) > 0, And(Cnt(b, y) == 1, T.closed(b), 0 <= y, y <= W))),
                          lambda b, y: [Cnt(b, y)])
                if cs and cur:
                    path.assume([T.st_union(cur[0], attr(cs[1])), T.bridge(cur[0], attr(cs[1]))])
                out.append(('A entries', f))
                # B
                f, cs = q(phase, [b_, y_, j_], lambda b, y, j: Implies(And(Cnt(b, y) > 0, y <= j, j < W),
                                                                     And(Cont(Lst(b, y), j) >= 0, T.sub(Cont(Lst(b, y), j), T.CJ(b, j)))),
                          lambda b, y, j: [MultiPattern(Cnt(b, y), Cont(Lst(b, y), j))])
                if cs and cur:
                    path.assume([T.st_union(cur[0], attr(cs[1])), T.st_mono(cur[0], cs[0], cs[2]), T.bridge(cur[0], attr(cs[1]))])
                out.append(('B failed-sets-sound', f))
                # C
                if phase == 'assume':
                    oB, oY = own
                    out.append(('C coverage', ForAll([d_], Implies(T.closed(d_), Or(Y(d_), And(Cnt(oB(d_), oY(d_)) > 0, T.In(oB(d_), oY(d_), d_)))),
                                                     patterns=[Y(d_)])))
                elif phase == 'entry':
                    d = path.fresh_int('d')
                    K0 = G['root']
                    path.assume(T.st_root(d))
                    out.append(('C coverage', Implies(T.closed(d), And(Cnt(K0, 0) > 0, T.In(K0, 0, d)))))
                else:
                    d = path.fresh_int('d')
                    K, y, lid = cur
                    oB, oY = own
                    jd = T.jmin(K, d)
                    path.assume([T.st_child_exists(K, y, d), T.st_leaf(K, d), T.st_full(K), T.bridge(K, jd)] + index_hints(K, jd, d))
                    out.append(('C coverage', Implies(T.closed(d), Or(Y(d),
                                                                      And(Cnt(oB(d), oY(d)) > 0, T.In(oB(d), oY(d), d)),
                                                                      And(Cnt(T.CJ(K, jd), cidx(jd)) > 0, T.In(T.CJ(K, jd), cidx(jd), d))))))
                # D
                f, cs = q(phase, [d_, b_, y_], lambda d, b, y: Implies(And(Cnt(b, y) > 0, T.In(b, y, d), T.closed(d)), Not(Y(d))),
                          lambda d, b, y: [MultiPattern(T.agree(b, d, y), Cnt(b, y))])
                if cs and cur:
                    path.assume([T.st_child_inside(cur[0], cur[1], attr(cs[2]), cs[0]), T.bridge(cur[0], attr(cs[2]))]
                                + index_hints(cur[0], attr(cs[2]), cs[0]))
                out.append(('D1 yielded-keys-are-in-no-subtree', f))
                f, cs = q(phase, [d_, b_, y_, l_, j_], lambda d, b, y, b2, y2: Implies(
                    And(Cnt(b, y) > 0, Cnt(b2, y2) > 0, T.In(b, y, d), T.In(b2, y2, d), T.closed(d)), And(b == b2, y == y2)),
                    lambda d, b, y, b2, y2: [MultiPattern(T.agree(b, d, y), T.agree(b2, d, y2), Cnt(b, y), Cnt(b2, y2))])
                if cs and cur:
                    path.assume([T.st_child_inside(cur[0], cur[1], attr(cs[2]), cs[0]), T.st_child_inside(cur[0], cur[1], attr(cs[4]), cs[0]),
                                 T.bridge(cur[0], attr(cs[2])), T.bridge(cur[0], attr(cs[4]))]
                                + index_hints(cur[0], attr(cs[2]), cs[0]) + index_hints(cur[0], attr(cs[4]), cs[0]))
                out.append(('D2 subtrees-disjoint', f))
                # E
                f, cs = q(phase, [d_], lambda d: Implies(Y(d), T.closed(d)), lambda d: [Y(d)])
                out.append(('E yielded-keys-are-closed', f))
                return out

            def outer_inv(en, phase):
                sv = en.val(roles['stack'])
                if phase == 'entry':
                    # the concrete one-element stack [(root concept, 0, [empty set] * W)]
                    ok = (isinstance(sv, ListV) and len(sv.items) == 1 and isinstance(sv.items[0], TupleV) and len(sv.items[0].items) == 3
                          and isinstance(sv.items[0].items[0], TupleV) and len(sv.items[0].items[0].items) == 2
                          and getattr(sv.items[0].items[2], 'cls', None) == 'SetList' and isinstance(sv.items[0].items[1], IntV))
                    if not ok:
                        return [('stack-init', BoolVal(False))]
                    e0 = sv.items[0]
                    k, o = key_of(e0.items[0])
                    K0 = S.cl(IntVal(0))
                    G['root'] = K0
                    path.assume(T.st_up0())
                    use_galois(path, S, IntVal(0))
                    use_galois(path, T.D, T.ofull)
                    use_galois(path, T.D, IntVal(0))
                    Cnt0, Lst0, Y0 = fn('Cnt', 2), fn('Lst', 2), fn('Y', 1, B)
                    path.assume(ForAll([b_, y_], Cnt0(b_, y_) == If(And(b_ == K0, y_ == 0), 1, 0), patterns=[Cnt0(b_, y_)]))
                    path.assume(Lst0(K0, 0) == e0.items[2].lid)
                    path.assume(ForAll([d_], Not(Y0(d_)), patterns=[Y0(d_)]))
                    st.update({'Cnt': Cnt0, 'Lst': Lst0, 'Y': Y0})
                    return [('stack-init', And(k.t == K0, o.t == S.up(K0), e0.items[1].t == 0,
                                               BoolVal(k.tag == T.key_tag and o.tag == T.other_tag)))] + outer(en, phase)
                return outer(en, phase)

            def head_havoc(p, env_):
                fresh_state()
            outer_spec = LoopSpec(outer_inv, ghost_havoc=head_havoc, phased=True)
            outer_spec.modifies = [roles['stack']]

            def inner_inv(en, k, phase):
                K, y, lid = G['cur']
                ln = G['l_n']
                if phase == 'entry':
                    G['st0'] = dict(st)
                s0 = G['st0']
                if phase == 'assume':
                    G['pushed'] = []        # the pushes of the iteration that starts here
                if phase == 'preserve':
                    # definitions of validp / CJf for the attribute of this iteration (first component of the current item of the loop)
                    jcur = G['iter#1'].at(G['k#1']).items[0].t
                    path.assume(T.bridge(K, jcur))
                    # cut: the iteration has pushed exactly the child of its attribute if that attribute is valid, else nothing (proved once
                    # from the tests the code made on this path; the three big obligations below then need no bit-level reasoning)
                    pushed = G.get('pushed', [])
                    if not pushed:
                        cut = Not(T.validp(K, jcur))
                    elif len(pushed) == 1:
                        cut = And(T.validp(K, jcur), pushed[0][0] == T.CJf(K, jcur), pushed[0][1] == cidx(jcur))
                    else:
                        cut = BoolVal(False)
                    path.oblige('inner/pushed-iff-valid-candidate', 'lemma', cut)
                Cnt, Lst, Cont = st['Cnt'], st['Lst'], st['Cont']
                handled = (lambda j: j < y + k) if P['asc'] else (lambda j: W - k <= j)        # among the attributes y <= j < W
                child = lambda b, y2: And(handled(attr(y2)), attr(y2) < W, y <= attr(y2), T.validp(K, attr(y2)), b == T.CJf(K, attr(y2)))
                out = []
                f, cs = q(phase, [b_, y_], lambda b, y2: Cnt(b, y2) == s0['Cnt'](b, y2) + If(child(b, y2), 1, 0), lambda b, y2: [Cnt(b, y2)])
                out.append(('a stack = entry stack + valid children handled so far', f))
                f, cs = q(phase, [b_, y_], lambda b, y2: Implies(child(b, y2), s0['Cnt'](b, y2) == 0), lambda b, y2: [s0['Cnt'](b, y2)])
                out.append(('a2 the children were not on the entry stack', f))
                f, cs = q(phase, [b_, y_], lambda b, y2: Lst(b, y2) == If(child(b, y2), ln, s0['Lst'](b, y2)), lambda b, y2: [Lst(b, y2)])
                out.append(('b children carry the copied list', f))
                f, cs = q(phase, [l_, j_], lambda l, j: Implies(l != ln, Cont(l, j) == s0['Cont'](l, j)), lambda l, j: [Cont(l, j)])
                out.append(('c1 other lists unchanged', f))
                f, cs = q(phase, [j_], lambda j: Implies(And(y <= j, j < W), And(Cont(ln, j) >= 0, T.sub(Cont(ln, j), T.CJ(K, j)))),
                          lambda j: [Cont(ln, j)])
                out.append(('c2 copied list sound', f))
                return out

            def inner_havoc(p, env_):
                fresh_state(('Cnt', 'Lst', 'Cont'))
            inner_spec = LoopSpec(inner_inv, ghost_havoc=inner_havoc, phased=True)

            def read_shape(p, env_):
                """reads P (see above) off the code: the iteration order from the iterable of the inner loop, the index a child is
                pushed with from the `<stack>.append((concept, INDEX, sets))` call in the body of the inner loop (evaluated for a symbolic
                attribute).  Anything that cannot be read keeps the default; the obligations decide."""
                import ast
                import z3
                interp = p.interp
                K, y, lid = G['cur']
                it = G.get('iter#1')
                try:
                    first = z3.simplify(it.at(IntVal(0)).items[0].t - y)
                    P['asc'] = bool(z3.is_int_value(first) and first.as_long() == 0)
                except (AttributeError, IndexError, TypeError, z3.Z3Exception):
                    pass
                try:
                    (loop,) = [n for n in ast.walk(interp.x.node) if isinstance(n, ast.For) and interp.loop_ordinals.get(id(n)) == 1]
                    (push,) = [n for n in ast.walk(loop) if isinstance(n, ast.Call) and isinstance(n.func, ast.Attribute) and n.func.attr == 'append'
                               and isinstance(n.func.value, ast.Name) and env_.get(n.func.value.id) is stack
                               and len(n.args) == 1 and isinstance(n.args[0], ast.Tuple) and len(n.args[0].elts) == 3]
                    jj = p.fresh_int('jj')
                    inner = dict(env_)
                    interp.assign(loop.target, TupleV([IntV(jj), IntV(atomv(jj), T.key_tag)]), inner)
                    d = z3.simplify(interp.eval(push.args[0].elts[1], inner).t - jj)
                    if z3.is_int_value(d) and d.as_long() in (0, 1):
                        P['off'] = d.as_long()
                except Exception:        # the default stands (e.g. the index goes through a local of the loop body); the obligations decide
                    pass
            inner_spec.on_entry = read_shape

            # ---- the context, bitset classes, library contracts
            ctx = full_context_obj(C)
            ctx.fields['shape'] = ObjV('Shape', {'objects': IntV(C.n), 'properties': IntV(C.m)})
            ctx.fields['_extents'].fields['__getitem__'] = FuncV('Vectors.__getitem__', lambda p, args, kw: _at(p, C, 'col', args[1]))
            ctx.fields['_intents'].fields['__getitem__'] = FuncV('Vectors.__getitem__', lambda p, args, kw: _at(p, C, 'row', args[1]))
            meths = lib.int_methods(C)
            for tag, width in (('Objects', C.n), ('Properties', C.m)):
                meths[(tag, 'atoms')] = FuncV(tag + '.atoms', lambda p, args, kw, _t=tag, _w=width:
                                              IterV(lambda t: IntV(atomv(t), _t), _w, 'atoms'))

            def use_lemmas(p, j):
                # `use lemma` before the candidate is computed: for the attribute j of this iteration
                K, y, lid = G['cur']
                p.assume([T.bridge(K, j), T.st_union(K, j), T.st_canon_test(K, j), st_line_closed(C, 'row' if dual else 'col', j),
                          st_line_derivation(C, 'row' if dual else 'col', j)])
                KJ = bor(K, atomv(j))
                use_galois(p, S, KJ)
                use_galois(p, S, K)
                use_galois(p, T.D, S.up(K))
                use_galois(p, T.D, band(S.up(K), T.line(j)))
                # the head invariants for the candidate key (it is not on the stack): instances of lemma.cbo.child_inside
                CJ = T.CJ(K, j)
                p.assume([T.st_child_inside(K, y, j, CJ)] + index_hints(K, j, CJ))
            loops = {'int_methods': meths, 'globals': lib.builtins(), 0: outer_spec, 1: inner_spec, 'on_yield': on_yield,
                     'havoc_' + roles['stack']: lambda p, cur: stack, 'list_repeat': list_repeat,
                     'havoc_concept': lambda p, cur: NONE}

            def finish(path, env_, outcome):
                if outcome[0] != 'return':
                    path.oblige('post/no-exception', 'post', BoolVal(False))
                    return
                Y = st['Y']
                d = path.fresh_int('d')
                # the stack is empty: C gives completeness
                path.oblige('post/complete: every closed key has been yielded', 'post', Implies(T.closed(d), Y(d)))
                path.oblige('post/sound: only closed keys have been yielded', 'post', Implies(Y(d), T.closed(d)))
                # in terms of pairs: every formal concept (e, i) is the pair yielded for its key (each yield is the pair
                # (up(K), K) resp. (K, up(K)) of a key yielded for the first time: obligations yield/*)
                from contracts.fcbo import is_concept
                e, i = path.fresh_int('e'), path.fresh_int('i')
                key, other = (e, i) if dual else (i, e)
                use_galois(path, S, key)
                use_galois(path, T.D, other)
                use_galois(path, S, d)
                path.oblige('post/every formal concept is the pair yielded for its key', 'post',
                            Implies(is_concept(C, e, i), And(Y(key), other == S.up(key))))
                path.oblige('post/every yielded pair is a formal concept', 'post',
                            Implies(Y(d), is_concept(C, *((d, S.up(d)) if dual else (S.up(d), d)))))
            return {'context': ctx}, loops, finish
        return axioms, harness
    return make


for _name, _dual in (('fast_generate_from', False), ('fcbo_dual', True)):
    register(Unit('fcbo.%s.complete' % _name, 'concepts/algorithms/fcbo.py', _name, _unit(_name, _dual),
                  assumptions=['the stack as a multiset of (key, index, list identity): pop returns SOME entry (emission order is not part of C04); '
                               'list truthiness = some entry on it',
                               'failed-sets lists as heap objects: copy() allocates a new object, element assignment updates that object only',
                               'bitsets contracts: atoms() = the atoms 2^j ascending, fromint identity, supremum/infimum',
                               'contracts of prime/doubleprime (units matrices.*); lemmas lemma.cbo.* (z3), lemma.galois*, lemma.line_closed, lemma.bits_subset',
                               'termination not proved'],
                  linkage=[('concepts.algorithms.fcbo.' + _name, None), ('concepts.algorithms.' + _name, None)], max_paths=400))
