"""CHARACTER-level round trip of the CSV format (C12), after the model of contracts/formats_chars.py (cxt) and formats_chars_table.py (table, FIMI).

The row-level units of contracts/formats_csv.py prove WHICH rows `Csv.dumpf` hands to the csv writer and WHICH cell of which row read becomes
which component in `Csv.loadf`; their lemma.csv.roundtrip ASSUMES "csv.reader(csv.writer output) returns the written rows with str() of every
cell".  This module replaces that assumption by a proved statement plus a stated and validated identification:

  lemmas/TextCsv.lean  the csv module IN THE DIALECT THE LIBRARY USES (read off the source: Csv.dialect = csv.excel, handed to csv.writer /
                       csv.reader as `dialect=` and nothing else: delimiter ',', quotechar '"', doublequote, QUOTE_MINIMAL, lineterminator '\\r\\n', not strict) over
                       `List Char`: `csvWriteRow` / `csvWriteRows` (a field is quoted iff it contains ',', '"', '\\r' or '\\n'; quotes doubled; a lone
                       empty field is written as `""`), `csvReadRows` (the reader's state machine, fed line by line as a file object yields them,
                       with the field size limit), and the PROOF `csv_roundtrip`: for ANY rows of ANY texts none of which is longer than the
                       limit, csvReadRows lim (csvWriteRows rows) = some rows.  NO row is excluded: the row without fields is the empty line and
                       is read back as the row without fields; the row [''] is written as `""`; fields with '\\r', '\\n', '\\r\\n' are included.
                       `csv_limit`: a field of lim + 1 characters IS refused (the limit is needed).
  ASSUMED, VALIDATED   "CPython's csv module computes these definitions in this dialect" (pyvc/texts.py: selftest() -- every text over , " \\r \\n blank X up
                       to 6 characters through csv.reader under two ways of cutting it into lines, every such field through csv.writer, rows up to 3 fields,
                       random longer ones, small field size limits; selftest_lean() -- the Lean definitions THEMSELVES with #eval) -- an enumerated
                       scope, not a proof.  Also assumed: csv.writer writes '' for None and str(v) for a number; io.StringIO(newline='') stores
                       what is written unchanged; io.StringIO(text) yields the lines of text cut behind every '\\n'.
  pyvc/texts.py        class Z3TC (the vocabulary), schema L_csv_excel (Lean csv_roundtrip: premise obliged, then conclusion assumed).

Units
  lemma.csv.chars.roundtrip     composition over the CONTRACTS of the proved units (formats.csv.dumpf, tools.write_csv_file, formats.Format.dumps /
                                loads, formats.csv.loadf): under REP below, Csv.loads(Csv.dumps(objects, properties, bools, object_header=h,
                                bools_as_int=a), bools_as_int=a or None) returns ContextArgs(objects, properties, bools) -- same lengths,
                                labels, cells.  What lemma.csv.roundtrip assumed about the csv module is here an instance of Lean csv_roundtrip; the
                                REQUIRES of the loadf contract (every row read has a cell; no _csv.Error) are OBLIGATIONS.
  formats.csv.Csv.loadf.written the REAL code of Csv.loadf executed by the engine on the rows the reader makes of the written text (= the rows written,
                                by the same lemma): the result must be the given triple.
  formats.csv.Csv.dumpf.chars   the REAL code of Csv.dumpf executed; the header and the rows IT HANDS TO tools.write_csv_file, whatever they are, are
                                taken as the rows written; read back by the loadf CONTRACT they must give the given triple (judges changes of
                                the writer that the row-level unit can only report as "a different header / row": the round trip, not the layout).

Every step is one of [contract] [source] [library] [lean] [z3], as in contracts/formats_chars.py.

REP for the csv format (`necessity()`: the proof loses an obligation when a conjunct is dropped; bounded/csv_rep.py: exact on its scope)
  len(bools) == len(objects)                    (zip stops with the shorter one: the surplus objects / rows are not written)
  every object / property label is a str with at most L := csv.field_size_limit() characters (131072 unless changed); ANY characters: '', 'X', '0',
      commas, quotes, '\\r', '\\n', '\\r\\n', blanks at the ends, NUL, str.isspace characters
  object_header is None or such a str           (it is written into the first header cell and DROPPED by loadf: `del object_header`)
  L >= 1                                        (the cell symbols 'X', '0', '1' are one character long)
  loading with bools_as_int=None (auto-detection): len(objects) >= 1 (StopIteration otherwise: next(reader) on a file without data rows), and
      for a 0/1 file the first row shows a symbol or no row has one (a first row WITHOUT cells fits the X/'' table, which then meets '0' / '1')
  NOT needed: len(properties) >= 1 (no property: header [object_header], rows [object]; a lone '' is written as `""`), rows of equal length (a
      ragged `bools` comes back as given), non-empty labels, labels different from the cell symbols (objects are not looked up in `values`).
  Outside REP (bounded/csv_rep.py): a label of L + 1 characters -> _csv.Error; a label that is not a str comes back as its str();
      len(bools) != len(objects) -> a shorter result WITHOUT an exception; no object with auto-detection -> StopIteration;
      loading with the other bools_as_int -> KeyError (or the right result by accident when there is no cell at all).
NOT covered by the statement: `dump` / `load` through real files (codecs; a file opened with newline='' also ends lines at '\\r' -- the reader's
state machine is validated under that cutting too, but the Lean proof is for io.StringIO(text)); a `dialect` argument; csv files written by
other programs (loadf accepts more than dumpf writes); csv.field_size_limit() changed between dumps and loads.
"""
import ast

from z3 import And, BoolSort, BoolVal, Const, ForAll, Function, If, Implies, Int, IntSort, Not, Or

from pyvc import bits, extract, texts
from pyvc.engine import Unsupported
from contracts import formats_chars as fc
from contracts import formats_csv as fcsv
from contracts.formats_chars_table import use
from contracts.registry import Unit, register

I, B = IntSort(), BoolSort()
CSVF, BASE = fcsv.CSVF, 'concepts/formats/base.py'


# ---------------------------------------------------------------------------------------------------------------------
# [source] the constants of the class Csv, evaluated from the (possibly overridden) source text

def csv_constants():
    """{'newline', 'dumps_rstrip', 'dialect', 'subclass_of_Format', 'csv_is_the_module'} of the class Csv as the class statement computes
    them: the attributes its body assigns, else the defaults of Format (base.py).  'dialect': the dotted name the body assigns ('csv.excel') or
    the repr of a str / None constant, KeyError for anything else; 'csv_is_the_module': the module does `import csv` and binds the name
    nowhere else at its top level."""
    _, base = extract.parse_file(BASE)
    _, mod = extract.parse_file(CSVF)
    cls = fc._class_body(mod, 'Csv')
    inherited = fc._simple_assigns(fc._class_body(base, 'Format').body, {})
    own = fc._simple_assigns(cls.body, fc._simple_assigns(mod.body, {}))
    assigned = fc._assigned(cls.body)
    out = {k: (own.get(k, KeyError) if k in assigned else inherited.get(k, KeyError)) for k in ('dumps_rstrip', 'newline')}
    out['dialect'] = KeyError
    for st in cls.body:
        if isinstance(st, ast.Assign) and len(st.targets) == 1 and isinstance(st.targets[0], ast.Name) and st.targets[0].id == 'dialect':
            v = st.value
            out['dialect'] = '%s.%s' % (v.value.id, v.attr) if isinstance(v, ast.Attribute) and isinstance(v.value, ast.Name) else \
                (repr(v.value) if isinstance(v, ast.Constant) and (isinstance(v.value, str) or v.value is None) else KeyError)
    imports = [a for st in mod.body if isinstance(st, ast.Import) for a in st.names if (a.asname or a.name) == 'csv']
    rebinds = [st for st in mod.body if (isinstance(st, (ast.FunctionDef, ast.ClassDef)) and st.name == 'csv')
               or (isinstance(st, ast.Assign) and any(isinstance(t, ast.Name) and t.id == 'csv' for t in st.targets))
               or (isinstance(st, ast.ImportFrom) and any((a.asname or a.name) == 'csv' for a in st.names))]
    out['csv_is_the_module'] = len(imports) == 1 and imports[0].name == 'csv' and not rebinds
    out['subclass_of_Format'] = len(cls.bases) == 1 and isinstance(cls.bases[0], ast.Name) and cls.bases[0].id == 'Format'
    return out


# [library, validated by texts.selftest()] the three spellings of the excel dialect: csv.reader / csv.writer given dialect=csv.excel, dialect='excel'
# (the registered name) or dialect=None (no dialect: the defaults of the C module) have the parameters texts.EXCEL_DIALECT
EXCEL_NAMES = ('csv.excel', repr('excel'), repr(None))


def is_excel(d, excel):
    """the value handed over as `dialect=` is one of the three spellings"""
    from pyvc.engine import NoneV, StrV
    return d is excel or isinstance(d, NoneV) or (isinstance(d, StrV) and d.value == 'excel')


def _calls_of(relpath, qualname, modname, attr):
    """the calls `modname.attr(...)` in the body of the function"""
    x = extract.get_function(relpath, qualname)
    return [nd for nd in ast.walk(x.node) if isinstance(nd, ast.Call) and isinstance(nd.func, ast.Attribute) and nd.func.attr == attr
            and isinstance(nd.func.value, ast.Name) and nd.func.value.id == modname]


def _is_call_file_dialect(call):
    """the call has the shape  f(file, dialect=dialect)  -- the file, the dialect, and NO other formatting parameter"""
    return (len(call.args) == 1 and isinstance(call.args[0], ast.Name) and call.args[0].id == 'file' and len(call.keywords) == 1
            and call.keywords[0].arg == 'dialect' and isinstance(call.keywords[0].value, ast.Name) and call.keywords[0].value.id == 'dialect')


def csv_call_shapes():
    """[source] how the two functions reach the csv module: tools.write_csv_file makes ONE `csv.writer(file, dialect=dialect)`, Csv.loadf ONE
    `csv.reader(file, dialect=dialect)` -- no formatting parameter (delimiter=, quotechar=, quoting=, lineterminator=, skipinitialspace=, strict=, ...)
    overrides the dialect; `csv` is the stdlib module in tools.py too.  (WHICH values reach the two calls as `file` and `dialect` is the business of the
    row-level units tools.write_csv_file, formats.csv.dumpf and formats.csv.loadf; this check is about the SHAPE of the call only.)"""
    TL = 'concepts/tools.py'
    w, r = _calls_of(TL, 'write_csv_file', 'csv', 'writer'), _calls_of(CSVF, 'Csv.loadf', 'csv', 'reader')
    _, mod = extract.parse_file(TL)
    imports = [a for st in mod.body if isinstance(st, ast.Import) for a in st.names if (a.asname or a.name) == 'csv']
    return {'writer': len(w) == 1 and _is_call_file_dialect(w[0]), 'reader': len(r) == 1 and _is_call_file_dialect(r[0]),
            'tools_csv_is_the_module': len(imports) == 1 and imports[0].name == 'csv'}


def oblige_constants(path):
    """[source] Csv is a Format whose buffer neither translates line ends nor is right-stripped, and whose dialect is the one of the model"""
    k = csv_constants()
    path.oblige('source/Csv-is-a-Format-and-csv-is-the-stdlib-module', 'source', BoolVal(bool(k['subclass_of_Format'] and k['csv_is_the_module'])))
    path.oblige('source/Csv.dialect-is-csv.excel (the dialect of lemmas/TextCsv.lean; or its registered name "excel", or None: the same parameters)',
                'source', BoolVal(k['dialect'] in EXCEL_NAMES))
    sh = csv_call_shapes()
    path.oblige('source/tools.write_csv_file-makes-csv.writer(file, dialect=dialect)-with-no-other-formatting-parameter', 'source',
                BoolVal(bool(sh['writer'] and sh['tools_csv_is_the_module'])))
    path.oblige('source/Csv.loadf-makes-csv.reader(file, dialect=dialect)-with-no-other-formatting-parameter', 'source', BoolVal(bool(sh['reader'])))
    path.oblige('source/Csv.newline-is-the-empty-text (io.StringIO(newline="") stores what the writer writes unchanged)', 'source', BoolVal(k['newline'] == ''))
    path.oblige('source/Csv.dumps_rstrip-is-false (the text is handed on as written)', 'source',
                BoolVal(k['dumps_rstrip'] is not KeyError and not k['dumps_rstrip']))
    return k


def _axioms(T):
    return bits.axioms() + fcsv.text_axioms() + T.axioms()


# ---------------------------------------------------------------------------------------------------------------------
# the abstract table, REP, the rows handed to the writer, the text, the rows read back

class Table:
    """n objects, m properties, nb rows of cells (row r has ncols(r) cells); REP (hypotheses; `drop`: conjuncts to leave out, necessity() only)"""

    def __init__(self, path, T, drop=()):
        self.T, self.drop = T, tuple(drop)
        self.n, self.m, self.nb = Int('len(objects)'), Int('len(properties)'), Int('len(bools)')
        self.O, self.P = Function('object', I, T.Txt), Function('property', I, T.Txt)
        self.Bv, self.ncols = Function('bool', I, I, B), Function('len(row)', I, I)
        self.OHT = Const('object_header', T.Txt)
        self.lim = T.csv_limit()
        q = Int('q')
        path.assume(And(self.n >= 0, self.m >= 0, self.nb >= 0, ForAll([q], self.ncols(q) >= 0, patterns=[self.ncols(q)])))
        rep = {'one-row-per-object': self.nb == self.n,
               'object-labels-fit-the-field-size-limit': ForAll([q], Implies(And(0 <= q, q < self.n), T.tlen(self.O(q)) <= self.lim), patterns=[self.O(q)]),
               'property-labels-fit-the-field-size-limit': ForAll([q], Implies(And(0 <= q, q < self.m), T.tlen(self.P(q)) <= self.lim), patterns=[self.P(q)]),
               'object-header-fits-the-field-size-limit': T.tlen(self.OHT) <= self.lim,
               'field-size-limit-at-least-one': self.lim >= 1}
        self.rep_names = sorted(rep)
        for name in self.rep_names:
            if name not in self.drop:
                path.assume(rep[name])
        self.lits = {s: fcsv.lit(s) for s in fcsv.BASE_LITS}
        for _, f in T.literal_facts(self.lits):          # the lengths of '', 'X', '0', '1', evaluated with CPython
            path.assume(f)

    def auto_detection(self, a):
        """REP, loading with bools_as_int=None: a data row exists, and a 0/1 file shows a symbol in its first row or has none at all"""
        q = Int('q')
        pre = []
        if 'at-least-one-object' not in self.drop:
            pre.append(self.n >= 1)
        if a and 'auto-detection-sees-a-symbol' not in self.drop:
            pre.append(Or(self.ncols(0) >= 1, ForAll([q], Implies(And(0 <= q, q < self.n), self.ncols(q) == 0), patterns=[self.ncols(q)])))
        return And(*pre) if pre else BoolVal(True)


class Written:
    """[contract formats.csv.dumpf + tools.write_csv_file] the rows handed to the writer; [lean + library] L_csv_excel: the reader returns them"""

    def __init__(self, path, T, tag, nrows, header_len, header_cell, row_len, row_cell):
        """rows R: row 0 = the header (header_len cells header_cell(c)), row 1 + r (r < nrows) has row_len(r) cells row_cell(r, c)"""
        self.T = T
        R = self.R = Const('written-rows' + tag, T.Rows)
        r, c = Int('r'), Int('c')
        hdr = T.row_at(R, 0)
        path.assume(And(T.nrows(R) == 1 + nrows, T.ncells(hdr) == header_len,
                        ForAll([c], Implies(And(0 <= c, c < header_len), T.cell_at(hdr, c) == header_cell(c)), patterns=[T.cell_at(hdr, c)]),
                        ForAll([r], Implies(And(1 <= r, r <= nrows), T.ncells(T.row_at(R, r)) == row_len(r - 1)), patterns=[T.row_at(R, r)]),
                        ForAll([r, c], Implies(And(1 <= r, r <= nrows, 0 <= c, c < row_len(r - 1)), T.cell_at(T.row_at(R, r), c) == row_cell(r - 1, c)),
                               patterns=[T.cell_at(T.row_at(R, r), c)])))
        # [lean TextCsv.csv_roundtrip + library: the csv module computes csvWriteRows / csvReadRows] premise: every cell fits the limit
        use(path, 'csv-module' + tag, texts.L_csv_excel(T, R))
        # [contract tools.write_csv_file: writer.writerow(header), writer.writerows(rows); Format.dumps: io.StringIO(newline=Csv.newline), the text
        # as written (dumps_rstrip false)]  [contract Format.loads: loadf(io.StringIO(text))]
        self.text = T.excel_text(R)
        self.Rr = T.excel_read(self.text)


class ReadFile(fcsv.CsvFile):
    """the rows the reader yields for the written text, seen as the file model of the contract of formats.csv.loadf (row 0 the header, rows 1..n
    the data rows)"""

    def __init__(self, T, Rr):          # noqa: super().__init__ not called on purpose: the accessors are views of Rr, not fresh functions
        self.cell = lambda r, c: T.cell_at(T.row_at(Rr, r), c)
        self.rowlen = lambda r: T.ncells(T.row_at(Rr, r))
        self.n = T.nrows(Rr) - 1


def dumpf_rows(path, T, tb, a, oh_given, tag):
    """[contract formats.csv.dumpf] header = [object_header] + list(properties); one row per (object, bools-row) pair in zip order (zip stops
    with the shorter one), row r = [objects[r]] + [SYM[a][b] for b in bools[r]].  [library] the writer writes '' for None and str(v) for a
    number: the header cell is '' when object_header is None, the symbols are written as str(SYM[a][b])."""
    K = Int('len(zip(objects, bools))' + tag)
    path.assume(And(K >= 0, K <= tb.n, K <= tb.nb, Or(K == tb.n, K == tb.nb)))
    OH = tb.OHT if oh_given else fcsv.lit('')
    w = Written(path, T, tag, K, 1 + tb.m, lambda c: If(c == 0, OH, tb.P(c - 1)),
                lambda r: 1 + tb.ncols(r), lambda r, c: If(c == 0, tb.O(r), fcsv.written(a, tb.Bv(r, c - 1))))
    return w


def read_back(path, T, tb, w, a, mode, tag):
    """[contract formats.csv.loadf] on the rows read back: its REQUIRES are obligations (no _csv.Error, every row has a cell), no exception of its
    contract is due, its ENSURES give the result; [z3] the result is the given triple"""
    F = ReadFile(T, w.Rr)
    n, m = tb.n, tb.m
    pre = tb.auto_detection(a) if mode is None else BoolVal(True)
    r = path.fresh_int('r')
    path.oblige('loadf-requires/the-reader-raises-no-csv.Error' + tag, 'lemma', T.excel_ok(w.text))
    path.oblige('loadf-requires/every-row-read-has-a-cell' + tag, 'lemma', Implies(And(0 <= r, r <= F.n), F.rowlen(r) >= 1))
    fitsF, fitsT = fcsv.z3_bool('fitsF' + tag), fcsv.z3_bool('fitsT' + tag)
    path.assume(And(fitsF == F.fits(False), fitsT == F.fits(True)))                 # definitions of the contract's vocabulary
    # an instance of the description of the rows: the first symbol of the first data row (what the auto-detection looks at)
    path.oblige('instance/first-symbol-of-the-first-row' + tag, 'lemma',
                Implies(And(n >= 1, tb.nb >= 1, tb.ncols(0) >= 1), F.cell(1, 1) == fcsv.written(a, tb.Bv(0, 0))))
    for exc, cond in fcsv.load_raises(F, mode, fitsF, fitsT).items():
        path.oblige('no-%s%s' % (exc, tag), 'lemma', Implies(pre, Not(cond)))

    class Res:
        objs_len, props_len, bools_len = Int('objs.len' + tag), Int('props.len' + tag), Int('bools.len' + tag)
        obj, prop = Function('objs' + tag, I, T.Txt), Function('props' + tag, I, T.Txt)
        brow_len, bcell = Function('bools.rowlen' + tag, I, I), Function('bools.cell' + tag, I, I, B)
    for nm, vs, f, pat in fcsv.load_post(F, mode, fitsF, Res):
        path.assume(Implies(pre, ForAll(vs, f, patterns=[pat]) if vs else f))
    goals(path, tb, Res, pre, tag)


def goals(path, tb, Res, pre, tag):
    n, m = tb.n, tb.m
    jj, tt, cc = path.fresh_int('j'), path.fresh_int('t'), path.fresh_int('c')
    path.oblige('objects-as-given' + tag, 'lemma', Implies(pre, And(Res.objs_len == n, Implies(And(0 <= jj, jj < n), Res.obj(jj) == tb.O(jj)))))
    path.oblige('properties-as-given' + tag, 'lemma', Implies(pre, And(Res.props_len == m, Implies(And(0 <= tt, tt < m), Res.prop(tt) == tb.P(tt)))))
    path.oblige('bools-shape-as-given' + tag, 'lemma',
                Implies(pre, And(Res.bools_len == tb.nb, Implies(And(0 <= jj, jj < tb.nb), Res.brow_len(jj) == tb.ncols(jj)))))
    path.oblige('bools-as-given' + tag, 'lemma', Implies(And(pre, 0 <= jj, jj < tb.nb, 0 <= cc, cc < tb.ncols(jj)), Res.bcell(jj, cc) == tb.Bv(jj, cc)))


CASES = [(a, mode, oh) for a in (False, True) for mode in (a, None) for oh in (False, True)]


def _roundtrip_lemma(drop=(), cases=CASES):
    def make():
        fcsv._text_sort()
        T = texts.Z3TC()

        def prove(path):
            tb = Table(path, T, drop=drop)
            oblige_constants(path)
            for a, mode, oh in cases:
                tag = '/dump=%s,load=%s,object_header=%s' % (a, mode, 'given' if oh else None)
                w = dumpf_rows(path, T, tb, a, oh, tag)
                read_back(path, T, tb, w, a, mode, tag)
        return _axioms(T), prove
    return make


_LIBRARY = ['ASSUMED library contract (schema L_csv_excel; validated on an enumerated scope by pyvc/texts.py selftest() and selftest_lean(), not proved): in '
            'the excel dialect csv.writer(buf).writerow / writerows write csvWriteRow (lemmas/TextCsv.lean) for every row of texts into an '
            'io.StringIO(newline=""), which stores it unchanged; csv.reader over io.StringIO(text) yields csvReadRows (csv.field_size_limit()) text, '
            '_csv.Error where that is `none`; the writer writes "" for None and str(v) for a number',
            'Lean (lemmas/TextCsv.lean, premise obliged here): csv_roundtrip -- for ANY rows of texts none longer than the field size limit the reader '
            'returns the rows written (no row or character excluded); SMT <-> Lean: lemmas/README.md',
            'constants read from the source and checked: Csv.dialect is csv.excel (of the stdlib module csv), Csv.newline is "", Csv.dumps_rstrip is False; '
            'the lengths of the literals "", "X", "0", "1" are evaluated with CPython',
            'REP: len(bools) == len(objects); labels and a given object_header are texts of at most csv.field_size_limit() >= 1 characters (ANY characters); '
            'for bools_as_int=None on loading at least one object, and a 0/1 file shows a symbol in its first row or has no cell at all '
            '(module docstring, necessity(), bounded/csv_rep.py)']

register(Unit('lemma.csv.chars.roundtrip', None, None, _roundtrip_lemma(),
              assumptions=['contracts of the proved units formats.csv.dumpf (header and rows handed to tools.write_csv_file with the class dialect), '
                           'tools.write_csv_file (csv.writer(file, dialect=dialect): the header through writerow, the rows through writerows), '
                           'formats.Format.dumps / loads (io.StringIO(newline=cls.newline), the text as written / loadf(io.StringIO(text))), formats.csv.loadf '
                           '(which cell of which row read becomes which component; its file model "rows with at least one cell" is an obligation here)'] + _LIBRARY))


# =====================================================================================================================
# formats.csv.Csv.dumpf.chars: the real dumpf; the rows IT hands to the writer, read back

def written_text(path, T, tb, v):
    """[library] the text the csv writer makes of one cell value: '' for None, the text itself, str() of a number; a conditional value: the
    conditional text.  New literals get their length from CPython."""
    from z3 import Z3_OP_ITE, is_app_of, is_int_value, simplify
    from pyvc.engine import BoolV, IntV, IteV, NoneV, StrV, TermV

    def literal(s):
        if s not in tb.lits:
            tb.lits[s] = fcsv.lit(s, path)
            path.assume(T.tlen(tb.lits[s]) == len(s))
        return tb.lits[s]
    if isinstance(v, NoneV):
        return literal('')
    if isinstance(v, IteV):
        return If(v.c, written_text(path, T, tb, v.a), written_text(path, T, tb, v.b))
    if isinstance(v, StrV) and v.value is not None:
        return literal(v.value)
    if isinstance(v, IntV):
        def int_text(t):                # str() of an int that is a numeral, or a conditional between such
            if is_int_value(t):
                return literal(str(t.as_long()))
            if is_app_of(t, Z3_OP_ITE):
                return If(t.arg(0), int_text(t.arg(1)), int_text(t.arg(2)))
            raise Unsupported('str() of the symbolic int %s handed to the csv writer' % t)
        return int_text(simplify(v.t))
    if isinstance(v, BoolV) and fcsv.concrete_bool(v) is not None:
        return literal(str(fcsv.concrete_bool(v)))
    if isinstance(v, TermV) and v.t.sort() == T.Txt:
        return v.t
    raise Unsupported('a cell %r handed to the csv writer' % (v,))


def cells_of(path, T, tb, v):
    """a row handed to the writer -> (number of cells, c -> the text written for cell c)"""
    from pyvc.engine import ListV
    if isinstance(v, fcsv.Prefixed):
        pre, rest = list(v.prefix), v.rest
    elif isinstance(v, fcsv.SymList):
        pre, rest = [], v.seq
    elif isinstance(v, ListV):
        pre, rest = list(v.items), None
    else:
        raise Unsupported('a row %r handed to the csv writer' % (v,))
    pre = [written_text(path, T, tb, x) for x in pre]
    length = len(pre) + (rest.length if rest is not None else 0)

    def at(c):
        e = written_text(path, T, tb, rest.at(c - len(pre))) if rest is not None else fcsv.lit('')
        for i in reversed(range(len(pre))):
            e = If(c == i, pre[i], e)
        return e
    return length, at


def _dumpf_chars_unit():
    def make():
        from z3 import substitute
        from pyvc.engine import BoolV, FuncV, IterV, NONE, NoneV, ObjV, SeqV, StrV, TermV
        fcsv._text_sort()
        T = texts.Z3TC()

        def harness(path):
            tb = Table(path, T)
            calls = []
            file = ObjV('Arg', {}, name='file')
            cls = fcsv.csv_class()
            excel = ObjV('dialect', {}, name='csv.excel')
            csvmod = ObjV('module', {'excel': excel}, name='csv')
            tools = ObjV('module', {'write_csv_file': FuncV('tools.write_csv_file', lambda p, a, k: calls.append((a, k)) or NONE)}, name='tools')
            objects, properties = fcsv.labels(tb.O, tb.n, 'objects'), fcsv.labels(tb.P, tb.m, 'properties')
            bools = IterV(lambda r: SeqV(lambda c: BoolV(tb.Bv(r, c)), tb.ncols(r), 'bools[%s]' % r), tb.nb, 'bools')
            env = {'cls': cls, 'file': file, 'objects': objects, 'properties': properties, 'bools': bools}
            case = path.choose([Int('case.bools_as_int') == c for c in range(3)])          # default (False) / False / True
            if case:
                env['bools_as_int'] = BoolV(case == 2)
            a = case == 2
            oh_given = path.branch(fcsv.z3_bool('object_header_given'))
            if oh_given:
                env['object_header'] = TermV(tb.OHT)

            def finish(path, env_, outcome):
                if outcome[0] != 'return':
                    path.oblige('post/no-exception', 'post', BoolVal(False))
                    return
                oblige_constants(path)
                ok = len(calls) == 1 and len(calls[0][0]) == 2 and set(calls[0][1]) == {'header', 'dialect'} and isinstance(outcome[1], NoneV)
                path.oblige('post/one-call-of-write_csv_file(file, rows, header=, dialect=)', 'post', BoolVal(ok))
                if not ok:
                    return
                (f, rows), kw = calls[0]
                d = kw['dialect']
                path.oblige('post/into-the-file-with-the-class-dialect', 'post',
                            BoolVal(f is file and is_excel(d, excel)))
                okr = isinstance(rows, IterV) and not isinstance(kw['header'], NoneV)
                path.oblige('post/a-header-and-an-iterable-of-rows', 'post', BoolVal(okr))
                if not okr:
                    return
                # the cells as the code built them, at an arbitrary row r0 and position c0 (then for all: the expressions do not depend on which)
                r0, c0 = path.fresh_int('r0'), path.fresh_int('c0')
                hlen, hat = cells_of(path, T, tb, kw['header'])
                rlen, rat = cells_of(path, T, tb, rows.at(r0))
                rcell = rat(c0)
                for mode in (a, None):
                    tag = '/load=%s' % (mode,)
                    w = Written(path, T, tag, rows.length, hlen, hat, lambda r: substitute(rlen, (r0, r)) if not isinstance(rlen, int) else rlen,
                                lambda r, c: substitute(rcell, (r0, r), (c0, c)))
                    read_back(path, T, tb, w, a, mode, tag)
            g = fcsv.base_globals(path)
            g.update(csv=csvmod, tools=tools)
            return env, {'globals': g, 'module_constants': True, 'dict_factory': fcsv.Table}, finish
        return _axioms(T), harness
    return make


register(Unit('formats.csv.Csv.dumpf.chars', CSVF, 'Csv.dumpf', _dumpf_chars_unit(),
              assumptions=['the header and the rows handed to tools.write_csv_file are read off the run of the real code; contracts of the proved units '
                           'tools.write_csv_file, formats.Format.dumps / loads, formats.csv.loadf (its file model is an obligation here)',
                           'REQUIRES bools cells are bool and bools_as_int is a bool; dialect left at its default; generator expression = element-wise map '
                           'over zip(objects, bools) in order, zip stops with the shorter argument'] + _LIBRARY,
              linkage=[('concepts.formats.Csv.dumpf.__func__', None)]))


# =====================================================================================================================
# formats.csv.Csv.loadf.written: the real loadf on the rows the reader makes of the written text

def _loadf_written_unit():
    """The harness of unit formats.csv.loadf (contracts/formats_csv.py: the reader as an iterator over the rows of a file model, ghost lists for
    `objects` and `bools`, the same loop invariant) with the file model REPLACED by the rows read back from the text Csv.dumps wrote, and the
    postcondition replaced by "the result is the given triple"."""
    def make():
        from z3 import IntVal, simplify
        from pyvc.engine import BoolV, FuncV, IterV, ListV, LoopSpec, ObjV, PyRaise, SeqV, StrV, TermV
        fcsv._text_sort()
        T = texts.Z3TC()

        def harness(path):
            tb = Table(path, T)
            # what was dumped: bools_as_int False / True, object_header None / given; how it is loaded: with the same flag / with auto-detection
            a = path.choose([Int('case.dumped.bools_as_int') == c for c in range(2)]) == 1
            oh = path.branch(fcsv.z3_bool('object_header_given'))
            auto = path.branch(fcsv.z3_bool('load.bools_as_int-is-None'))
            mode = None if auto else a
            w = dumpf_rows(path, T, tb, a, oh, '')
            F = ReadFile(T, w.Rr)
            if auto:
                path.assume(tb.auto_detection(a))              # REP for auto-detection
            r_ = path.fresh_int('r')
            path.oblige('file/the-reader-raises-no-csv.Error', 'lemma', T.excel_ok(w.text))
            path.oblige('file/every-row-read-has-a-cell', 'lemma', Implies(And(0 <= r_, r_ <= F.n), F.rowlen(r_) >= 1))
            q = Int('q')
            path.assume(And(F.n >= 0, ForAll([q], Implies(And(0 <= q, q <= F.n), F.rowlen(q) >= 1), patterns=[F.rowlen(q)])))
            path.oblige('instance/first-symbol-of-the-first-row', 'lemma',
                        Implies(And(tb.n >= 1, tb.nb >= 1, tb.ncols(0) >= 1), F.cell(1, 1) == fcsv.written(a, tb.Bv(0, 0))))
            calls = []
            file = ObjV('Arg', {}, name='file')
            cls = fcsv.csv_class()
            excel = ObjV('dialect', {}, name='csv.excel')
            env = {'cls': cls, 'file': file}
            if not auto:
                env['bools_as_int'] = BoolV(a)
            total = F.n + 1
            st = {'pos': IntVal(0)}
            reader = ObjV('csv.reader', {}, name='reader')

            def next_(p, a_, k):
                if p.branch(st['pos'] < total):
                    r = F.row(st['pos'])
                    st['pos'] = simplify(st['pos'] + 1)
                    return r
                raise PyRaise('StopIteration')

            def iter_(p, a_, k):
                pos = st['pos']
                st['pos'] = total
                return IterV(lambda t: F.row(pos + t), total - pos, 'rest(reader)')
            reader.fields['__next__'] = FuncV('reader.__next__', next_)
            reader.fields['__iter__'] = FuncV('reader.__iter__', iter_)

            def csv_reader(p, a_, k):
                calls.append(('reader', a_, k))
                return reader

            def chain(p, a_, k):
                if len(a_) != 2 or not isinstance(a_[0], ListV) or a_[1] is not reader or not all(getattr(x, 'r', None) is not None for x in a_[0].items):
                    raise Unsupported('chain of %r' % (a_,))
                pre = [x.r for x in a_[0].items]
                rest = iter_(p, [], {})
                pos = total - rest.length

                def idx(t):
                    e = pos + (t - len(pre))
                    for i in reversed(range(len(pre))):
                        e = If(t == i, pre[i], e)
                    return e

                def at(t):
                    r = p.fresh_int('chain.row')
                    p.assume(r == idx(t))
                    return F.row(r)
                return IterV(at, rest.length + len(pre), 'chain')

            def context_args(p, a_, k):
                o = ObjV('ContextArgs', {}, name='ContextArgs(...)')
                o.args, o.kw = a_, k
                return o

            def hook(lst, x):
                fcsv.ghost_of(path, lst).append(x)
                return True
            path.ghost['list_append_hook'] = hook
            loop = fcsv.top_level_for(CSVF, 'Csv.loadf')

            def inv(e, k):
                go, gb = fcsv.ghost_of(path, e.val('objects')), fcsv.ghost_of(path, e.val('bools'))
                tab = getattr(e.val('get_value'), 'table', None)
                if tab is None:
                    raise Unsupported('get_value is not a table lookup')
                j, c = Int('j'), Int('c')
                return [('objects-so-far', And(go.len == k, ForAll([j], Implies(And(0 <= j, j < k), go.text(j) == F.cell(j + 1, 0)), patterns=[go.text(j)]))),
                        ('bools-so-far/rows', And(gb.len == k, ForAll([j], Implies(And(0 <= j, j < k), gb.rlen(j) == F.rowlen(j + 1) - 1), patterns=[gb.rlen(j)]))),
                        ('bools-so-far/cells', ForAll([j, c], Implies(And(0 <= j, j < k, 0 <= c, c < F.rowlen(j + 1) - 1),
                                                                       gb.rcell(j, c) == tab.decode(path, F.cell(j + 1, c + 1)).t), patterns=[gb.rcell(j, c)]))]

            def ghost_havoc(p, env_):
                for nm in ('objects', 'bools'):
                    fcsv.ghost_of(p, env_[nm]).havoc()
            spec = LoopSpec(inv, ghost_havoc=ghost_havoc)

            def finish(path, env_, outcome):
                oblige_constants(path)
                if outcome[0] != 'return':
                    path.oblige('post/no-exception (%s)' % (outcome[1],), 'post', BoolVal(False))
                    return
                d = calls[0][2].get('dialect') if len(calls) == 1 else None
                okc = len(calls) == 1 and calls[0][1] == [file] and set(calls[0][2]) == {'dialect'} and is_excel(d, excel)
                path.oblige('post/reads-the-file-with-csv.reader(file, dialect=the class default)', 'post', BoolVal(okc))
                res = outcome[1]
                ok = isinstance(res, ObjV) and res.cls == 'ContextArgs' and len(res.args) == 3 and not res.kw \
                    and all(isinstance(res.args[i], ListV) and not res.args[i].items and getattr(res.args[i], 'ghost', None) is not None for i in (0, 2)) \
                    and res.args[0] is not res.args[2] and isinstance(res.args[1], SeqV) \
                    and res.args[0].ghost.kind in (None, 'text') and res.args[2].ghost.kind in (None, 'row')
                path.oblige('post/returns-ContextArgs(objects, properties, bools)', 'post', BoolVal(ok))
                if not ok:
                    return
                go, gb, props = res.args[0].ghost, res.args[2].ghost, res.args[1]

                class Res:
                    objs_len, obj, props_len, bools_len, brow_len, bcell = go.len, go.text, props.length, gb.len, gb.rlen, gb.rcell

                    @staticmethod
                    def prop(t):
                        v = props.at(t)
                        return v.t if isinstance(v, TermV) and v.t.sort() == T.Txt else Const('not-a-text', T.Txt)
                goals(path, tb, Res, BoolVal(True), '')
            g = fcsv.base_globals(path)
            g.update(csv=ObjV('module', {'reader': FuncV('csv.reader', csv_reader), 'excel': excel}, name='csv'),
                     itertools=ObjV('module', {'chain': FuncV('itertools.chain', chain)}, name='itertools'),
                     ContextArgs=FuncV('ContextArgs', context_args))
            return env, {'globals': g, 'module_constants': True, 'dict_factory': fcsv.Table, loop: spec}, finish
        return _axioms(T), harness
    return make


register(Unit('formats.csv.Csv.loadf.written', CSVF, 'Csv.loadf', _loadf_written_unit(),
              assumptions=['contracts of the proved units formats.csv.dumpf, tools.write_csv_file, formats.Format.dumps / loads: the file handed to loadf holds the '
                           'text the csv writer made of the header [object_header] + properties and of the rows [object] + symbols',
                           'csv.reader(file, dialect=d): an iterator over the rows of the file; itertools.chain(xs, it): the elements of xs, then those of it; '
                           'next(it) / for: each row once, in order; list(map(f, xs)) / tuple(map(f, xs)) apply f to every element in order and raise what f raises',
                           'VALUES is evaluated from its module-level expression in the source; dialect left at its default'] + _LIBRARY,
              linkage=[('concepts.formats.Csv.loadf.__func__', None)]))


# =====================================================================================================================
# self-test of the precondition: without any one conjunct of REP the lemma is NOT provable (thorough tier)

def necessity(verbose=False):
    """Run lemma.csv.chars.roundtrip with one conjunct of REP left out at a time; every such run must lose at least one obligation.
    Returns the number of weakened preconditions tried.  (That the real round trip FAILS without them: bounded/csv_rep.py.)"""
    from pyvc import engine, solve
    tried = 0
    for drop in (('one-row-per-object',), ('object-labels-fit-the-field-size-limit',), ('property-labels-fit-the-field-size-limit',),
                 ('object-header-fits-the-field-size-limit',), ('field-size-limit-at-least-one',), ('at-least-one-object',),
                 ('auto-detection-sees-a-symbol',)):
        axioms, prove = _roundtrip_lemma(drop=drop)()
        eng = engine.Engine('necessity', axioms)
        lost = []
        for vc in eng.run_lemma(prove):
            solve.discharge(vc, axioms, use_cvc5=False)
            if vc.status != 'discharged':
                lost.append(vc.name)
        if verbose:
            print(drop[-1], lost)
        assert lost, ('the lemma is provable without', drop)
        tried += 1
    return tried
