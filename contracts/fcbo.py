"""Contracts for concepts/algorithms/fcbo.py: soundness of fast_generate_from / fcbo_dual (C04, DESIGN section C04).

Proved: every pair on the stack, hence every yielded pair, is a formal concept (Up(E) = I and Dn(I) = E).
  invariant  every stack entry (concept, index, sets) has  is_concept(concept)  and  0 <= index <= width
  (the stack is abstracted to "a collection all of whose entries satisfy the entry invariant": pop returns an arbitrary
  such entry, append obliges it; the inherited, later mutated failed-set lists do not enter the soundness invariant).
NOT proved (bounded stand-in only): exactly-once and completeness (canonicity test + inherited failed sets).
"""
from z3 import And, BoolVal, ForAll, Function, Implies, Int, IntSort, Ints, Not, Or

from pyvc.bits import bit, band
from pyvc.engine import BoolV, FuncV, IntV, IterV, ListV, LoopSpec, NONE, ObjV, PyRaise, SeqV, TupleV, Unsupported
from contracts import lib
from contracts.ctxtheory import Ctx
from contracts.contexts import full_context_obj
from contracts.lemmas_z3 import Side, st_meet_closed, use_galois
from contracts.registry import Unit, register

I = IntSort()


def is_concept(C, E, Ip):
    return And(C.is_objset(E), C.is_propset(Ip), Ip == C.Up(E), E == C.Dn(Ip))


def st_line_closed(C, which, j):
    """lemma.line_closed: a column extent (which='col') / a row intent (which='row') is closed and in the domain."""
    if which == 'col':
        v = C.O.self_at(j)
        return Implies(And(0 <= j, j < C.m), And(C.is_objset(v), C.Cl(v) == v))
    v = C.O.other_at(j)
    return Implies(And(0 <= j, j < C.n), And(C.is_propset(v), C.Cl2(v) == v))


def st_line_derivation(C, which, j):
    """lemma.line_closed (is-derivation): the line j is the derivation of the singleton {j} of the other side"""
    from pyvc.bits import atomv
    if which == 'col':
        return Implies(And(0 <= j, j < C.m), And(C.is_propset(atomv(j)), C.O.self_at(j) == C.Dn(atomv(j))))
    return Implies(And(0 <= j, j < C.n), And(C.is_objset(atomv(j)), C.O.other_at(j) == C.Up(atomv(j))))


def _line_closed():
    C = Ctx()

    def prove(path):
        from contracts.lemmas_z3 import ext, st_dom, st_cl_def, st_up_cl
        j = Int('j')
        atom = Function('atomv', I, I)
        k, h = Ints('k h')
        path.assume(ForAll([h, k], bit(atom(h), k) == (k == h), patterns=[bit(atom(h), k)]))
        path.assume(ForAll([h], atom(h) >= 0, patterns=[atom(h)]))
        for which, S, D, at, width in (('col', Side(C, 'O'), Side(C, 'P'), C.O.self_at, C.m),
                                        ('row', Side(C, 'P'), Side(C, 'O'), C.O.other_at, C.n)):
            a = atom(j)
            v = at(j)
            # the line is the derivation of the singleton {j} on the other side: v = D.up({j})
            path.oblige(which + '/singleton-dom', 'lemma', Implies(And(0 <= j, j < width), D.dom_in(a)))
            path.oblige(which + '/atom-bit', 'lemma', bit(a, j))
            ext(path, v, D.up(a))
            path.oblige(which + '/is-derivation', 'lemma', Implies(And(0 <= j, j < width), v == D.up(a)))
            path.oblige(which + '/is-derivation-statement', 'lemma', st_line_derivation(C, which, j))
            # every derivation is closed:  S.cl(D.up(B)) = D.up(D.cl(B)) = D.up(B)
            path.assume([st_dom(D, a), st_cl_def(D, a), st_up_cl(D, a), st_dom(S, D.up(a)), st_cl_def(S, D.up(a))])
            path.oblige(which + '/closed', 'lemma', st_line_closed(C, which, j))
    return C.axioms(), prove


register(Unit('lemma.line_closed', None, None, _line_closed, assumptions=['instances of lemma.galois/galois2']))


def loop_roles(qualname):
    """Roles of the locals of fast_generate_from / fcbo_dual, read off the real AST (robust against renamed locals):
    'stack' = the variable tested by the outer `while V:` loop."""
    import ast
    from pyvc import extract
    roles = {'stack': 'stack'}
    try:
        fn = extract.get_function('concepts/algorithms/fcbo.py', qualname).node
    except extract.ExtractionError:
        return roles
    whiles = sorted((n for n in ast.walk(fn) if isinstance(n, ast.While)), key=lambda n: (n.lineno, n.col_offset))
    if whiles and isinstance(whiles[0].test, ast.Name):
        roles['stack'] = whiles[0].test.id
    return roles


class Entries:
    """The abstract stack."""

    def __init__(self, C, path, dual):
        self.C, self.path, self.dual = C, path, dual
        self.width = C.n if dual else C.m

    def entry_ok(self, entry):
        if not (isinstance(entry, TupleV) and len(entry.items) == 3 and isinstance(entry.items[0], TupleV)
                and len(entry.items[0].items) == 2 and isinstance(entry.items[1], IntV)
                and all(isinstance(x, IntV) for x in entry.items[0].items)):
            return BoolVal(False)
        (E, Ip), idx, sets = entry.items[0].items, entry.items[1], entry.items[2]
        tags = BoolVal(E.tag == 'Objects' and Ip.tag == 'Properties' and getattr(sets, 'cls', None) == 'SetList')
        return And(tags, is_concept(self.C, E.t, Ip.t), 0 <= idx.t, idx.t <= self.width)

    def setlist(self):
        C, width = self.C, self.width
        o = ObjV('SetList', {}, name='failed_sets')

        def getitem(p, args, kw):
            _, i = args
            p.oblige('index@failed_sets', 'index', And(i.t >= 0, i.t < width))
            return IntV(p.fresh_int('failed'), 'Objects' if self.dual else 'Properties')

        def setitem(p, args, kw):
            _, i, v = args
            p.oblige('index@failed_sets', 'index', And(i.t >= 0, i.t < width))
            return NONE
        o.fields['__getitem__'] = FuncV('list.__getitem__', getitem)
        o.fields['__setitem__'] = FuncV('list.__setitem__', setitem)
        o.fields['copy'] = FuncV('list.copy', lambda p, args, kw: self.setlist())
        o.fields['__list__'] = FuncV('list', lambda p, args, kw: self.setlist())        # list(x): a new list with the same elements
        return o

    def abstract(self):
        C, path = self.C, self.path
        st = ObjV('Stack', {}, name='stack')
        nonempty = path.fresh_bool('stack.nonempty')
        st.truth_fn = lambda: nonempty

        def pop(p, args, kw):
            E = C.fresh_objset(p, 'E!%d' % next(p.eng.counter))
            Ip = C.fresh_propset(p, 'I!%d' % next(p.eng.counter))
            idx = p.fresh_int('idx')
            entry = TupleV([TupleV([E, Ip]), IntV(idx), self.setlist()])
            p.assume(self.entry_ok(entry))
            self.popped = (E.t, Ip.t)        # the concept being expanded (for the `use lemma` instances of its candidates)
            # after the pop the stack may be empty or not: its truthiness is a new unknown
            ne2 = p.fresh_bool('stack.nonempty')
            st.truth_fn = lambda: ne2
            return entry

        def append(p, args, kw):
            (entry,) = args
            p.oblige('stack/pushed-entry-sound', 'inv.preserve', self.entry_ok(entry))
            ne2 = BoolVal(True)
            st.truth_fn = lambda: ne2
            return NONE
        st.fields['pop'] = FuncV('stack.pop', pop)
        st.fields['append'] = FuncV('stack.append', append)
        return st


def _fcbo_unit(name, dual):
    def make():
        C = Ctx()
        axioms = C.axioms()

        def harness(path):
            ent = Entries(C, path, dual)
            roles = loop_roles(name)        # the name of the stack variable, read off the real AST (robust against renamed locals)
            ctx = full_context_obj(C)
            atom = Function('atomv', I, I)
            k, h = Ints('k h')
            path.assume(ForAll([h, k], bit(atom(h), k) == (k == h), patterns=[bit(atom(h), k)]))
            path.assume(ForAll([h], atom(h) >= 0, patterns=[atom(h)]))
            ctx.fields['shape'] = ObjV('Shape', {'objects': IntV(C.n), 'properties': IntV(C.m)})

            def line(p, which, i):
                # the line of attribute i (column extent / row intent) is read to compute the candidate of i: `use lemma` for it
                if which == ('row' if dual else 'col') and getattr(ent, 'popped', None) is not None:
                    use_lemmas(p, i.t, *ent.popped)
                return _at(p, C, which, i)
            ctx.fields['_extents'].fields['__getitem__'] = FuncV('Vectors.__getitem__', lambda p, args, kw: line(p, 'col', args[1]))
            ctx.fields['_intents'].fields['__getitem__'] = FuncV('Vectors.__getitem__', lambda p, args, kw: line(p, 'row', args[1]))
            meths = lib.int_methods(C)
            for tag, width in (('Objects', C.n), ('Properties', C.m)):
                meths[(tag, 'atoms')] = FuncV(tag + '.atoms', lambda p, args, kw, _t=tag, _w=width:
                                              IterV(lambda t: IntV(atom(t), _t), _w, 'atoms'))
            env = {'context': ctx}

            def inv(e):
                st = e.val(roles['stack'])
                if isinstance(st, ListV):
                    return [('stack-entries-sound', And(*[ent.entry_ok(x) for x in st.items]) if st.items else BoolVal(True))]
                return []
            outer = LoopSpec(inv)
            outer.modifies = [roles['stack']]
            inner = LoopSpec(lambda e, t: [])

            def on_yield(p, env_, val):
                ok = isinstance(val, TupleV) and len(val.items) == 2 and all(isinstance(x, IntV) for x in val.items)
                # soundness: nothing is produced that is not a formal concept
                p.oblige('yield/is-formal-concept', 'yield',
                         And(is_concept(C, val.items[0].t, val.items[1].t),
                             BoolVal(val.items[0].tag == 'Objects' and val.items[1].tag == 'Properties')) if ok else BoolVal(False))

            def use_lemmas(p, j, extent, intent):
                # use lemma.line_closed(j), lemma.meet_closed for (extent, line j), lemma.galois for the intersection
                which = 'row' if dual else 'col'
                p.assume(st_line_closed(C, which, j))
                if dual:
                    S = Side(C, 'P')
                    a, b = intent, C.O.other_at(j)
                else:
                    S = Side(C, 'O')
                    a, b = extent, C.O.self_at(j)
                p.assume(st_meet_closed(S, a, b))
                use_galois(p, S, a)
                use_galois(p, S, band(a, b))
                # the concept popped from the stack has a closed second component as well
                D = Side(C, 'O' if dual else 'P')
                use_galois(p, D, extent if dual else intent)
            loops = {'int_methods': meths, 'globals': lib.builtins(), 0: outer, 1: inner, 'on_yield': on_yield,
                     'havoc_' + roles['stack']: lambda p, cur: ent.abstract()}
            loops['list_repeat'] = lambda p, lst, n: _repeat(p, ent, lst, n)

            def finish(path, env_, outcome):
                if outcome[0] != 'return':
                    path.oblige('post/no-exception', 'post', BoolVal(False))
            return env, loops, finish
        return axioms, harness
    return make


def _repeat(p, ent, lst, n):
    p.oblige('list-repeat/length', 'post', And(n.t == ent.width, BoolVal(len(lst.items) == 1)))
    return ent.setlist()


def _at(p, C, which, i):
    width = C.m if which == 'col' else C.n
    p.oblige('index@_%s' % ('extents' if which == 'col' else 'intents'), 'index', And(i.t >= 0, i.t < width))
    return IntV(C.O.self_at(i.t) if which == 'col' else C.O.other_at(i.t), 'Objects' if which == 'col' else 'Properties')


for _name, _dual in (('fast_generate_from', False), ('fcbo_dual', True)):
    register(Unit('fcbo.' + _name, 'concepts/algorithms/fcbo.py', _name, _fcbo_unit(_name, _dual),
                  assumptions=['soundness only: exactly-once and completeness are NOT proved (bounded stand-in)',
                               'bitsets contracts: atoms() = the atoms 2^j ascending, fromint identity, supremum/infimum',
                               'stack abstraction: pop returns an arbitrary entry satisfying the entry invariant',
                               'contracts of prime/doubleprime proved in units matrices.*; lemmas lemma.galois*, lemma.meet_closed.*, lemma.line_closed (z3)',
                               'termination not proved'],
                  linkage=[('concepts.algorithms.fcbo.' + _name, None), ('concepts.algorithms.' + _name, None)]))
