"""Structure-level contracts for the remaining I/O and helper functions (texts and files stay opaque).

Every function here is a thin piece of plumbing around external libraries (open, csv, json, zlib, hashlib, re, glob, graphviz);
what is proved is WHAT IS PASSED WHERE: the call trace (which callee, once, in which order), the identity and the binding of the
arguments (positional or keyword: a call is bound to the parameter names of the callee; for callees inside /repo the names are
read from the REAL signature), section / line / row order, which value is returned, which exception leaves, and that a file opened
by the function is closed when it is left.  The external libraries are assumed (listed per unit), never modelled character-wise.

  C12  concepts.load / load_cxt / load_csv / make_context       which Context classmethod gets which file, format, encoding, options
  C12  tools.write_csv_file / csv_iterrows / write_csv / write_lines   header first, then every row (line) once in order, one writer
  C12  formats.FormatMeta.__init__ / Format.loadf / Format.dumpf  registration by name / suffix / aliases; abstract methods raise
  C12  formats.fimi.read_concepts_dat / write_concepts_dat       one tuple of ints per row; one row of member indexes per concept
  C12  tools.snakify                                            (the default format name of a Format class)
  C11  tools.dump_json / load_json / _call_json / _get_fileobj   JSON path: path-like / pathlib-like / file-like, closing
  C14  tools.crc32_hex                                          hex text of zlib.crc32(data) & 0xffffffff
  --   tools.sha256sum                                          (helper of the scripts) all chunks of the file, in order, into one hash
  C20  visualize.render_all                                     every non-excluded file: loaded, its lattice rendered to <stem>.gv
"""

from z3 import And, BoolVal, Function, Implies, Int, IntSort, IntVal, Not, Or, is_expr

from pyvc import bits, extract
from pyvc.engine import (BoolV, DictV, FuncV, IntV, IterV, LoopSpec, NONE, NoneV, ObjV, PyRaise, SeqV, StrV, TupleV,
                         Unsupported, values_equal)
from contracts import lib
from contracts.registry import Unit, register

TL, INIT, FB, FF, VZ = ('concepts/tools.py', 'concepts/__init__.py', 'concepts/formats/base.py', 'concepts/formats/fimi.py',
                        'concepts/visualize.py')
CXP = 'concepts/contexts.py'

OPEN_PARAMS = ['file', 'mode', 'buffering', 'encoding', 'errors', 'newline', 'closefd', 'opener']      # builtins.open
PATH_OPEN_PARAMS = ['mode', 'buffering', 'encoding', 'errors', 'newline']                              # pathlib.Path.open


# ---------------------------------------------------------------------------------------------------------------------
# recorder, markers, call binding

class Rec:
    """the ghost call trace: [name, args, kwargs, result] per call of a contract callee, in call order"""

    def __init__(self):
        self.calls = []

    def fn(self, name, result=None, method=False):
        def f(p, a, k):
            a = list(a[1:] if method else a)
            entry = [name, a, dict(k), None]
            self.calls.append(entry)                      # recorded even if the callee's contract raises
            if callable(result):
                entry[3] = result(p, a, k)
            else:
                entry[3] = result if result is not None else ObjV('Result', {}, name='result-of-' + name)
            return entry[3]
        fv = FuncV(name, f)
        if method:
            fv.is_method = True
        return fv

    def names(self):
        return [c[0] for c in self.calls]

    def of(self, name):
        return [c for c in self.calls if c[0] == name]


def arg(name, **fields):
    return ObjV('Arg', dict(fields), name=name)


def bind(params, a, k, var_kw=False):
    """the parameter -> value binding of the call f(*a, **k) of a callee with the positional-or-keyword parameters `params`
    (python's rule); (binding, extra keywords) or None if the call does not fit"""
    if len(a) > len(params):
        return None
    b = dict(zip(params, a))
    extra = {}
    for key, v in k.items():
        if key in b:
            return None
        if key in params:
            b[key] = v
        elif var_kw:
            extra[key] = v
        else:
            return None
    return b, extra


def real_signature(relpath, qualname, skip_first=False):
    """(positional-or-keyword names, keyword-only names, has **kwargs) of the REAL callee in the current tree"""
    a = extract.get_function(relpath, qualname).node.args
    pos = [x.arg for x in a.posonlyargs + a.args]
    return (pos[1:] if skip_first else pos), [x.arg for x in a.kwonlyargs], a.kwarg is not None


def bind_real(relpath, qualname, a, k, skip_first=False):
    pos, kwonly, var_kw = real_signature(relpath, qualname, skip_first)
    if len(a) > len(pos):
        return None
    return bind(pos + kwonly, a, k, var_kw)


def real_default(path, relpath, qualname, param):
    """the default value of a parameter of the REAL callee, evaluated like the engine binds defaults"""
    a = extract.get_function(relpath, qualname).node.args
    pos = a.posonlyargs + a.args
    for x, d in list(zip(pos[len(pos) - len(a.defaults):], a.defaults)) + list(zip(a.kwonlyargs, a.kw_defaults)):
        if x.arg == param and d is not None:
            return path.interp.eval(d, {})
    raise Unsupported('%s has no default for %s' % (qualname, param))


def is_str(v, s):
    return isinstance(v, StrV) and v.value == s


def is_none(v):
    return isinstance(v, NoneV)


def only(b, **expected):
    """the binding has exactly the stated parameters, each with the stated value (identity, or a predicate)"""
    if b is None or set(b) != set(expected):
        return False
    for key, e in expected.items():
        if callable(e):
            if not e(b[key]):
                return False
        elif b[key] is not e:
            return False
    return True


def optional(path, env, given, name):
    """case split of the harness: the caller passes `name` (an opaque value) or leaves it to the default of the real signature"""
    if path.branch(path.fresh_bool(name + '_given')):
        env[name] = given[name] = arg(name)


def _unit(setup, axioms=None):
    """setup(path, rec) -> (env, loop clauses (its 'globals' are added to the builtins), check(path, outcome, rec, env) -> [(name, f)])"""
    def make():
        def harness(path):
            rec = Rec()
            env, loops, check = setup(path, rec)
            loops = dict(loops or {})
            loops['globals'] = dict(lib.builtins(), **loops.get('globals', {}))

            def finish(path, env_, outcome):
                for nm, f in check(path, outcome, rec, env_):
                    path.oblige('post/' + nm, 'post', f if is_expr(f) else BoolVal(bool(f)))
            return env, loops, finish
        return (axioms() if axioms else bits.axioms()), harness
    return make


def file_object(rec=None, name='file'):
    f = ObjV('file', {}, name=name)
    if rec is not None:
        f.fields['close'] = rec.fn('f.close', NONE)
    return f


def closed(f):
    """`with f:` left (the engine sets the flag when the with statement is left on any exit)"""
    return getattr(f, 'closed', False) is True


def opened(call, file, mode, **kw):
    """the call of open binds exactly file, the mode (a literal, or None = left at 'r') and the stated keyword parameters"""
    b = bind(OPEN_PARAMS, call[1], call[2])
    if b is None:
        return False
    b = dict(b[0])
    if mode is None:
        if 'mode' in b and not is_str(b['mode'], 'r'):
            return False
        b.pop('mode', None)
        return only(b, file=file, **kw)
    return only(b, file=file, mode=(lambda v: is_str(v, mode)) if isinstance(mode, str) else mode, **kw)


def given_or(given, name, default):
    """predicate: the value the caller gave for `name`, or (if left out) the documented default"""
    if name in given:
        return lambda v: v is given[name]
    return default


# ---------------------------------------------------------------------------------------------------------------------
# concepts.load / load_cxt / load_csv / make_context (C12)

_LOADERS = {'load': ('fromfile', ['encoding', 'frmat']), 'load_cxt': ('fromfile', ['encoding']),
            'load_csv': ('fromfile', ['dialect', 'encoding']), 'make_context': ('fromstring', ['frmat'])}


def _loader(which):
    callee, opts = _LOADERS[which]

    def setup(path, rec):
        Context = ObjV('class', {callee: rec.fn('Context.' + callee)}, name='Context')
        first = 'source' if which == 'make_context' else 'filename'
        env, given = {first: arg(first)}, {}
        for nm in opts:
            optional(path, env, given, nm)

        def check(path, outcome, rec, env_):
            ok = outcome[0] == 'return' and rec.names() == ['Context.' + callee] and outcome[1] is rec.calls[0][3]
            out = [('returns-the-context-of-one-call-of-Context.%s' % callee, ok)]
            if not ok:
                return out
            b = bind_real(CXP, 'Data.' + callee, rec.calls[0][1], rec.calls[0][2], skip_first=True)
            out.append(('the-call-fits-the-signature-of-Context.%s' % callee, b is not None))
            if b is None:
                return out
            b, extra = b
            if which == 'load':
                # frmat=None: the format is inferred from the file suffix by fromfile (unit contexts.fromfile)
                out.append(('file-format-encoding', only(b, filename=env[first], frmat=given_or(given, 'frmat', is_none),
                                                         encoding=given_or(given, 'encoding', lambda v: is_str(v, 'utf-8')))))
                out.append(('no-further-options', not extra))
            elif which == 'load_cxt':
                out.append(('file-format-encoding', only(b, filename=env[first], frmat=lambda v: is_str(v, 'cxt'),
                                                         encoding=given_or(given, 'encoding', is_none))))
                out.append(('no-further-options', not extra))
            elif which == 'load_csv':
                out.append(('file-format-encoding', only(b, filename=env[first], frmat=lambda v: is_str(v, 'csv'),
                                                         encoding=given_or(given, 'encoding', lambda v: is_str(v, 'utf-8')))))
                out.append(('the-dialect-goes-to-the-csv-loader', only(extra, dialect=given_or(given, 'dialect', lambda v: is_str(v, 'excel')))))
            else:
                out.append(('source-and-format', only(b, source=env[first], frmat=given_or(given, 'frmat', lambda v: is_str(v, 'table')))))
                out.append(('no-further-options', not extra))
            return out
        return env, {'globals': {'Context': Context}}, check
    return setup


for _w in _LOADERS:
    register(Unit('concepts.' + _w, INIT, _w, _unit(_loader(_w)),
                  assumptions=['contract of Context.%s (unit contexts.%s); its parameter names are read from the real signature' % ((_LOADERS[_w][0],) * 2),
                               'documented defaults: ' + {'load': "encoding='utf-8', frmat=None (inferred from the suffix)", 'load_cxt': 'encoding=None (the format default)',
                                                          'load_csv': "dialect='excel', encoding='utf-8'", 'make_context': "frmat='table'"}[_w]],
                  linkage=[('concepts.' + _w, None)]))


# ---------------------------------------------------------------------------------------------------------------------
# tools.write_csv_file / csv_iterrows / write_csv (C12)

def _csv_module(rec, writer=None, reader=None):
    return ObjV('module', {'writer': rec.fn('csv.writer', writer), 'reader': rec.fn('csv.reader', reader),
                           'excel': arg('csv.excel')}, name='csv')


def _write_csv_file(path, rec):
    file, rows = arg('file'), arg('rows')
    writer = ObjV('csv.writer', {'writerow': rec.fn('writerow', NONE), 'writerows': rec.fn('writerows', NONE)}, name='writer')
    env, given = {'file': file, 'rows': rows}, {}
    optional(path, env, given, 'header')
    optional(path, env, given, 'dialect')

    def check(path, outcome, rec, env_):
        exp = ['csv.writer'] + (['writerow'] if 'header' in given else []) + ['writerows']
        ok = outcome[0] == 'return' and rec.names() == exp
        out = [('one-writer-then-the-header-row-iff-given-then-the-rows', ok)]
        if not ok:
            return out
        w = bind(['csvfile', 'dialect'], rec.calls[0][1], rec.calls[0][2])
        out.append(('the-writer-is-made-for-the-file-with-the-dialect',
                    w is not None and only(w[0], csvfile=file, dialect=given_or(given, 'dialect', lambda v: is_str(v, 'excel')))))
        if 'header' in given:
            out.append(('header-row-first', rec.calls[1][1] == [given['header']] and not rec.calls[1][2]))
        out.append(('every-row-through-writerows', rec.calls[-1][1] == [rows] and not rec.calls[-1][2]))
        out.append(('returns-None', is_none(outcome[1])))
        return out
    return env, {'globals': {'csv': _csv_module(rec, writer)}, 'module_constants': True}, check


register(Unit('tools.write_csv_file', TL, 'write_csv_file', _unit(_write_csv_file),
              assumptions=['csv.writer(file, dialect=d).writerow(row) writes one line; writerows(rows) writes every row once, in order (csv module, external)',
                           "documented defaults: header=None (no header line), dialect='excel' (module constant CSV_DIALECT, read from the real source)"],
              linkage=[('concepts.tools.write_csv_file', None)]))


def _csv_iterrows(path, rec):
    f = file_object()
    reader = ObjV('csv.reader', {}, name='reader')
    csvm = _csv_module(rec, reader=reader)
    env, given = {'path': arg('path')}, {}
    for nm in ('dialect', 'encoding', 'newline'):
        optional(path, env, given, nm)

    def check(path, outcome, rec, env_):
        ok = outcome[0] == 'return' and rec.names() == ['open', 'csv.reader']
        out = [('opens-the-file-then-one-reader', ok)]
        if not ok:
            return out
        out.append(('opened-for-reading-with-encoding-and-newline',
                    opened(rec.calls[0], env['path'], None, encoding=given_or(given, 'encoding', lambda v: is_str(v, 'utf-8')),
                           newline=given_or(given, 'newline', lambda v: is_str(v, '')))))
        r = bind(['csvfile', 'dialect'], rec.calls[1][1], rec.calls[1][2])
        out.append(('reader-over-the-file-with-the-dialect',
                    r is not None and only(r[0], csvfile=f, dialect=given_or(given, 'dialect', lambda v: v is csvm.fields['excel']))))
        ys = path.out
        out.append(('yields-exactly-the-rows-of-the-reader', len(ys) == 1 and getattr(ys[0], 'iterable', None) is reader))
        out.append(('file-closed-when-exhausted', closed(f)))
        return out
    loops = {'globals': {'csv': csvm, 'open': rec.fn('open', f)}, 'module_constants': True, 'on_yield_from': lambda p, e, v: None}
    return env, loops, check


register(Unit('tools.csv_iterrows', TL, 'csv_iterrows', _unit(_csv_iterrows),
              assumptions=['open / csv.reader(file, dialect=d): iterating the reader gives the rows of the file in order (external)',
                           "documented defaults: dialect=csv.excel, encoding='utf-8', newline=''",
                           'generator: the with block is left (file closed) when the rows are exhausted'],
              linkage=[('concepts.tools.csv_iterrows', None)]))


def _write_csv(path, rec):
    f = file_object()
    env, given = {'path': arg('path'), 'rows': arg('rows')}, {}
    for nm in ('header', 'encoding', 'newline'):
        optional(path, env, given, nm)
    # REQUIRES: `dialect` is left at its default.  FINDING (unchanged tree): write_csv does not forward `dialect` to write_csv_file,
    # a dialect given by the caller is silently ignored; with the default both functions use the module constant CSV_DIALECT.

    def check(path, outcome, rec, env_):
        ok = outcome[0] == 'return' and rec.names() == ['open', 'write_csv_file']
        out = [('opens-the-file-then-one-call-of-write_csv_file', ok)]
        if not ok:
            return out
        out.append(('opened-for-writing-with-encoding-and-newline',
                    opened(rec.calls[0], env['path'], 'w', encoding=given_or(given, 'encoding', lambda v: is_str(v, 'utf-8')),
                           newline=given_or(given, 'newline', lambda v: is_str(v, '')))))
        b = bind_real(TL, 'write_csv_file', rec.calls[1][1], rec.calls[1][2])
        out.append(('the-call-fits-the-signature-of-write_csv_file', b is not None and not b[1]))
        if b is None:
            return out
        b = dict(b[0])
        eff = b.pop('dialect', None) or real_default(path, TL, 'write_csv_file', 'dialect')
        hdr = b.pop('header', NONE)
        out.append(('file-and-rows', only(b, file=f, rows=env['rows'])))
        out.append(('header-passed-on', hdr is given['header'] if 'header' in given else is_none(hdr)))
        out.append(('written-in-the-dialect-of-the-call', values_equal(eff, env_['dialect'])))
        out.append(('file-closed', closed(f)))
        return out
    return env, {'globals': {'open': rec.fn('open', f), 'write_csv_file': rec.fn('write_csv_file', NONE)}, 'module_constants': True}, check


register(Unit('tools.write_csv', TL, 'write_csv', _unit(_write_csv),
              assumptions=['contract of write_csv_file (unit tools.write_csv_file); open (external)',
                           "documented defaults: header=None, encoding='utf-8', newline=''",
                           'REQUIRES dialect left at its default (FINDING: write_csv does not forward a given dialect to write_csv_file)'],
              linkage=[('concepts.tools.write_csv', None)]))


# ---------------------------------------------------------------------------------------------------------------------
# tools.write_lines, tools.sha256sum: a loop with a symbolic number of iterations appends item k in iteration k

def _opaque_item(fn, cls):
    def at(t):
        o = ObjV(cls, {}, name='%s(%s)' % (fn.name(), t))
        o.ident = fn(t)
        return o
    return at


def _write_lines_unit():
    def make():
        from contracts import formats_lines as FL

        def harness(path):
            I = IntSort()
            line = _opaque_item(Function('line', I, I), 'str')
            n = Int('number_of_lines')
            path.assume(n >= 0)
            rec, trace = Rec(), FL.Trace()
            f = file_object()
            env, given = {'path': arg('path'), 'lines': IterV(line, n, 'lines')}, {}
            for nm in ('encoding', 'newline'):
                optional(path, env, given, nm)
            g = FL.printer(trace, f)
            g['open'] = rec.fn('open', f)

            def finish(path, env_, outcome):
                if not FL._no_exception(path, outcome):
                    return
                ok = rec.names() == ['open'] and opened(rec.calls[0], env['path'], 'w', encoding=given_or(given, 'encoding', lambda v: is_str(v, 'utf-8')),
                                                        newline=given_or(given, 'newline', is_none))
                path.oblige('post/opened-once-for-writing-with-encoding-and-newline', 'post', BoolVal(ok))
                for nm, fm in trace.matches(path, [('many', n, lambda t: [line(t)])]):
                    path.oblige('post/every-line-once-in-order/' + nm, 'post', fm)
                path.oblige('post/file-closed', 'post', BoolVal(closed(f)))
                path.oblige('post/returns-None', 'post', BoolVal(is_none(outcome[1])))
            loops = FL.base_loops(g)
            loops.update({0: FL.emit_loop(trace, lambda k: [line(k)]), 'module_constants': True})
            return env, loops, finish
        return bits.axioms(), harness
    return make


register(Unit('tools.write_lines', TL, 'write_lines', _write_lines_unit(),
              assumptions=['print(text, file=f) writes text + line end to f; functools.partial(f, **k)(*a) = f(*a, **k); open (external)',
                           "documented defaults: encoding='utf-8', newline=None"],
              linkage=[('concepts.tools.write_lines', None)]))


def _chunk_loop(trace, pos, n, block):
    """LoopSpec of THE loop that feeds a file to a consumer chunk by chunk, whichever way it is spelled:
         for data in iter(partial(f.read, size), b''): use(data)                  (ghost index k of the iterable = reads done)
         while True: data = f.read(size); if data == b'': break; use(data)        (ghost read position of the file)
         while data := f.read(size): use(data)
    The clause is about the sequence of chunks READ (the ghost position `pos['t']` of the file object), not about the loop statement:
      invariant   trace = (trace at loop entry) ++ [block(t) | t < reads done]   and   reads done <= number of chunks
      step        an iteration that is completed appends exactly block(c) for the c-th read and performs exactly that one read
    A path that leaves the loop by `break` continues in the state at the break (engine: exec_while); the postcondition then needs
    reads done = number of chunks there, i.e. the break must sit on the read that returned b''."""
    st = {}

    def inv(e, k=None, phase=None):
        p = e._path
        if phase == 'entry':
            st['prefix'] = list(trace.segs)
            if k is not None:
                return []
            # a `while` spelling: nothing was read before the loop, so the chunks read are the chunks of the file from its start
            return [('reads-so-far-within-the-file', And(pos['t'] == 0, 0 <= n))]
        if phase == 'assume':
            c = st['c'] = k if k is not None else p.fresh_int('reads')
            if k is None:
                pos['t'] = c
            trace.segs[:] = st['prefix'] + [('many', c, block)]
            st['head'] = list(trace.segs)
            return [] if k is not None else [('reads-so-far-within-the-file', And(0 <= c, c <= n))]
        head = st['head']
        kept = len(trace.segs) >= len(head) and all(x is y for x, y in zip(trace.segs, head))
        new = trace.segs[len(head):]
        exp = block(st['c'])
        ok = kept and len(new) == len(exp) and all(s_[0] == 'one' for s_ in new)
        fs = [BoolVal(ok), pos['t'] == st['c'] + 1]
        if ok:
            from contracts import formats_lines as FL
            fs += [FL.same(p, s_[1], x) for s_, x in zip(new, exp)]
        out = [('iteration-k-appends-exactly-its-lines', And(*fs))]
        if k is None:
            out.append(('reads-so-far-within-the-file', pos['t'] <= n))
        return out
    return LoopSpec(inv, phased=True)


def _sha256sum_unit():
    def make():
        from contracts import formats_lines as FL

        def harness(path):
            I = IntSort()
            chunkfn = Function('chunk', I, I)
            n = Int('number_of_chunks')
            path.assume(n >= 0)
            rec, trace = Rec(), FL.Trace()
            f = file_object()
            env, given = {'filepath': arg('filepath')}, {}
            optional(path, env, given, 'bufsize')
            # ghost state of the file object: the number of reads done.  ASSUMED (io, external): the t-th f.read(bufsize) of a file
            # with `n` chunks returns chunk(t), which is b'' (empty, false) exactly for t >= n -- "the next at most bufsize bytes, b''
            # exactly at the end of the file"
            pos = {'t': IntVal(0), 'handed_to_iter': False, 'fresh': False}

            def is_empty_literal(v):
                return isinstance(v, ObjV) and v.cls == 'bytes' and getattr(v, 'value', None) == b''

            def chunk(t):
                o = ObjV('bytes', {}, name='chunk(%s)' % t)
                o.ident = chunkfn(t)
                o.read_index = t
                o.truth_fn = lambda: t < n

                def eq(p, a, k):
                    if not is_empty_literal(a[1]):
                        raise Unsupported("a chunk compared with something else than b''")
                    return BoolV(t >= n)
                o.fields['__eq__'] = FuncV('bytes.__eq__', eq)
                return o

            def read(p, a, k):
                if pos['handed_to_iter'] and not pos['fresh']:
                    raise Unsupported('f.read outside the one call per item made by iter(callable, sentinel)')
                pos['fresh'] = False
                ok = not k and len(a) == 1 and (a[0] is given['bufsize'] if 'bufsize' in given else isinstance(a[0], IntV))
                p.oblige('read/one-chunk-of-at-most-bufsize-bytes', 'call',
                         (BoolVal(True) if 'bufsize' in given else a[0].t == 32768) if ok else BoolVal(False))
                t = pos['t']
                pos['t'] = t + 1
                return chunk(t)
            f.fields['read'] = FuncV('f.read', read)

            def iter_(p, a, k):
                # ASSUMED: iter(callable, sentinel) calls the callable ONCE per item and stops at the first result equal to the sentinel;
                # with the read contract above iter(read-n, b'') gives the successive non-empty chunks of the file
                if k or len(a) != 2 or not is_empty_literal(a[1]):
                    raise Unsupported("no contract for iter() other than iter(callable, b'')")
                if not (is_expr(pos['t']) and pos['t'].eq(IntVal(0))) or pos['handed_to_iter']:
                    raise Unsupported('iter(callable, b"") after an earlier read of the file')
                pos['handed_to_iter'] = True

                def at(t):
                    pos['t'], pos['fresh'] = t, True
                    r = p.interp.call(a[0], [], {})
                    if not (isinstance(r, ObjV) and getattr(r, 'read_index', None) is t):
                        raise Unsupported('the callable handed to iter() does not return the chunk it reads')
                    return r
                return IterV(at, n, 'iter(read, b"")')
            h = ObjV('hash', {'update': FuncV('h.update', lambda p, a, k: trace.one(a[0] if len(a) == 1 and not k else TupleV(a)) or NONE),
                              'hexdigest': rec.fn('h.hexdigest'), 'digest': rec.fn('h.digest')}, name='h')
            g = FL.printer(trace, f)
            g.update(open=rec.fn('open', f), iter=FuncV('iter', iter_), hashlib=ObjV('module', {'sha256': rec.fn('hashlib.sha256', h)}, name='hashlib'))

            def finish(path, env_, outcome):
                if not FL._no_exception(path, outcome):
                    return
                ok = rec.names() == ['hashlib.sha256', 'open', 'h.hexdigest'] and not any(c[1] or c[2] for c in (rec.calls[0], rec.calls[2]))
                path.oblige('post/one-fresh-sha256-one-open-one-hexdigest', 'post', BoolVal(ok))
                if not ok:
                    return
                path.oblige('post/opened-in-binary-mode', 'post', BoolVal(opened(rec.calls[1], env['filepath'], 'rb')))
                for nm, fm in trace.matches(path, [('many', n, lambda t: [chunk(t)])]):
                    path.oblige('post/every-chunk-once-in-order-into-the-hash/' + nm, 'post', fm)
                path.oblige('post/returns-the-hex-digest', 'post', BoolVal(outcome[1] is rec.calls[2][3]))
                path.oblige('post/file-closed', 'post', BoolVal(closed(f)))
            loops = FL.base_loops(g)
            loops[0] = _chunk_loop(trace, pos, n, lambda k: [chunk(k)])
            return env, loops, finish
        return bits.axioms(), harness
    return make


register(Unit('tools.sha256sum', TL, 'sha256sum', _sha256sum_unit(),
              assumptions=["file.read(n): the next at most n bytes, b'' exactly at the end; iter(callable, sentinel); functools.partial; hashlib.sha256().update "
                           'feeds the bytes, hexdigest() is the digest of everything fed (external)', 'documented default: bufsize=32768'],
              linkage=[('concepts.tools.sha256sum', None)]))


# ---------------------------------------------------------------------------------------------------------------------
# tools.crc32_hex (C14), tools.snakify

def _crc32_hex(path, rec):
    c = path.fresh_int('crc32(data)')
    data = arg('data')
    zlib = ObjV('module', {'crc32': rec.fn('zlib.crc32', IntV(c))}, name='zlib')

    def check(path, outcome, rec, env_):
        ok = outcome[0] == 'return' and rec.names() == ['zlib.crc32'] and rec.calls[0][1] == [data] and not rec.calls[0][2]
        out = [('one-checksum-of-the-data', ok)]
        v = outcome[1] if ok else None
        shape = isinstance(v, StrV) and v.value is None and v.parts is not None and len(v.parts) == 1 and v.parts[0][0] == 'fmt' \
            and isinstance(v.parts[0][1], IntV) and tuple(v.parts[0][2:]) == (-1, 'x')
        out.append(('the-text-is-one-number-in-lower-case-hex', bool(shape)))
        if shape:
            m = IntVal(0xffffffff)       # x & m = m & x (python ints)
            out.append(('of-the-checksum-masked-to-32-bits', Or(v.parts[0][1].t == bits.band(c, m), v.parts[0][1].t == bits.band(m, c))))
        return out
    return {'data': data}, {'globals': {'zlib': zlib}}, check


register(Unit('tools.crc32_hex', TL, 'crc32_hex', _unit(_crc32_hex),
              assumptions=["zlib.crc32 (external); format spec 'x' = lower-case hexadecimal without padding (text layer, opaque)"],
              linkage=[('concepts.tools.crc32_hex', None)]))


def _snakify(path, rec):
    def piece(of, lo, hi):
        o = ObjV('str', {}, name='name[%s:%s]' % (lo, hi))
        o.piece = (of, lo, hi)
        return o

    def bound_(interp, env, n):
        if n is None:
            return None
        v = interp.eval(n, env)
        if not (isinstance(v, IntV) and str(v.t).lstrip('-').isdigit()):
            raise Unsupported('slice bound %r' % (v,))
        return int(str(v.t))

    def getslice(interp, env, o, sl):
        if sl.step is not None:
            raise Unsupported('slice with a step')
        return piece(o, bound_(interp, env, sl.lower), bound_(interp, env, sl.upper))
    name = ObjV('str', {'__getslice__': getslice}, name='name')
    pattern = ObjV('re.Pattern', {'sub': rec.fn('pattern.sub', lambda p, a, k: ObjV('str', {}, name='substituted'))}, name='_re_upper')
    re_ = ObjV('module', {'compile': rec.fn('re.compile', pattern)}, name='re')

    def lower(p, a, k):
        r = ObjV('str', {}, name='lowered')
        r.lowered = a[0]
        return r

    def binop(p, op, a, b, inplace):
        # a + b of two texts: an opaque text that records its operands
        if type(op).__name__ == 'Add' and isinstance(a, ObjV) and isinstance(b, ObjV) and a.cls == b.cls == 'str':
            o = ObjV('str', {'lower': rec.fn('str.lower', lower)}, name='a + b')
            o.fields['lower'].is_method = True
            o.cat = (a, b)
            return o
        return None
    env, given = {'name': name}, {}
    optional(path, env, given, 'sep')

    def check(path, outcome, rec, env_):
        ok = outcome[0] == 'return' and rec.names() == ['re.compile', 'pattern.sub', 'str.lower'] and outcome[1] is rec.calls[2][3]
        out = [('lower-cased-text-of-one-substitution', ok)]
        if not ok:
            return out
        out.append(('pattern: one upper-case ASCII letter, as group 1', [getattr(x, 'value', None) for x in rec.calls[0][1]] == ['([A-Z])'] and not rec.calls[0][2]))
        sub, low = rec.calls[1], rec.calls[2]
        out.append(('substitution-in-the-name-without-its-first-character',
                    len(sub[1]) == 2 and not sub[2] and getattr(sub[1][1], 'piece', None) == (name, 1, None)))
        repl = sub[1][0] if sub[1] else None
        sep = env_['sep']
        okr = isinstance(repl, StrV) and repl.parts is not None and len(repl.parts) == 2 and repl.parts[0][0] == 'fmt' \
            and repl.parts[0][1] is sep and tuple(repl.parts[0][2:]) == (-1, None) and tuple(repl.parts[1]) == ('lit', '\\1')
        out.append(('each-match-replaced-by-the-separator-and-the-letter', bool(okr)))
        out.append(('separator-given-or-underscore', sep is given['sep'] if 'sep' in given else is_str(sep, '_')))
        cat = getattr(getattr(outcome[1], 'lowered', None), 'cat', None)
        out.append(('first-character-kept-in-front', len(low[1]) == 1 and not low[2] and cat is not None
                    and getattr(cat[0], 'piece', None) == (name, None, 1) and cat[1] is sub[3]))
        return out
    return env, {'globals': {'re': re_}, 'binop': binop}, check


register(Unit('tools.snakify', TL, 'snakify', _unit(_snakify),
              assumptions=['re.compile / Pattern.sub / str slicing, + and lower() are opaque text operators recorded with their operands (external)',
                           "documented default: sep='_'"],
              linkage=[('concepts.tools.snakify', None)]))


# ---------------------------------------------------------------------------------------------------------------------
# JSON path (C11): dump_json / load_json / _call_json / _get_fileobj

def _json_front(which):
    def setup(path, rec):
        extra = DictV({'indent': arg('kwargs[indent]'), 'sort_keys': arg('kwargs[sort_keys]')})
        env, given = {'path_or_fileobj': arg('path_or_fileobj'), 'kwargs': extra}, {}
        if which == 'dump':
            env['obj'] = arg('obj')
        for nm in ('encoding', 'mode'):
            optional(path, env, given, nm)
        passed = dict(extra.items)

        def check(path, outcome, rec, env_):
            ok = outcome[0] == 'return' and rec.names() == ['_call_json']
            out = [('one-call-of-_call_json', ok)]
            if not ok:
                return out
            b = bind_real(TL, '_call_json', rec.calls[0][1], rec.calls[0][2])
            out.append(('the-call-fits-the-signature-of-_call_json', b is not None))
            if b is None:
                return out
            b, kw = b
            out.append(('json-function-file-encoding-mode', only(
                b, funcname=lambda v: is_str(v, which), path_or_fileobj=env['path_or_fileobj'],
                encoding=given_or(given, 'encoding', lambda v: is_str(v, 'utf-8')),
                mode=given_or(given, 'mode', lambda v: is_str(v, 'w' if which == 'dump' else 'r')))))
            exp = dict(passed, obj=env['obj']) if which == 'dump' else passed
            out.append(('keyword-arguments-passed-on' + ('-with-the-object-as-obj' if which == 'dump' else ''),
                        set(kw) == set(exp) and all(kw[x] is exp[x] for x in exp)))
            out.append(('returns-nothing' if which == 'dump' else 'returns-the-loaded-value',
                        is_none(outcome[1]) if which == 'dump' else outcome[1] is rec.calls[0][3]))
            return out
        return env, {'globals': {'_call_json': rec.fn('_call_json')}, 'module_constants': True}, check
    return setup


for _w in ('dump', 'load'):
    register(Unit('tools.%s_json' % _w, TL, _w + '_json', _unit(_json_front(_w)),
                  assumptions=['contract of _call_json (unit tools._call_json)', "documented defaults: encoding='utf-8', mode=%r" % ('w' if _w == 'dump' else 'r')],
                  linkage=[('concepts.tools.%s_json' % _w, None)]))


def _call_json(path, rec):
    fall = path.fresh_bool('fallthrough')
    f = file_object(rec)
    kind = path.choose([Int('json_outcome') == i for i in range(4)])
    raised = [None, 'AttributeError', 'TypeError', 'ValueError'][kind]
    result = ObjV('Result', {}, name='json-result')

    def jsonfn(p, a, k):
        if raised:
            raise PyRaise(raised)
        return result
    fn = rec.fn('json-function', jsonfn)
    json_ = ObjV('module', {}, name='json')
    extra = DictV({'indent': arg('kwargs[indent]'), 'obj': arg('kwargs[obj]')})
    passed = dict(extra.items)
    env = {n: arg(n) for n in ('funcname', 'path_or_fileobj', 'encoding', 'mode')}
    env['kwargs'] = extra

    def check(path, outcome, rec, env_):
        nm = rec.names()
        ok = nm[:3] == ['_get_fileobj', 'getattr', 'json-function'] and nm[3:] in ([], ['f.close'])
        out = [('file-object-then-the-json-function-then-at-most-one-close', ok)]
        if not ok:
            return out
        b = bind_real(TL, '_get_fileobj', rec.calls[0][1], rec.calls[0][2])
        out.append(('file-object-for-the-argument-with-mode-and-encoding',
                    b is not None and not b[1] and only(b[0], path_or_fileobj=env['path_or_fileobj'], mode=env['mode'], encoding=env['encoding'])))
        out.append(('the-json-function-named-by-funcname', rec.calls[1][1] == [json_, env['funcname']] and not rec.calls[1][2]))
        a, k = rec.calls[2][1], rec.calls[2][2]
        exp = dict(passed, fp=f)
        out.append(('called-on-the-file-object-with-the-keyword-arguments', not a and set(k) == set(exp) and all(k[x] is exp[x] for x in exp)))
        # a file opened here is closed on EVERY exit; a file object of the caller is left open
        out.append(('closed-iff-opened-here', Not(fall) == BoolVal(nm[3:] == ['f.close'])))
        if kind == 0:
            out.append(('returns-the-result-of-the-json-function', outcome[0] == 'return' and outcome[1] is result))
        elif kind in (1, 2):
            out.append(('AttributeError-or-TypeError-of-the-json-call-becomes-TypeError', tuple(outcome[:2]) == ('raise', 'TypeError')))
        else:
            out.append(('other-errors-propagate', tuple(outcome[:2]) == ('raise', 'ValueError')))
        return out
    g = {'_get_fileobj': rec.fn('_get_fileobj', TupleV([f, BoolV(fall)])), 'json': json_, 'getattr': rec.fn('getattr', fn)}
    return env, {'globals': g}, check


register(Unit('tools._call_json', TL, '_call_json', _unit(_call_json),
              assumptions=['contract of _get_fileobj (unit tools._get_fileobj): (file object, whether it is the argument itself)',
                           'getattr(json, name) is the function json.<name>; json.dump / json.load may return, raise AttributeError/TypeError (argument is no '
                           'file object) or another error (e.g. ValueError for malformed JSON) (external)'],
              linkage=[('concepts.tools._call_json', None)]))


def _get_fileobj(path, rec):
    kind = path.choose([Int('argument_kind') == i for i in range(4)])
    # 0: path-like (open succeeds)   1: no path but has .open (pathlib-like / zipfile.Path)   2: neither: a file object   3: path-like, open fails
    by_open, by_method = file_object(name='open(...)'), file_object(name='obj.open(...)')

    def open_(p, a, k):
        if kind in (1, 2):
            raise PyRaise('TypeError')
        if kind == 3:
            raise PyRaise('OSError')
        return by_open
    method = rec.fn('obj.open', by_method)
    obj = ObjV('Arg', {}, name='path_or_fileobj')

    def ga(p, o, attr):
        if attr == 'open' and kind == 1:
            return method
        raise PyRaise('AttributeError')
    obj.fields['__getattr__'] = ga
    env = {'path_or_fileobj': obj, 'mode': arg('mode'), 'encoding': arg('encoding')}

    def pair(v, first, flag):
        return isinstance(v, TupleV) and len(v.items) == 2 and v.items[0] is first and isinstance(v.items[1], BoolV) \
            and BoolVal(flag).eq(v.items[1].t)

    def check(path, outcome, rec, env_):
        ok = rec.names() == ['open'] + (['obj.open'] if kind == 1 else [])
        out = [('open-first; the-open-method-only-if-the-argument-is-no-path', ok)]
        if not ok:
            return out
        out.append(('open(argument, mode, encoding=encoding)', opened(rec.calls[0], obj, env['mode'], encoding=env['encoding'])))
        if kind == 0:
            out.append(('path: the-opened-file, to-be-closed', outcome[0] == 'return' and pair(outcome[1], by_open, False)))
        elif kind == 1:
            b = bind(PATH_OPEN_PARAMS, rec.calls[1][1], rec.calls[1][2])
            out.append(('argument.open(mode, encoding=encoding)', b is not None and only(b[0], mode=env['mode'], encoding=env['encoding'])))
            out.append(('pathlib-like: the-opened-file, to-be-closed', outcome[0] == 'return' and pair(outcome[1], by_method, False)))
        elif kind == 2:
            out.append(('file-like: the-argument-itself, not-to-be-closed', outcome[0] == 'return' and pair(outcome[1], obj, True)))
        else:
            out.append(('errors-of-open-propagate', tuple(outcome[:2]) == ('raise', 'OSError')))
        return out
    return env, {'globals': {'open': rec.fn('open', open_)}}, check


register(Unit('tools._get_fileobj', TL, '_get_fileobj', _unit(_get_fileobj),
              assumptions=['open(x, ...) raises TypeError iff x is not a str / bytes / os.PathLike / int; other failures are OSError (external)',
                           'an object without an attribute open raises AttributeError on .open'],
              linkage=[('concepts.tools._get_fileobj', None)]))


# ---------------------------------------------------------------------------------------------------------------------
# formats.base: FormatMeta.__init__ (registration), Format.loadf / dumpf (abstract)

def _meta_init(path, rec):
    abstract, has_name, has_suffix, has_aliases = (path.branch(path.fresh_bool(n)) for n in ('abstract', 'name_in_dct', 'suffix_in_dct', 'aliases_in_dct'))
    own = {'name': arg("dct['name']"), 'suffix': arg("dct['suffix']"), 'aliases': arg("dct['aliases']")}
    present = {'name': has_name, 'suffix': has_suffix, 'aliases': has_aliases}
    flag = ObjV('object', {}, name="dct['__abstract__']")
    flag.truth_fn = lambda: BoolVal(abstract)

    def key(v):
        if not (isinstance(v, StrV) and v.value is not None):
            raise Unsupported('class dict lookup with %r' % (v,))
        return v.value

    def get(p, a, k):
        if key(a[1]) != '__abstract__' or k or len(a) != 2:
            raise Unsupported('no contract for dct.get(%r)' % (a[1:],))
        return flag              # the value of __abstract__ in the class body (or None): all that matters is its truth value

    def contains(p, a, k):
        return BoolV(present[key(a[1])])

    def getitem(p, a, k):
        if not present.get(key(a[1])):
            raise PyRaise('KeyError')
        return own[key(a[1])]
    dct = ObjV('dict', {'get': FuncV('dict.get', get), '__contains__': FuncV('dict.__contains__', contains),
                        '__getitem__': FuncV('dict.__getitem__', getitem)}, name='dct')
    dct.fields['get'].is_method = True
    inherited = {'name': arg('inherited name'), 'suffix': arg('inherited suffix')}
    by_suffix = ObjV('dict', {'__setitem__': rec.fn('by_suffix[...] =', NONE, method=True)}, name='by_suffix')
    map_ = ObjV('dict', {'__setitem__': rec.fn('_map[...] =', NONE, method=True), 'update': rec.fn('_map.update', NONE)}, name='_map')
    # type.__new__ (ASSUMED): an entry of the class body is an attribute of the new class; other attributes are inherited
    this = ObjV('class', {'by_suffix': by_suffix, '_map': map_}, name='self')
    for nm in ('name', 'suffix'):
        this.fields[nm] = own[nm] if present[nm] else inherited[nm]
    clsname = arg('name')
    tools = ObjV('module', {'snakify': rec.fn('tools.snakify')}, name='tools')
    dict_ = ObjV('class', {'fromkeys': rec.fn('dict.fromkeys')}, name='dict')

    def check(path, outcome, rec, env_):
        out = [('no-exception', outcome[0] == 'return')]
        nm = rec.names()
        if abstract:
            out.append(('an-abstract-class-is-not-registered', not nm and this.fields['name'] is (own['name'] if has_name else inherited['name'])))
            return out
        sn = rec.of('tools.snakify')
        out.append(('name-from-the-class-name-iff-not-given', len(sn) == (0 if has_name else 1)))
        if has_name:
            N = own['name']
        elif len(sn) == 1:
            N = sn[0][3]
            out.append(('default-name: the-class-name-snakified-with-hyphens', sn[0][1] == [clsname] and set(sn[0][2]) == {'sep'} and is_str(sn[0][2]['sep'], '-')))
        else:
            return out
        out.append(('the-class-carries-its-format-name', this.fields['name'] is N))
        bs, mp, up, fk = rec.of('by_suffix[...] ='), rec.of('_map[...] ='), rec.of('_map.update'), rec.of('dict.fromkeys')
        out.append(('suffix-registered-iff-in-the-class-body', [c[1] for c in bs] == ([[own['suffix'], N]] if has_suffix else [])))
        out.append(('class-registered-under-its-name', [c[1] for c in mp] == [[N, this]]))
        oka = len(up) == len(fk) == (1 if has_aliases else 0)
        if oka and has_aliases:
            oka = up[0][1] == [fk[0][3]] and not up[0][2] and fk[0][1] == [own['aliases'], this] and not fk[0][2]
        out.append(('every-alias-registered-for-the-class-iff-aliases-in-the-class-body', oka))
        out.append(('nothing-else', len(nm) == len(sn) + len(bs) + len(mp) + len(up) + len(fk)))
        return out
    env = {'self': this, 'name': clsname, 'bases': arg('bases'), 'dct': dct}
    return env, {'globals': {'tools': tools, 'dict': dict_}}, check


register(Unit('formats.FormatMeta.__init__', FB, 'FormatMeta.__init__', _unit(_meta_init),
              assumptions=['type.__new__: an entry of the class body (dct) is an attribute of the new class, other attributes are inherited',
                           'dict.fromkeys(keys, v): every key mapped to v; dict.update; contract of tools.snakify (unit tools.snakify)'],
              linkage=[('type(concepts.formats.Format).__init__', None)]))


def _abstract(which):
    def setup(path, rec):
        env = {'file': arg('file'), 'kwargs': DictV({'extra': arg('extra')})}
        if which == 'dumpf':
            env.update({n: arg(n) for n in ('objects', 'properties', 'bools')})
            optional(path, env, {}, '_serialized')

        def check(path, outcome, rec, env_):
            return [('raises-NotImplementedError', tuple(outcome[:2]) == ('raise', 'NotImplementedError')), ('touches-nothing', not rec.calls)]
        return env, {}, check
    return setup


for _w in ('loadf', 'dumpf'):
    register(Unit('formats.Format.' + _w, FB, 'Format.' + _w, _unit(_abstract(_w)), assumptions=['the base class is abstract: a concrete format overrides %s' % _w],
                  linkage=[('concepts.formats.Format.' + _w, None)]))


# ---------------------------------------------------------------------------------------------------------------------
# formats.fimi: read_concepts_dat / write_concepts_dat (C12)

def _fimi_class():
    """the class attributes of Fimi are read from the real class body (encoding, newline, dialect)"""
    from contracts.formats_csv import class_attr
    cls = ObjV('class', {}, name='Fimi')
    cache = {}

    def ga(p, o, attr):
        if attr not in cache:
            cache[attr] = class_attr(p.interp, FF, 'Fimi', attr)
        return cache[attr]
    cls.fields['__getattr__'] = ga
    return cls


def _fimi_defaults(given):
    return dict(encoding=given_or(given, 'encoding', lambda v: is_str(v, 'ascii')), newline=given_or(given, 'newline', lambda v: is_str(v, '')))


def _read_concepts_dat_unit():
    def make():
        I = IntSort()
        cell, ncols, nrows, int_of = Function('value', I, I, I), Function('len(row)', I, I), Int('rows'), Function('int', I, I)

        def harness(path):
            rec = Rec()
            Dialect = arg('FimiDialect')

            def value(r, c):
                o = ObjV('str', {}, name='rows[%s][%s]' % (r, c))
                o.ident = cell(r, c)
                return o
            rows = IterV(lambda r: SeqV(lambda c: value(r, c), ncols(r), 'rows[%s]' % r), nrows, 'rows')
            tools = ObjV('module', {'csv_iterrows': rec.fn('tools.csv_iterrows', rows)}, name='tools')

            def int_(p, a, k):
                if k or len(a) != 1 or getattr(a[0], 'ident', None) is None:
                    raise Unsupported('int of %r' % (a,))
                return IntV(int_of(a[0].ident))
            env, given = {'path': arg('path')}, {}
            for nm in ('encoding', 'newline'):
                optional(path, env, given, nm)
            spec = LoopSpec(lambda e, k: [])

            def yields(e, k):
                def value_ok(val):
                    if not isinstance(val, SeqV):
                        return BoolVal(False)
                    c = path.fresh_int('c')
                    el = val.at(c)
                    return And(val.length == ncols(k), el.t == int_of(cell(k, c))) if isinstance(el, IntV) else BoolVal(False)
                return BoolVal(True), value_ok
            spec.yields = yields

            def finish(path, env_, outcome):
                if outcome[0] != 'return':
                    path.oblige('post/no-exception', 'post', BoolVal(False))
                    return
                ok = rec.names() == ['tools.csv_iterrows']
                b = bind_real(TL, 'csv_iterrows', rec.calls[0][1], rec.calls[0][2]) if ok else None
                path.oblige('post/rows-of-the-file-in-the-fimi-dialect-with-encoding-and-newline', 'post', BoolVal(
                    b is not None and not b[1] and only(b[0], path=env['path'], dialect=Dialect, **_fimi_defaults(given))))
                path.oblige('post/only-the-loop-yields', 'post', BoolVal(len(path.out) == 0))
            g = dict(lib.builtins(), tools=tools, Fimi=_fimi_class(), FimiDialect=Dialect, int=FuncV('int', int_))
            return env, {'globals': g, 0: spec}, finish
        return bits.axioms(), harness
    return make


register(Unit('formats.fimi.read_concepts_dat', FF, 'read_concepts_dat', _read_concepts_dat_unit(),
              assumptions=['contract of tools.csv_iterrows (unit tools.csv_iterrows): the rows of the file, each a list of texts',
                           'int(text) is a function of the text; tuple(map(f, xs)) = the tuple of f(x) in order',
                           "defaults Fimi.encoding / Fimi.newline / Fimi.dialect are read from the real class body ('ascii', '', FimiDialect)"],
              linkage=[('concepts.formats.read_concepts_dat', None)]))


def _write_concepts_dat_unit():
    def make():
        N = Int('number_of_concepts')

        def harness(path):
            rec = Rec()
            Dialect = arg('FimiDialect')
            f = file_object()

            def bitset(kind, t):
                o = ObjV('Bitset', {}, name='%s[%s]' % (kind, t))
                o.kind, o.ident = kind, t

                def iter_set(p, a, k):
                    it = ObjV('IndexIter', {}, name='iter_set(%s)' % o.name)
                    it.of = o
                    it.fields['__list__'] = FuncV('list', lambda p2, a2, k2: _index_list(o))
                    return it
                o.fields['iter_set'] = FuncV('iter_set', iter_set)
                return o

            def _index_list(o):
                r = ObjV('IndexList', {}, name='list(iter_set(%s))' % o.name)
                r.of = o
                return r
            path.assume(N >= 0)
            concepts = IterV(lambda t: TupleV([bitset('extent', t), bitset('intent', t)]), N, 'iterconcepts')
            env, given = {'path': arg('path'), 'iterconcepts': concepts}, {}
            for nm in ('encoding', 'newline'):
                optional(path, env, given, nm)
            ext = path.fresh_bool('extents')
            if path.branch(path.fresh_bool('extents_given')):
                env['extents'] = BoolV(ext)
                want = ext
            else:
                want = BoolVal(False)      # documented default: the intents are written
            tools = ObjV('module', {'write_csv_file': rec.fn('tools.write_csv_file', NONE)}, name='tools')

            def finish(path, env_, outcome):
                if outcome[0] != 'return':
                    path.oblige('post/no-exception', 'post', BoolVal(False))
                    return
                ok = rec.names() == ['open', 'tools.write_csv_file']
                path.oblige('post/opens-the-file-then-one-call-of-write_csv_file', 'post', BoolVal(ok))
                if not ok:
                    return
                path.oblige('post/opened-for-writing-with-encoding-and-newline', 'post', BoolVal(opened(rec.calls[0], env['path'], 'w', **_fimi_defaults(given))))
                b = bind_real(TL, 'write_csv_file', rec.calls[1][1], rec.calls[1][2])
                okb = b is not None and not b[1] and set(b[0]) == {'file', 'rows', 'dialect'} and b[0]['file'] is f and b[0]['dialect'] is Dialect
                path.oblige('post/rows-into-the-file-in-the-fimi-dialect-without-header', 'post', BoolVal(okb))
                rows = b[0]['rows'] if okb else None
                if not isinstance(rows, (IterV, SeqV)):
                    path.oblige('post/one-row-per-concept-in-order', 'post', BoolVal(False))
                    return
                t = path.fresh_int('t')
                row = rows.at(t)
                okr = isinstance(row, ObjV) and row.cls == 'IndexList'
                # the row of concept t lists the member indexes (bitsets iter_set: ascending) of its extent, resp. of its intent
                path.oblige('post/one-row-per-concept-in-order', 'post', And(rows.length == N, BoolVal(okr), row.of.ident == t) if okr else BoolVal(False))
                if okr:
                    path.oblige('post/extent-indexes-iff-extents-else-intent-indexes', 'post', want == BoolVal(row.of.kind == 'extent'))
                path.oblige('post/file-closed', 'post', BoolVal(closed(f)))
            g = dict(lib.builtins(), tools=tools, Fimi=_fimi_class(), FimiDialect=Dialect, open=rec.fn('open', f))
            return env, {'globals': g}, finish
        return bits.axioms(), harness
    return make


register(Unit('formats.fimi.write_concepts_dat', FF, 'write_concepts_dat', _write_concepts_dat_unit(),
              assumptions=['contract of tools.write_csv_file (unit tools.write_csv_file): one line per row, in order; open (external)',
                           'bitsets iter_set(): the ascending indexes of the members; list(it) = its items in order; generator expression = element-wise map',
                           "defaults Fimi.encoding / Fimi.newline / Fimi.dialect are read from the real class body ('ascii', '', FimiDialect); extents=False"],
              linkage=[('concepts.formats.write_concepts_dat', None)]))


# ---------------------------------------------------------------------------------------------------------------------
# visualize.render_all (C20)

def _render_all_unit():
    def make():
        I = IntSort()
        from z3 import BoolSort
        nfiles, excluded = Int('number_of_files'), Function('excluded', I, BoolSort())

        def harness(path):
            rec = Rec()

            def opaque(cls, name, **info):
                o = ObjV(cls, {}, name=name)
                o.info = info
                return o

            def file(t):
                o = opaque('str', 'files[%s]' % t, kind='file')
                o.ident = t
                return o
            path.assume(nfiles >= 0)
            env, given = {}, {}
            for nm in ('filepattern', 'encoding', 'out_format'):
                optional(path, env, given, nm)
            directory = arg('directory') if path.branch(path.fresh_bool('directory_given')) else None
            if directory is not None:
                env['directory'] = directory

            def contains(p, a, k):
                x = a[1]
                if getattr(x, 'info', {}).get('kind') != 'basename' or getattr(x.info['of'], 'ident', None) is None:
                    raise Unsupported('exclude test of %r' % (x,))
                return BoolV(excluded(x.info['of'].ident))
            env['exclude'] = ObjV('collection', {'__contains__': FuncV('exclude.__contains__', contains)}, name='exclude')
            ospath = ObjV('module', {'basename': FuncV('os.path.basename', lambda p, a, k: opaque('str', 'basename(%s)' % getattr(a[0], 'name', 'text'), kind='basename', of=a[0])),
                                     'splitext': FuncV('os.path.splitext', lambda p, a, k: TupleV([opaque('str', 'root(%s)' % getattr(a[0], 'name', 'text'), kind='root', of=a[0]),
                                                                                                   opaque('str', 'ext', kind='ext', of=a[0])]))}, name='os.path')

            def load(p, a, k):
                dot = ObjV('Digraph', {'render': rec.fn('dot.render')}, name='dot')
                lat = ObjV('Lattice', {'graphviz': rec.fn('lattice.graphviz', dot)}, name='lattice')
                lat.of = a[0] if a else None
                return ObjV('Context', {'lattice': lat}, name='context')
            concepts_ = ObjV('module', {'load': rec.fn('concepts.load', load)}, name='concepts')
            glob = ObjV('module', {'iglob': rec.fn('glob.iglob', IterV(file, nfiles, 'files'))}, name='glob')
            before = {}

            def iteration(k):
                """[(name, formula)]: the calls of the iteration over files[k] are exactly the stated ones"""
                calls = rec.calls[before['n']:]
                nm = [c[0] for c in calls]
                skip = excluded(k)
                out = [('an-excluded-file-is-not-touched; any-other-is-loaded-once-and-rendered-once',
                        And(Implies(skip, BoolVal(nm == [])), Implies(Not(skip), BoolVal(nm == ['concepts.load', 'lattice.graphviz', 'dot.render']))))]
                if nm != ['concepts.load', 'lattice.graphviz', 'dot.render']:
                    return out
                ld, gv, rd = calls
                b = bind_real(INIT, 'load', ld[1], ld[2])
                okl = b is not None and only(b[0], filename=lambda v: getattr(v, 'ident', None) is not None and getattr(v, 'info', {}).get('kind') == 'file',
                                             encoding=given_or(given, 'encoding', is_none))
                out.append(('loads-this-file-with-the-encoding', And(BoolVal(okl), b[0]['filename'].ident == k) if okl else BoolVal(False)))
                g = bind_real('concepts/lattices.py', 'VisualizableMixin.graphviz', gv[1], gv[2], skip_first=True)
                okg = g is not None and only(g[0], filename=lambda v: True, directory=(lambda v: v is directory) if directory is not None else is_none) \
                    and only(g[1], format=given_or(given, 'out_format', is_none))
                out.append(('graph-of-the-lattice-of-that-context-into-the-directory-in-the-output-format', okg and gv[3] is not None))
                if okg:
                    fn = g[0]['filename']

                    def stem_gv(v):
                        return isinstance(v, StrV) and v.parts is not None and len(v.parts) == 2 and v.parts[0][0] == 'fmt' \
                            and getattr(v.parts[0][1], 'info', {}).get('kind') == 'root' and v.parts[0][1].info['of'] is ld[1][0] \
                            and tuple(v.parts[0][2:]) == (-1, None) and tuple(v.parts[1]) == ('lit', '.gv')
                    if directory is None:
                        okf = stem_gv(fn)
                    else:
                        okf = getattr(fn, 'info', {}).get('kind') == 'basename' and stem_gv(fn.info['of'])
                    out.append(('file-name: the-source-path-with-the-suffix-.gv (its-base-name-iff-a-directory-is-given)', bool(okf)))
                out.append(('rendered-with-the-defaults', not rd[1] and not rd[2]))
                return out

            def inv(e, k, phase):
                if phase == 'entry':
                    ok = rec.names() == ['glob.iglob'] and not rec.calls[0][2] and len(rec.calls[0][1]) == 1 and \
                        (rec.calls[0][1][0] is given['filepattern'] if 'filepattern' in given else is_str(rec.calls[0][1][0], '*.cxt'))
                    return [('the-files-matching-the-pattern', BoolVal(ok))]
                if phase == 'assume':
                    before['n'] = len(rec.calls)
                    return []
                return iteration(path.ghost['k'])
            spec = LoopSpec(inv, phased=True)

            def finish(path, env_, outcome):
                path.oblige('post/returns-None', 'post', BoolVal(outcome[0] == 'return' and is_none(outcome[1])))
                path.oblige('post/nothing-after-the-loop', 'post', BoolVal(len(rec.calls) == before.get('n', -1)))
            g = dict(lib.builtins(), glob=glob, os=ObjV('module', {'path': ospath}, name='os'), print=FuncV('print', lambda p, a, k: NONE))
            return env, {'globals': g, 'modules': {'concepts': concepts_}, 0: spec}, finish
        return bits.axioms(), harness
    return make


register(Unit('visualize.render_all', VZ, 'render_all', _render_all_unit(),
              assumptions=['glob.iglob(pattern): the matching paths; os.path.basename / splitext; print is progress output (not constrained) (external)',
                           'contracts of concepts.load (unit concepts.load), Context.lattice, Lattice.graphviz (unit lattices.graphviz / visualize.lattice); '
                           'parameter names of load and graphviz are read from the real signatures',
                           "documented defaults: filepattern='*.cxt', encoding=None, directory=None, out_format=None"],
              linkage=[('concepts.visualize.render_all', None)]))
