"""Contract for concepts/algorithms/common.py: iterunion (C09) -- DESIGN section C09.

Abstract setting: items are identified by their key (requires: sortkey injective on the reachable set, >= 0, and
strictly increasing along next_concepts).  item(k) is the item with key k; seed(k): k is the key of a seed;
nxt(i,j): item(j) is among next_concepts(item(i)); reach: the least set containing the seeds and closed under nxt.

  heap  H: set of keys in the heap (multiplicities abstracted: popping the minimum m leaves "m still in H" open)
  ghost Y: set of yielded keys
  outer invariant
      I1  Y(k) \/ H(k) -> reach(k)
      I2  seed(s) -> Y(s) \/ H(s)
      I3  Y(i) /\ nxt(i,j) -> Y(j) \/ H(j)
      I4  seen >= -1;  seen = -1 \/ Y(seen);  Y(k) -> 0 <= k <= seen
      I5  H(k) -> k >= seen
  every yield is of item(key) for a key greater than every key yielded before (strictly increasing, each once)
  exit (H empty): seeds in Y and Y closed under nxt, so reach <= Y by L-REACH (lemmas/Worklist.lean: reach_subset);
  with I1: Y = reach.
"""
from z3 import And, BoolSort, BoolVal, ForAll, Function, Implies, Int, IntSort, Ints, MultiPattern, Not, Or

from pyvc.engine import FuncV, IntV, IterV, LoopSpec, NONE, ObjV, SeqV, TupleV, Unsupported, truthy
from contracts import lib
from contracts.registry import Unit, register
from pyvc import bits

I = IntSort()
B = BoolSort()


class Reach:
    def __init__(self):
        self.seed = Function('seed', I, B)
        self.nxt = Function('nxt', I, I, B)
        self.reach = Function('reach', I, B)
        # seeds as the iterable `concepts`
        self.slen = Int('seeds.len')
        self.skey = Function('seeds.key', I, I)
        self.srank = Function('seeds.rank', I, I)
        # next_concepts(item(i)) as an iterable
        self.nlen = Function('next.len', I, I)
        self.nkey = Function('next.key', I, I, I)
        self.nrank = Function('next.rank', I, I, I)

    def axioms(self):
        i, j, t = Ints('i j t')
        R = self
        return [
            ('seeds.iter', ForAll([t], Implies(And(0 <= t, t < R.slen), R.seed(R.skey(t))), patterns=[R.skey(t)])),
            ('seeds.onto', ForAll([i], Implies(R.seed(i), And(0 <= R.srank(i), R.srank(i) < R.slen, R.skey(R.srank(i)) == i)),
                                  patterns=[R.seed(i)])),
            ('seeds.len', R.slen >= 0),
            ('next.iter', ForAll([i, t], Implies(And(0 <= t, t < R.nlen(i)), R.nxt(i, R.nkey(i, t))),
                                 patterns=[R.nkey(i, t)])),
            ('next.onto', ForAll([i, j], Implies(R.nxt(i, j), And(0 <= R.nrank(i, j), R.nrank(i, j) < R.nlen(i),
                                                                   R.nkey(i, R.nrank(i, j)) == j)),
                                 patterns=[R.nxt(i, j)])),
            ('next.len', ForAll([i], R.nlen(i) >= 0, patterns=[R.nlen(i)])),
            # requires: keys are >= 0 on the reachable set and strictly increase along next_concepts
            ('req.key-nonneg', ForAll([i], Implies(R.reach(i), i >= 0), patterns=[R.reach(i)])),
            ('req.key-increasing', ForAll([i, j], Implies(And(R.reach(i), R.nxt(i, j)), i < j), patterns=[R.nxt(i, j)])),
            # reach contains the seeds and is closed under nxt (leastness is lemma L-REACH, used as an instance at exit)
            ('reach.seed', ForAll([i], Implies(R.seed(i), R.reach(i)), patterns=[R.seed(i)])),
            ('reach.step', ForAll([i, j], Implies(And(R.reach(i), R.nxt(i, j)), R.reach(j)), patterns=[R.nxt(i, j)])),
        ]


def item(k):
    o = ObjV('Item', {}, name='item[%s]' % k)
    o.ident = k
    return o


def _iterunion_unit():
    def make():
        R = Reach()
        axioms = bits.axioms() + R.axioms()

        def harness(path):
            k, i, j, s = Ints('k i j s')
            cnt = [0]

            def fresh_set(name):
                cnt[0] += 1
                return Function('%s!%d' % (name, next(path.eng.counter)), I, B)
            path.ghost['Y'] = fresh_set('Y')
            path.assume(ForAll([k], Not(path.ghost['Y'](k)), patterns=[path.ghost['Y'](k)]))
            heap = ObjV('heap', {'H': None}, name='heap')

            def heap_truth():
                w = path.fresh_int('hw')
                H = heap.fields['H']
                nonempty = path.fresh_bool('heap.nonempty')
                path.assume(Implies(nonempty, H(w)))
                path.assume(Implies(Not(nonempty), ForAll([k], Not(H(k)), patterns=[H(k)])))
                return nonempty
            heap.fields['__truth__'] = None   # replaced dynamically below

            sortkey = FuncV('sortkey', lambda p, args, kw: IntV(args[0].ident))

            def next_concepts(p, args, kw):
                c = args[0]
                m = c.ident
                return IterV(lambda t: item(R.nkey(m, t)), R.nlen(m), 'next_concepts')

            def heappush(p, args, kw):
                h, it = args
                if (h is not heap and h is not p.ghost.get('heap.list')) or not isinstance(it, TupleV) or len(it.items) != 2 \
                        or not isinstance(it.items[0], IntV):
                    raise Unsupported('heappush of %r' % (it,))
                key, c = it.items
                # the heap holds pairs (sortkey(c), c)
                p.oblige('pre@heappush/key-of-item', 'pre@call', key.t == c.ident)
                H = heap.fields['H']
                H2 = fresh_set('H')
                p.assume(ForAll([k], H2(k) == Or(k == key.t, H(k)), patterns=[H2(k), H(k)]))
                heap.fields['H'] = H2
                return NONE

            def heappop(p, args, kw):
                (h,) = args
                if h is not heap and h is not p.ghost.get('heap.list'):
                    raise Unsupported('heappop of another list')
                H = heap.fields['H']
                m = p.fresh_int('m')
                # a minimal pair is removed; the item belonging to the key is item(m) (keys identify items)
                p.assume(And(H(m), ForAll([k], Implies(H(k), m <= k), patterns=[H(k)])))
                H2 = fresh_set('H')
                still = p.fresh_bool('dup')
                p.assume(ForAll([k], H2(k) == If_(k == m, still, H(k)), patterns=[H2(k), H(k)]))
                heap.fields['H'] = H2
                return TupleV([IntV(m), item(m)])

            def heapify(p, args, kw):
                # the initial list: [(sortkey(c), c) for c in concepts] (a comprehension or an equivalent append loop) -- checked
                # on a symbolic element; from here on this list object is the heap
                lst = args[0]
                if not isinstance(lst, (IterV, SeqV)):
                    raise Unsupported('heapify of %r' % (lst,))
                t = p.fresh_int('t')
                n0 = len(p.pc)
                p.pc.append(And(0 <= t, t < R.slen))
                el = lst.at(t)
                ok = isinstance(el, TupleV) and len(el.items) == 2 and isinstance(el.items[0], IntV) \
                    and getattr(el.items[1], 'ident', None) is not None
                p.oblige('initial-heap/shape', 'post', BoolVal(ok))
                if ok:
                    p.oblige('initial-heap/pairs-of-the-seeds', 'post', And(el.items[0].t == R.skey(t), el.items[1].ident == R.skey(t)))
                del p.pc[n0:]
                p.oblige('initial-heap/one-entry-per-seed', 'post', lst.length == R.slen)
                H0 = fresh_set('H')
                p.assume(ForAll([k], H0(k) == R.seed(k), patterns=[H0(k)]))
                heap.fields['H'] = H0
                p.ghost['heap.list'] = lst
                return NONE

            def partial(p, args, kw):
                f, rest = args[0], args[1:]
                return FuncV('partial(%s)' % f.name, lambda p2, a2, k2: f.fn(p2, list(rest) + list(a2), k2))
            functools = ObjV('module', {'partial': FuncV('functools.partial', partial)}, name='functools')
            heapq = ObjV('module', {'heappush': FuncV('heappush', heappush), 'heappop': FuncV('heappop', heappop),
                                    'heapify': FuncV('heapify', heapify)}, name='heapq')

            def initial_heap(interp, env, node):
                # closed form of [(sortkey(c), c) for c in concepts]: the pairs of the seeds
                t = path.fresh_int('t')
                inner = dict(env)
                interp.assign(node.generators[0].target, item(R.skey(t)), inner)
                el = interp.eval(node.elt, inner)
                ok = isinstance(el, TupleV) and len(el.items) == 2 and isinstance(el.items[0], IntV) \
                    and getattr(el.items[1], 'ident', None) is not None and not node.generators[0].ifs
                path.oblige('closed-form/initial-heap-shape', 'post', BoolVal(ok))
                if ok:
                    path.oblige('closed-form/initial-heap-pairs', 'post',
                                And(el.items[0].t == R.skey(t), el.items[1].ident == R.skey(t)))
                H0 = fresh_set('H')
                path.assume(ForAll([k], H0(k) == R.seed(k), patterns=[H0(k)]))
                heap.fields['H'] = H0
                return heap

            concepts = IterV(lambda t: item(R.skey(t)), R.slen, 'concepts')
            env = {'concepts': concepts, 'sortkey': sortkey, 'next_concepts': FuncV('next_concepts', next_concepts)}

            def outer_inv(e):
                H, Y = heap.fields['H'], path.ghost['Y']
                seen = e.seen
                return [
                    ('I1', ForAll([k], Implies(Or(Y(k), H(k)), R.reach(k)), patterns=[Y(k), H(k)])),
                    ('I2', ForAll([s], Implies(R.seed(s), Or(Y(s), H(s))), patterns=[R.seed(s)])),
                    ('I3', ForAll([i, j], Implies(And(Y(i), R.nxt(i, j)), Or(Y(j), H(j))), patterns=[MultiPattern(Y(i), R.nxt(i, j))])),
                    # `seen` starts below every key (any negative value) and is afterwards the last yielded key
                    ('I4', And(Or(seen < 0, Y(seen)),
                               ForAll([k], Implies(Y(k), And(0 <= k, k <= seen)), patterns=[Y(k)]))),
                    ('I5', ForAll([k], Implies(H(k), k >= seen), patterns=[H(k)])),
                ]

            def outer_havoc(p, env):
                heap.fields['H'] = fresh_set('H')
                p.ghost['Y'] = fresh_set('Y')
            outer = LoopSpec(outer_inv, ghost_havoc=outer_havoc)

            def inner_inv(e, t):
                H = heap.fields['H']
                H0 = path.ghost['H@inner']
                m = e.concept.ident
                return [
                    ('keeps', ForAll([k], Implies(H0(k), H(k)), patterns=[H0(k)])),
                    ('pushed', ForAll([j], Implies(And(R.nxt(m, j), R.nrank(m, j) < t), H(j)), patterns=[R.nxt(m, j)])),
                    ('only', ForAll([k], Implies(H(k), Or(H0(k), R.nxt(m, k))), patterns=[H(k)])),
                ]

            def inner_entry(p, env):
                p.ghost['H@inner'] = heap.fields['H']

            def inner_havoc(p, env):
                heap.fields['H'] = fresh_set('H')
            inner = LoopSpec(inner_inv, ghost_havoc=inner_havoc)
            inner.on_entry = inner_entry

            def on_yield(p, env, val):
                Y = p.ghost['Y']
                key = getattr(val, 'ident', None)
                p.oblige('yield/is-item', 'yield', BoolVal(key is not None))
                if key is None:
                    return
                # strictly increasing: greater than every key yielded before (hence each item at most once)
                p.oblige('yield/strictly-increasing', 'yield', ForAll([k], Implies(Y(k), k < key), patterns=[Y(k)]))
                Y2 = fresh_set('Y')
                p.assume(ForAll([k], Y2(k) == Or(k == key, Y(k)), patterns=[Y2(k), Y(k)]))
                p.ghost['Y'] = Y2

            class HeapTruth:
                pass
            # truthiness of the heap list: non-empty
            def heap_truth_hook():
                return heap_truth()
            heap.truth_fn = heap_truth_hook

            def finish(path, env, outcome):
                if outcome[0] != 'return':
                    path.oblige('post/no-exception', 'post', BoolVal(False))
                    return
                Y = path.ghost['Y']
                # use lemma L-REACH (lemmas/Worklist.lean: reach_subset) with the set Y
                hyp1 = ForAll([s], Implies(R.seed(s), Y(s)), patterns=[R.seed(s)])
                hyp2 = ForAll([i, j], Implies(And(Y(i), R.nxt(i, j)), Y(j)), patterns=[MultiPattern(Y(i), R.nxt(i, j))])
                path.oblige('lemma.use/L-REACH/seeds', 'lemma.use', hyp1)
                path.oblige('lemma.use/L-REACH/closed', 'lemma.use', hyp2)
                path.assume(ForAll([k], Implies(R.reach(k), Y(k)), patterns=[R.reach(k)]))
                path.oblige('post/yields-exactly-reach', 'post', ForAll([k], Y(k) == R.reach(k), patterns=[Y(k), R.reach(k)]))
            loops = {'globals': dict(lib.builtins(), functools=functools, heapq=heapq), 'on_yield': on_yield}
            # loop ordinals: the while loop and the inner for over next_concepts, wherever an (equivalent) initial append loop sits
            import ast as _ast
            from pyvc import extract as _x
            _fn = _x.get_function('concepts/algorithms/common.py', 'iterunion').node
            from pyvc.engine import accumulator_shape as _acc
            _loops = [n for n in _ast.walk(_fn) if isinstance(n, (_ast.While, _ast.For))
                      and not (isinstance(n, _ast.For) and _acc(n) is not None)]      # accumulator loops take no ordinal (engine)
            _w = [i for i, n in enumerate(_loops) if isinstance(n, _ast.While)]
            if len(_w) != 1:
                raise Unsupported('expected exactly one while loop in iterunion')
            _inner = [i for i, n in enumerate(_loops) if isinstance(n, _ast.For) and any(n is d for d in _ast.walk(_loops[_w[0]]))]
            if len(_inner) != 1:
                raise Unsupported('expected exactly one for loop inside the while loop of iterunion')
            loops[_w[0]] = outer
            loops[_inner[0]] = inner
            outer.modifies = ['heap']
            inner.modifies = ['heap']
            loops['havoc_heap'] = lambda p, cur: heap
            return env, loops, finish
        return axioms, harness
    return make


def If_(c, a, b):
    from z3 import If
    return If(c, a, b)


register(Unit('common.iterunion', 'concepts/algorithms/common.py', 'iterunion', _iterunion_unit(),
              assumptions=['requires: sortkey injective and >= 0 on the reachable set and strictly increasing along next_concepts '
                           '(for upset/downset: LatInv.2/3/5 + L-SLEX)',
                           'heapq contract: heappop removes a pair with minimal key (multiplicities abstracted), heappush adds, heapify keeps the multiset',
                           'lemma L-REACH proved in Lean (lemmas/Worklist.lean: reach_subset)',
                           'termination of the worklist loop is not proved'],
              linkage=[('concepts.algorithms.common.iterunion', None), ('concepts.algorithms.iterunion', None)]))
