"""Contracts for concepts/lattices.py (relative to LatInv): Lattice.__call__/__getitem__ (C02), n-ary join/meet (C07),
upset_union/downset_union, graphviz pass-through; lattice_members wrappers upset/downset/minimal/attributes."""
from z3 import And, BoolVal, ForAll, Function, If, Implies, Int, IntSort, Ints, Not, Or

from pyvc import bits
from pyvc.bits import bit
from pyvc.engine import (BoolV, ClassV, FuncV, IntV, IterV, ListV, NONE, ObjV, SeqV, StrV, TupleV, Unsupported, truthy,
                         values_equal)
from contracts import lib
from contracts.contexts import _loops, _no_exc, full_context_obj
from contracts.ctxtheory import Ctx
from contracts.latinv import Lat
from contracts.lemmas_z3 import Side, st_cl_def, st_dom, st_monotone, st_up_cl, use_galois
from contracts.registry import Unit, register

I = IntSort()


def world(path):
    C = Ctx()
    L = Lat(C)
    ctx = full_context_obj(C)
    lat = L.lattice_obj(ctx)
    return C, L, ctx, lat


def _axioms():
    C = Ctx()
    return C.axioms() + Lat(C).facts()


# ---- C02: lattice(properties), lattice[key]

def _call_unit():
    def make():
        def harness(path):
            C, L, ctx, lat = world(path)
            q = lib.Query(C, path)
            calls = []

            def extension(p, args, kw):
                # contract of Context.extension proved in unit contexts.extension
                calls.append((args, kw))
                ok = len(args) == 1 and args[0] is q.val and set(kw) == {'raw'} and isinstance(kw['raw'], BoolV)
                p.oblige('pre@extension/arguments', 'pre@call', And(BoolVal(ok), kw['raw'].t if ok else BoolVal(False)))
                if p.branch(q.all_prop):
                    use_galois(p, Side(C, 'P'), q.B)
                    use_galois(p, Side(C, 'O'), C.Dn(q.B))
                    return IntV(C.Dn(q.B), 'Objects')
                from pyvc.engine import PyRaise
                raise PyRaise('KeyError')
            ctx.fields['extension'] = FuncV('Context.extension', extension)
            env = {'self': lat, 'properties': q.val}

            def finish(path, env_, outcome):
                kind, val = outcome
                if kind == 'raise':
                    path.oblige('post/raises-only-on-unknown-name', 'post', And(BoolVal(val == 'KeyError'), Not(q.all_prop)))
                    return
                # the very member object whose extent is the common objects of the properties (the concept (B', B''))
                path.oblige('post/member-with-extent-Dn(B)', 'post', val.ident == L.idx(C.Dn(q.B)))
                path.oblige('post/extent', 'post', val.fields['_extent'].t == C.Dn(q.B))
                path.oblige('post/intent', 'post', val.fields['_intent'].t == C.Cl2(q.B))
            return env, _loops(C), finish
        return _axioms(), harness
    return make


register(Unit('lattices.__call__', 'concepts/lattices.py', 'CollectionMixin.__call__', _call_unit(),
              assumptions=['relative to LatInv.1/4', 'contract of Context.extension (unit contexts.extension)', 'lemmas lemma.galois*/galois2*'],
              linkage=[('type(lat).__call__', None)]))


def _getitem_unit(case):
    def make():
        def harness(path):
            C, L, ctx, lat = world(path)
            q = lib.Query(C, path)
            path.assume(Not(And(q.all_obj, q.all_prop)))

            def ctx_getitem(p, args, kw):
                # contract of Context.__getitem__ proved in unit contexts.getitem
                ok = len(args) == 1 and args[0] is q.val and set(kw) == {'raw'} and isinstance(kw['raw'], BoolV)
                p.oblige('pre@Context.__getitem__/arguments', 'pre@call', And(BoolVal(ok), kw['raw'].t if ok else BoolVal(False)))
                k = p.choose([q.all_obj, And(Not(q.all_obj), q.all_prop), And(Not(q.all_obj), Not(q.all_prop))])
                if k == 0:
                    use_galois(p, Side(C, 'O'), q.A)
                    return TupleV([IntV(C.Cl(q.A), 'Objects'), IntV(C.Up(q.A), 'Properties')])
                if k == 1:
                    use_galois(p, Side(C, 'P'), q.B)
                    use_galois(p, Side(C, 'O'), C.Dn(q.B))
                    return TupleV([IntV(C.Dn(q.B), 'Objects'), IntV(C.Cl2(q.B), 'Properties')])
                from pyvc.engine import PyRaise
                raise PyRaise('KeyError')
            ctx.fields['__getitem__'] = FuncV('Context.__getitem__', ctx_getitem)
            ctx.fields['__getitem__'].is_method = False
            g = lib.builtins()
            if case == 'int':
                i = Int('key')
                path.assume(And(0 <= i, i < L.N))
                key = IntV(i)
            elif case == 'empty':
                key = TupleV([])
            else:
                key = q.val
                q.val.truth_fn = lambda: BoolVal(True)       # a non-empty collection of labels
                # precondition of this variant: the key is a collection of labels, not an int or a slice (those are the other variants);
                # any other type test on it stays undetermined
                q.val.isinstance_fn = lambda names, _p=path: (False if set(names) <= {'int', 'slice', 'bool'} else _p.fresh_bool('isinstance(key)'))
            env = {'self': lat, 'key': key}
            loops = _loops(C)

            def finish(path, env_, outcome):
                kind, val = outcome
                if case == 'int':
                    if _no_exc(path, outcome):
                        path.oblige('post/i-th-member', 'post', val.ident == i)      # lattice[i] is the i-th member in iteration order
                elif case == 'empty':
                    if _no_exc(path, outcome):
                        path.oblige('post/top', 'post', val.ident == L.N - 1)        # lattice[()] is the top concept
                        path.oblige('post/top-extent', 'post', val.fields['_extent'].t == C.ObjSup)
                else:
                    if kind == 'raise':
                        path.oblige('post/raises-only-on-mixed-or-unknown', 'post',
                                    And(BoolVal(val == 'KeyError'), Not(q.all_obj), Not(q.all_prop)))
                        return
                    e_spec = If(q.all_obj, C.Cl(q.A), C.Dn(q.B))
                    path.oblige('post/member-with-generated-extent', 'post', val.ident == L.idx(e_spec))
                    path.oblige('post/extent', 'post', val.fields['_extent'].t == e_spec)
            return env, loops, finish
        return _axioms(), harness
    return make


for _c in ('int', 'empty', 'labels'):
    register(Unit('lattices.__getitem__.' + _c, 'concepts/lattices.py', 'CollectionMixin.__getitem__', _getitem_unit(_c),
                  assumptions=['relative to LatInv.1/2/4', 'contract of Context.__getitem__ (unit contexts.getitem)',
                               'int keys: 0 <= i < len (negative indexes and slices follow list semantics, not claimed)'],
                  linkage=[('type(lat).__getitem__', None)]))


# ---- C07: n-ary join / meet

def _nary_unit(name):
    def make():
        def harness(path):
            C, L, ctx, lat = world(path)
            sel = Function('sel', I, I)
            ln = Int('concepts.len')
            t_ = Int('t')
            path.assume(ln >= 0)
            path.assume(ForAll([t_], Implies(And(0 <= t_, t_ < ln), And(0 <= sel(t_), sel(t_) < L.N)), patterns=[sel(t_)]))
            concepts = IterV(lambda t: L.concept(sel(t), lat), ln, 'concepts')
            env = {'self': lat, 'concepts': concepts}
            reduces = []
            Objects = ctx.fields['_Objects']
            for nm in ('reduce_or', 'reduce_and'):
                orig = Objects.fields[nm]

                def wrapped(p, args, kw, _orig=orig, _nm=nm):
                    r = _orig.fn(p, args, kw)
                    reduces.append((_nm, r, args[-1]))
                    return r
                Objects.fields[nm] = FuncV(nm, wrapped)
            S = Side(C, 'O')

            def use_lemmas(p, e):
                # before the _mapping lookup: the reduced set R is an object set; lemma instances for Cl(R)
                if not reduces:
                    return
                nm, r, it = reduces[-1]
                R = r.t
                p.oblige('lemma.use/R-in-domain', 'lemma.use', C.is_objset(R))
                use_galois(p, S, R)
                if nm == 'reduce_and':
                    # the intersection of extents is an extent: Cl(R) <= Cl(e_t) = e_t for every member (monotone), R <= Cl(R)
                    w = p.fresh_int('wext')
                    p.assume(bits.ext_instance(C.Cl(R), R, w))
                    t0 = r.reduce_wit(w)
                    p.assume(st_monotone(S, R, it.at(t0).t))
            loops = _loops(C)
            loops['before'] = {'Return#0': use_lemmas}

            def finish(path, env_, outcome):
                if not _no_exc(path, outcome):
                    return
                val = outcome[1]
                ok = len(reduces) == 1 and reduces[0][0] == ('reduce_or' if name == 'join' else 'reduce_and')
                path.oblige('post/one-reduction', 'post', BoolVal(ok))
                if not ok:
                    return
                R = reduces[0][1].t
                k = Int('k')
                # use lemma B9 (extensionality): an empty fold is the start value
                path.assume(bits.ext_instance(R, 0 if name == 'join' else C.ObjSup, path.fresh_int('wext')))
                # R is the union / intersection of the extents of the given concepts (library fold contract, restated)
                if name == 'join':
                    path.oblige('post/member-with-closure-of-union', 'post', val.ident == L.idx(C.Cl(R)))
                    path.oblige('post/extent', 'post', val.fields['_extent'].t == C.Cl(R))
                    path.oblige('post/empty-join-is-infimum', 'post', Implies(ln == 0, val.ident == 0))
                else:
                    path.oblige('post/member-with-intersection', 'post', val.ident == L.idx(R))
                    path.oblige('post/extent', 'post', val.fields['_extent'].t == R)
                    path.oblige('post/empty-meet-is-supremum', 'post', Implies(ln == 0, val.ident == L.N - 1))
            return env, loops, finish
        return _axioms(), harness
    return make


for _n in ('join', 'meet'):
    register(Unit('lattices.' + _n, 'concepts/lattices.py', 'AggregagtionMixin.' + _n, _nary_unit(_n),
                  assumptions=['relative to LatInv.1/2/4', 'bitsets contracts reduce_or / reduce_and (fold from infimum / supremum)',
                               'contract of Objects.double (unit matrices.double)', 'lemmas lemma.galois*/galois2* (monotone, extensive, idempotent)'],
                  linkage=[('type(lat).' + _n, None)]))


# ---- wrappers: a function that calls given callees with given arguments and returns the result ("call trace" contracts)

class Recorder:
    def __init__(self):
        self.calls = []

    def func(self, name, result=None):
        def f(p, args, kw):
            r = result(p, args, kw) if callable(result) else ObjV('Result', {}, name='result-of-' + name)
            self.calls.append((name, list(args), dict(kw), r))
            return r
        return FuncV(name, f)


def _operator_module():
    def attrgetter(p, args, kw):
        (a,) = args
        f = FuncV('attrgetter(%r)' % a.value, lambda p2, a2, k2: p2.eng and __import__('pyvc.engine', fromlist=['Interp']) and _getattr(p2, a2[0], a.value))
        f.attr = a.value
        return f
    return ObjV('module', {'attrgetter': FuncV('operator.attrgetter', attrgetter)}, name='operator')


def _getattr(p, o, attr):
    if isinstance(o, ObjV) and attr in o.fields:
        return o.fields[attr]
    raise Unsupported('attrgetter(%s) on %r' % (attr, o))


def _trace_unit(qual, setup):
    """setup(path, rec) -> (env, globals_extra, check(path, outcome, rec)->list of (name, formula))"""
    def make():
        def harness(path):
            rec = Recorder()
            env, gx, check = setup(path, rec)
            g = dict(lib.builtins(), operator=_operator_module())
            g.update(gx)

            def finish(path, env_, outcome):
                if not _no_exc(path, outcome):
                    return
                for nm, f in check(path, outcome[1], rec):
                    path.oblige('post/' + nm, 'post', f)
            return env, {'globals': g}, finish
        return bits.axioms(), harness
    return make


def _is_getter(v, attr):
    return BoolVal(isinstance(v, FuncV) and getattr(v, 'attr', None) == attr)


def _updown(direction, union):
    key, nxt = ('index', 'upper_neighbors') if direction == 'up' else ('dindex', 'lower_neighbors')
    comp = 'properly_subsumes' if direction == 'up' else 'properly_implies'

    def setup(path, rec):
        algorithms = ObjV('module', {'iterunion': rec.func('iterunion')}, name='algorithms')
        this = ObjV('Concept' if not union else 'Lattice', {}, name='self')
        gx = {'algorithms': algorithms}
        env = {'self': this}
        if union:
            ConceptCls = ObjV('class', {n: FuncV('Concept.' + n, lambda p, a, k: NONE) for n in ('properly_subsumes', 'properly_implies')},
                              name='Concept')
            for n in ('properly_subsumes', 'properly_implies'):
                ConceptCls.fields[n].which = n
            tools = ObjV('module', {'maximal': rec.func('maximal')}, name='tools')
            gx.update({'tools': tools, 'Concept': ConceptCls})
            arg = ObjV('Iterable', {}, name='concepts')
            env['concepts'] = arg
        else:
            arg = None

        def check(path, val, rec):
            out = []
            names = [c[0] for c in rec.calls]
            # the union forms may reduce the collection with tools.maximal first (the traversal of a collection and of its minimal /
            # maximal members coincide: lemma.traversal.*), or hand the collection over as it is
            reduced = union and names == ['maximal', 'iterunion']
            okc = names == ['iterunion'] or reduced
            out.append(('calls', BoolVal(okc)))
            if not okc:
                return out
            it = rec.calls[-1]
            out.append(('returns-the-traversal', BoolVal(val is it[3])))
            ok = len(it[1]) == 3 and not it[2]
            out.append(('iterunion-arity', BoolVal(ok)))
            if not ok:
                return out
            seeds, k, n = it[1]
            out.append(('sortkey', _is_getter(k, key)))
            out.append(('next_concepts', _is_getter(n, nxt)))
            if union and not reduced:
                out.append(('seeds-are-the-collection', BoolVal(seeds is arg)))
            elif union:
                m = rec.calls[0]
                okm = len(m[1]) == 1 and m[1][0] is arg and set(m[2]) == {'comparison'} \
                    and getattr(m[2]['comparison'], 'which', None) == comp
                out.append(('maximal-call', BoolVal(okm)))
                out.append(('seeds-are-the-reduced-collection', BoolVal(seeds is m[3])))
            else:
                out.append(('seed-is-self', BoolVal(isinstance(seeds, ListV) and len(seeds.items) == 1 and seeds.items[0] is this)))
            return out
        return env, gx, check
    return setup


register(Unit('members.upset', 'concepts/lattice_members.py', 'NavigateableMixin.upset', _trace_unit('upset', _updown('up', False)),
              assumptions=['iterunion contract (unit common.iterunion); its precondition from LatInv.2/5 + L-SLEX'],
              linkage=[('type(c).upset', None)]))
register(Unit('members.downset', 'concepts/lattice_members.py', 'NavigateableMixin.downset', _trace_unit('downset', _updown('down', False)),
              assumptions=['iterunion contract (unit common.iterunion); its precondition from LatInv.3/5 + L-SLEX'],
              linkage=[('type(c).downset', None)]))
register(Unit('lattices.upset_union', 'concepts/lattices.py', 'NavigateableMixin.upset_union', _trace_unit('upset_union', _updown('up', True)),
              assumptions=['tools.maximal contract (assumed; bounded): the elements x of the collection with no y such that comparison(x, y); '
                           'reachability from those equals reachability from the collection'],
              linkage=[('type(lat).upset_union', None)]))
register(Unit('lattices.downset_union', 'concepts/lattices.py', 'NavigateableMixin.downset_union', _trace_unit('downset_union', _updown('down', True)),
              assumptions=['tools.maximal contract (assumed; bounded)'], linkage=[('type(lat).downset_union', None)]))


def _graphviz_setup(path, rec):
    visualize = ObjV('module', {'lattice': rec.func('visualize.lattice')}, name='visualize')
    this = ObjV('Lattice', {}, name='self')
    names = ['filename', 'directory', 'render', 'view', 'make_object_label', 'make_property_label']
    vals = {n: ObjV('Arg', {}, name=n) for n in names}
    env = dict(vals, self=this, kwargs=__import__('pyvc.engine', fromlist=['DictV']).DictV({}))

    def check(path, val, rec):
        ok = len(rec.calls) == 1
        out = [('one-call', BoolVal(ok))]
        if ok:
            _, args, kw, r = rec.calls[0]
            good = (len(args) == 5 and args[0] is this and all(args[i + 1] is vals[names[i]] for i in range(4))
                    and set(kw) == {'make_object_label', 'make_property_label'}
                    and kw['make_object_label'] is vals['make_object_label'] and kw['make_property_label'] is vals['make_property_label'])
            out.append(('pass-through-arguments', BoolVal(good)))
            out.append(('returns-the-digraph', BoolVal(val is r)))
        return out
    return env, {'visualize': visualize}, check


register(Unit('lattices.graphviz', 'concepts/lattices.py', 'VisualizableMixin.graphviz', _trace_unit('graphviz', _graphviz_setup),
              assumptions=['contract of visualize.lattice (unit visualize.lattice)'], linkage=[('type(lat).graphviz', None)]))


def _minimal_setup(which):
    def setup(path, rec):
        def bitset(nm):
            f = FuncV('members', lambda p, a, k: _members_of(a[0]))
            f.is_method = True
            return ObjV('Bitset', {'members': f}, name=nm)
        ext, itt = bitset('extent'), bitset('intent')
        gen_items = []

        def minimize_result(p, args, kw):
            g = ObjV('Generator', {}, name='minimize-generator')
            return g
        ctx = ObjV('Context', {'_minimal': rec.func('_minimal', lambda p, a, k: bitset('minimal-set')),
                               '_minimize': rec.func('_minimize', lambda p, a, k: IterV(lambda t: bitset('gen[%s]' % t), Int('gen.len'), 'minimize'))},
                   name='ctx')
        lat = ObjV('Lattice', {'_context': ctx}, name='lattice')
        this = ObjV('Concept', {'lattice': lat, '_extent': ext, '_intent': itt}, name='self')

        def check(path, val, rec):
            out = []
            if which == 'infimum':
                out.append(('no-callee', BoolVal(not rec.calls)))
                out.append(('full-intent-labels', BoolVal(getattr(val, 'of', None) is itt)))      # the infimum's minimal() is its full intent
                return out
            ok = len(rec.calls) == 1 and rec.calls[0][0] == ('_minimal' if which == 'minimal' else '_minimize') \
                and len(rec.calls[0][1]) == 2 and rec.calls[0][1][0] is ext and rec.calls[0][1][1] is itt
            out.append(('callee-and-arguments', BoolVal(ok)))
            if not ok:
                return out
            r = rec.calls[0][3]
            if which == 'minimal':
                out.append(('labels-of-the-first-generating-set', BoolVal(getattr(val, 'of', None) is r)))
            else:
                okv = isinstance(val, IterV)
                out.append(('iterator', BoolVal(okv)))
                if okv:
                    t = path.fresh_int('t')
                    el = val.at(t)
                    out.append(('labels-of-each-generating-set', And(val.length == r.length, BoolVal(getattr(el, 'of', None) is not None
                                                                                               and el.of.name == 'gen[%s]' % t))))
            return out
        return {'self': this}, {}, check
    return setup


def _members_of(b):
    o = ObjV('LabelTuple', {}, name='members(%s)' % b.name)
    o.of = b
    return o


register(Unit('members.minimal', 'concepts/lattice_members.py', 'Concept.minimal', _trace_unit('minimal', _minimal_setup('minimal')),
              assumptions=['contract of _minimal/_minimize (units contexts.minimal, contexts.minimize); bitsets members()'],
              linkage=[("type(c).minimal if type(c).__name__ != 'Infimum' else concepts.lattice_members.Concept.minimal", None)]))
register(Unit('members.attributes', 'concepts/lattice_members.py', 'Concept.attributes', _trace_unit('attributes', _minimal_setup('attributes')),
              assumptions=['contract of _minimize (unit contexts.minimize); bitsets members()'],
              linkage=[('type(c).attributes', None)]))
register(Unit('members.infimum_minimal', 'concepts/lattice_members.py', 'Infimum.minimal', _trace_unit('minimal', _minimal_setup('infimum')),
              assumptions=['bitsets members()'], linkage=[('concepts.lattice_members.Infimum.minimal', None), ('type(lat.infimum).minimal', None)]))


def _minimal_cls_setup(path, rec):
    first = ObjV('Bitset', {}, name='first-generating-set')

    def gen(p, args, kw):
        g = ObjV('Generator', {}, name='minimize-generator')
        g.fields['__next__'] = FuncV('generator.__next__', lambda p2, a2, k2: first)
        return g
    cls = ObjV('class', {'_minimize': rec.func('_minimize', gen)}, name='Context')
    ext, itt = ObjV('Bitset', {}, name='extent'), ObjV('Bitset', {}, name='intent')

    def check(path, val, rec):
        ok = len(rec.calls) == 1 and len(rec.calls[0][1]) == 2 and rec.calls[0][1][0] is ext and rec.calls[0][1][1] is itt
        return [('one-_minimize-call-on-the-pair', BoolVal(ok)), ('first-yielded-set', BoolVal(val is first))]
    return {'cls': cls, 'extent': ext, 'intent': itt}, {}, check


register(Unit('contexts._minimal', 'concepts/contexts.py', 'MinimizeMixin._minimal', _trace_unit('_minimal', _minimal_cls_setup),
              assumptions=['pre@next: _minimize yields at least one set for a concept (Dn(intent) = extent; the intent itself generates)'],
              linkage=[('type(ctx)._minimal', None)]))
