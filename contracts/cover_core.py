"""The remaining small functions of the core classes under contract (one unit per function, or one parametrised harness per group).

  concepts/contexts.py         Context.objects / properties / bools (C19, C01), Data.copy (C14), FormattingMixin.__str__ / __repr__
  concepts/definitions.py      Triple.__getitem__ (C13), Triple.__ne__ (C13/C14), Triple.fromfile (C12), FormattingMixin.__str__ / __repr__
  concepts/tools.py            Unique.rsub (C13/C14/C17: the names of the argument that are not in this collection, first occurrences, in
                               the order given), Unique.__repr__, lazyproperty.__init__, max_len
  concepts/lattice_members.py  Pair._eq (C11), Pair.extent / intent (C02/C11), FormattingMixin.__str__ / __repr__
  concepts/lattices.py         Data._eq (C11), NavigateableMixin.upset_generalization (C09-like, with lemma.traversal.generalization),
                               FormattingMixin.__str__ / __repr__
  concepts/_common.py          Shape.rows / columns / __repr__, Concept.*, ConceptList.tofile
  concepts/junctors.py         Unary / Binary __init__ / __str__ / __repr__, Relations.__str__, RelationMeta.__init__ (C16)

Thin wrappers get call-trace contracts (a recorder, as in contracts/agreement.py); texts built by f-strings / join / format are
checked as *structured* texts (which values are rendered, in which order, with which conversion); the rendering of a single
value (repr / str / format spec / %-padding) is the builtin's and is not specified here.
No z3 sort or function is created at import time (only inside make() / harness).
"""
import ast as _ast

from z3 import (And, ArraySort, BoolSort, BoolVal, Const, Exists, ForAll, Function, If, Implies, Int, IntSort, Ints, MultiPattern, Not, Or,
                Select, Store)

from pyvc import bits, extract, seqs
from pyvc.engine import (BoolV, ClassV, DictV, FilterV, FuncV, IntV, IterV, ListV, LoopSpec, NONE, NoneV, ObjV, PyRaise, SeqV, StrV,
                         TermV, TupleV, Unsupported, truthy)
from contracts import lib
from contracts.registry import Unit, register

CX, DF, TL, LM, LT, CM, JU = ('concepts/contexts.py', 'concepts/definitions.py', 'concepts/tools.py', 'concepts/lattice_members.py',
                              'concepts/lattices.py', 'concepts/_common.py', 'concepts/junctors.py')


# =====================================================================================================================
# infrastructure: recorder, markers, structured texts

class Rec:
    """call recorder: rec.func(name) is a callee that records (name, args, kwargs, result) and returns a fresh opaque result"""

    def __init__(self):
        self.calls = []

    def func(self, name, result=None, method=False):
        def f(p, args, kw):
            r = result(p, args, kw) if callable(result) else ObjV('Result', {}, name='result-of-' + name)
            self.calls.append((name, list(args), dict(kw), r))
            return r
        fv = FuncV(name, f)
        fv.is_method = method
        return fv

    def names(self):
        return [c[0] for c in self.calls]


def _marker(name, **fields):
    return ObjV('Arg', dict(fields), name=name)


def _unit(setup, axioms=None):
    """setup(path, rec) -> (env, globals_extra, check[, loops_extra]);  check(path, outcome, rec) -> [(name, formula)]"""
    def make():
        def harness(path):
            rec = Rec()
            res = setup(path, rec)
            env, gx, check = res[:3]
            g = dict(lib.builtins())
            g.update(gx or {})
            loops = {'globals': g}
            if len(res) > 3 and res[3]:
                loops.update(res[3])

            def finish(path, env_, outcome):
                for nm, f in check(path, outcome, rec):
                    path.oblige(nm if '/' in nm else 'post/' + nm, nm.split('/')[0] if '/' in nm else 'post', f)
            return env, loops, finish
        return (axioms() if axioms else bits.axioms()), harness
    return make


def _returned(outcome, rec, name, n_calls=None):
    """the function returned the result of its last call, which was to `name`"""
    return bool(outcome[0] == 'return' and rec.calls and rec.calls[-1][0] == name and outcome[1] is rec.calls[-1][3]
                and (n_calls is None or len(rec.calls) == n_calls))


def _is(x, y):
    """same value: identity for heap values and markers, the same term for ints, the same text for literal strings"""
    if x is y:
        return True
    if isinstance(x, IntV) and isinstance(y, IntV):
        import z3
        return z3.simplify(x.t).eq(z3.simplify(y.t))       # `0 + 1` (an index advanced by `i += 1`) is 1
    if isinstance(x, StrV) and isinstance(y, StrV):
        return x.value is not None and x.value == y.value
    return False


def text_is(val, expected):
    """The structured text `val` (StrV) consists of exactly the given parts: a str is literal text, a tuple (value, conversion[, spec])
    a rendered value (conversion: None | 'r' | 's'); the value may be a predicate."""
    if not isinstance(val, StrV):
        return False
    if val.value is not None:
        parts = [('lit', val.value)] if val.value else []
    else:
        parts = list(val.parts or [])
    exp = [e for e in expected if e != '']
    if len(parts) != len(exp):
        return False
    conv = {None: -1, 'r': 114, 's': 115, 'a': 97}
    for p, e in zip(parts, exp):
        if isinstance(e, str):
            if p[0] != 'lit' or p[1] != e:
                return False
            continue
        v, c = e[0], e[1]
        spec = e[2] if len(e) > 2 else None
        if p[0] != 'fmt' or p[2] != conv[c] or p[3] != spec:
            return False
        if callable(v):
            if not v(p[1]):
                return False
        elif not _is(p[1], v):
            return False
    return True


class Joined(StrV):
    """sep.join(iterable): the text that joins the items of `iterable` with `sep` (the contract keeps what was joined)"""

    def __init__(self, sep, iterable):
        StrV.__init__(self, None, parts=[('fmt', sep, -1, 'join')])
        self.sep, self.iterable = sep, iterable


class Formatted(StrV):
    """template.format(*args)"""

    def __init__(self, template, args):
        StrV.__init__(self, None, parts=[('fmt', template, -1, 'format')])
        self.template, self.args = template, list(args)


def _str_join(p, sep, it):
    return Joined(sep, it)


_STR_METHODS = {('StrV', 'format'): FuncV('str.format', lambda p, a, k: Formatted(a[0], a[1:]))}


def joined(sep, what):
    """predicate: a Joined text with literal separator `sep` over the value `what` (identity or predicate)"""
    def pred(v):
        return isinstance(v, Joined) and isinstance(v.sep, StrV) and v.sep.value == sep \
            and (what(v.iterable) if callable(what) else v.iterable is what)
    return pred


def _class_of(name):
    return ObjV('class', {'__name__': StrV(name)}, name=name)


def _no_exc(outcome):
    return outcome[0] == 'return'


# =====================================================================================================================
# concepts/contexts.py

# ---- the observable triple (C19 / C01): objects, properties = the member labels of the two bitset classes, bools = the rows

def _ctx_names(which):
    def setup(path, rec):
        cls = {n: ObjV('BitSetClass', {'_members': _marker('%s._members' % n)}, name=n) for n in ('_Objects', '_Properties')}
        this = ObjV('Context', dict(cls), name='self')
        want = cls['_Objects' if which == 'objects' else '_Properties'].fields['_members']

        def check(path, outcome, rec):
            return [('the-member-labels-of-the-%s-bitset-class' % which[:-1].replace('ie', 'y'),
                     BoolVal(_no_exc(outcome) and outcome[1] is want and not rec.calls))]
        return {'self': this}, {}, check
    return setup


def _ctx_bools(path, rec):
    intents = ObjV('Vectors', {'bools': rec.func('_intents.bools')}, name='self._intents')
    extents = ObjV('Vectors', {'bools': rec.func('_extents.bools')}, name='self._extents')
    this = ObjV('Context', {'_intents': intents, '_extents': extents}, name='self')

    def check(path, outcome, rec):
        ok = _returned(outcome, rec, '_intents.bools', 1) and not rec.calls[0][1] and not rec.calls[0][2]
        return [('the-rows-of-the-object-intents', BoolVal(ok))]
    return {'self': this}, {}, check


for _w in ('objects', 'properties'):
    register(Unit('contexts.' + _w, CX, 'Context.' + _w, _unit(_ctx_names(_w)),
                  assumptions=['bitsets: BitSet._members is the tuple of labels the class was created with (units bitsets.*, matrices.Relation.__new__)',
                               'CtxInv: _Objects / _Properties are the bitset classes of the object / property labels (unit contexts.__init__)'],
                  linkage=[('type(ctx).%s.fget' % _w, None)]))
register(Unit('contexts.bools', CX, 'Context.bools', _unit(_ctx_bools),
              assumptions=['bitsets Series.bools(): one tuple of booleans per row, cell j = bit j (unit bitsets.Series.bools)',
                           'CtxInv: _intents holds one property bitset per object, in object order (unit contexts.__init__)'],
              linkage=[('type(ctx).bools.fget', None)]))


# ---- Data.copy (C14): a NEW context built from the own triple; the lattice is not carried over

def _ctx_copy(case):
    def setup(path, rec):
        this = ObjV('Context', {'objects': _marker('self.objects'), 'properties': _marker('self.properties'), 'bools': _marker('self.bools'),
                                'lattice': _marker('self.lattice')}, name='self')
        tr = [this.fields[n] for n in ('objects', 'properties', 'bools')]
        keys0 = dict(this.fields)
        env = {'self': this}
        if case == 'flag':
            flag = path.fresh_bool('include_lattice')
            env['include_lattice'] = BoolV(flag)

        def check(path, outcome, rec):
            out = []
            if case == 'flag' and outcome[0] == 'raise':
                return [('refuses-to-copy-the-lattice:NotImplementedError-iff-requested', And(BoolVal(outcome[1] == 'NotImplementedError' and not rec.calls), flag))]
            ok = _returned(outcome, rec, 'Context', 1)
            out.append(('fresh/a-new-Context-built-by-this-call', BoolVal(ok)))
            if ok:
                a, k = rec.calls[0][1], rec.calls[0][2]
                out.append(('from-the-own-triple-in-order', BoolVal(len(a) == 3 and not k and all(x is y for x, y in zip(a, tr)))))
                # nothing of the source is handed over besides the triple: in particular not its lattice
                out.append(('frame/source-unchanged-and-its-lattice-not-shared',
                            BoolVal(this.fields == keys0 and not outcome[1].fields and all(x is not this.fields['lattice'] for x in a))))
                if case == 'flag':
                    out.append(('accepted-only-without-the-lattice', Not(flag)))
            return out
        return env, {'Context': rec.func('Context')}, check
    return setup


for _c in ('default', 'flag'):
    register(Unit('contexts.copy' + ('' if _c == 'default' else '.include_lattice'), CX, 'Data.copy', _unit(_ctx_copy(_c)),
                  assumptions=['contract of Context.__init__ (unit contexts.__init__): a new context that represents the given triple faithfully; it shares no '
                               'bitset class with another context (unit matrices.Relation.__new__) and has no lattice until asked (unit contexts.lattice)',
                               'the observables objects / properties / bools (units contexts.objects ...)'],
                  linkage=[('type(ctx).copy', None)]))


# ---- FormattingMixin.__str__ / __repr__ (trace)

def _ctx_str(path, rec):
    this = ObjV('Context', {'tostring': rec.func('tostring', method=True)}, name='self')

    def check(path, outcome, rec):
        ok = _no_exc(outcome) and rec.names() == ['tostring']
        out = [('one-tostring-call', BoolVal(ok))]
        if ok:
            c = rec.calls[0]
            out.append(('table-indented-by-4', BoolVal(c[1] == [this] and set(c[2]) == {'indent'} and _is(c[2]['indent'], IntV(4)))))
            out.append(('repr-then-newline-then-table', BoolVal(text_is(outcome[1], [(this, 'r'), '\n', (c[3], None)]))))
        return out
    return {'self': this}, {}, check


def _ctx_repr(path, rec):
    no, npr = path.fresh_int('len(objects)'), path.fresh_int('len(properties)')
    o = _marker('self.objects', __len__=FuncV('len', lambda p, a, k: IntV(no)))
    pr = _marker('self.properties', __len__=FuncV('len', lambda p, a, k: IntV(npr)))
    this = ObjV('Context', {'objects': o, 'properties': pr, 'crc32': rec.func('crc32', method=True), '__class__': _class_of('Context')}, name='self')

    def check(path, outcome, rec):
        ok = _no_exc(outcome) and rec.names() == ['crc32', 'id'] and rec.calls[0][1] == [this] and not rec.calls[0][2] and rec.calls[1][1] == [this]
        out = [('calls', BoolVal(ok))]
        if ok:
            out.append(('class-name-sizes-checksum-address', BoolVal(text_is(outcome[1], [
                '<', (this.fields['__class__'].fields['__name__'], None), ' object mapping ', (IntV(no), None), ' objects to ', (IntV(npr), None),
                ' properties [', (rec.calls[0][3], None), '] at ', (rec.calls[1][3], None, '#x'), '>']))))
        return out
    return {'self': this}, {'id': rec.func('id')}, check


register(Unit('contexts.__str__', CX, 'FormattingMixin.__str__', _unit(_ctx_str),
              assumptions=['f-string rendering of a value (repr / str) is the builtin\'s', 'contract of tostring (unit contexts.tostring)'],
              linkage=[('type(ctx).__str__', None)]))
register(Unit('contexts.__repr__', CX, 'FormattingMixin.__repr__', _unit(_ctx_repr),
              assumptions=['f-string rendering of a value is the builtin\'s; id() is the address (excepted from C17)', 'contract of crc32 (unit contexts.crc32)'],
              linkage=[('type(ctx).__repr__', None)]))


# =====================================================================================================================
# concepts/definitions.py

def _def_axioms():
    from contracts.definitions import axioms
    return axioms()


# ---- Triple.__getitem__ (C13): d[o, p] is True iff (o, p) is a true cell; KeyError iff o or p is not in the table; d[i] = i-th of the triple

def _def_getitem_pair(path, rec):
    from contracts.definitions import make_definition, view
    from contracts.heap import fresh_name
    d = make_definition(path)
    o, p = fresh_name(path, 'o'), fresh_name(path, 'p')
    pair = TupleV([o, p])

    def check(path, outcome, rec):
        O, P, C = view(d)
        known = And(seqs.mem(d.O0, o.t), seqs.mem(d.P0, p.t))
        out = []
        if outcome[0] == 'raise':
            out.append(('KeyError-iff-unknown-object-or-property', And(BoolVal(outcome[1] == 'KeyError'), Not(known))))
        else:
            out.append(('accepted', known))
            out.append(('true-iff-the-pair-is-a-true-cell', truthy(outcome[1]) == Select(d.C0, o.t, p.t)))
            out.append(('a-bool', BoolVal(isinstance(outcome[1], BoolV))))
        out.append(('unchanged', And(O == d.O0, P == d.P0, C == d.C0)))
        return out
    return {'self': d, 'pair': pair}, {}, check


def _def_getitem_int(i):
    def setup(path, rec):
        tr = [_marker('self.objects'), _marker('self.properties'), _marker('self.bools')]
        this = ObjV('Definition', {}, name='self')
        # contract of Definition.__iter__ (unit definitions.__iter__): yields objects, properties, bools
        this.fields['__list__'] = FuncV('list(self)', lambda p, a, k: ListV(list(tr)))

        def check(path, outcome, rec):
            if not 0 <= i < 3:
                return [('IndexError-outside-the-triple', BoolVal(outcome == ('raise', 'IndexError')))]
            return [('the-i-th-of-objects-properties-bools', BoolVal(_no_exc(outcome) and outcome[1] is tr[i]))]
        return {'self': this, 'pair': IntV(i)}, {}, check
    return setup


register(Unit('definitions.__getitem__', DF, 'Triple.__getitem__', _unit(_def_getitem_pair, _def_axioms),
              assumptions=['requires WF(self) and INV(self); contracts of Unique.__contains__ (unit tools.Unique.__contains__) and of set membership'],
              linkage=[('concepts.Definition.__getitem__', None)]))
for _i in (0, 1, 2, 3):
    register(Unit('definitions.__getitem__.int%d' % _i, DF, 'Triple.__getitem__', _unit(_def_getitem_int(_i)),
                  assumptions=['list(self): the items Definition.__iter__ yields (unit definitions.__iter__)'],
                  linkage=[('concepts.Definition.__getitem__', None)]))


# ---- Triple.__ne__: the negation of __eq__

def _def_ne(path, rec):
    eq = path.fresh_bool('self==other')
    other = _marker('other')
    this = ObjV('Definition', {'__eq__': rec.func('__eq__', lambda p, a, k: BoolV(eq))}, name='self')

    def check(path, outcome, rec):
        ok = _no_exc(outcome) and rec.names() == ['__eq__'] and rec.calls[0][1] == [this, other]
        return [('one-comparison-of-self-with-other', BoolVal(ok)),
                ('unequal-iff-not-equal', (truthy(outcome[1]) == Not(eq)) if ok else BoolVal(False))]
    return {'self': this, 'other': other}, {}, check


register(Unit('definitions.__ne__', DF, 'Triple.__ne__', _unit(_def_ne),
              assumptions=['contract of Triple.__eq__ (unit definitions.__eq__) at the call `self == other`'],
              linkage=[('concepts.Definition.__ne__', None)]))


# ---- Triple.fromfile (C12, trace)

def _def_fromfile(path, rec):
    args = ObjV('ContextArgs', {n: _marker('args.' + n) for n in ('objects', 'properties', 'bools', 'serialized')}, name='args')
    fmt = ObjV('FormatClass', {'load': rec.func('load', lambda p, a, k: args)}, name='Format[frmat]')
    Format = ObjV('FormatMeta', {'__getitem__': rec.func('Format.__getitem__', lambda p, a, k: fmt)}, name='Format')
    formats = ObjV('module', {'Format': Format}, name='formats')
    fn, frm, enc, extra = _marker('filename'), _marker('frmat'), _marker('encoding'), DictV({'dialect': _marker('kwargs[dialect]')})
    cls = rec.func('cls')

    def check(path, outcome, rec):
        ok = _returned(outcome, rec, 'cls') and rec.names() == ['Format.__getitem__', 'load', 'cls']
        out = [('returns-cls(...)-of-what-Format[frmat].load-read', BoolVal(ok))]
        if ok:
            g, l, c = rec.calls
            out.append(('format-looked-up-by-name', BoolVal(g[1][-1] is frm)))
            out.append(('load-gets-filename-encoding-and-the-keyword-arguments',
                        BoolVal(l[1] == [fn, enc] and set(l[2]) == {'dialect'} and l[2]['dialect'] is extra.items['dialect'])))
            out.append(('definition-of-the-loaded-triple-in-order',
                        BoolVal(not c[2] and len(c[1]) == 3 and all(x is args.fields[n] for x, n in zip(c[1], ('objects', 'properties', 'bools'))))))
        return out
    return {'cls': cls, 'filename': fn, 'frmat': frm, 'encoding': enc, 'kwargs': extra}, {'formats': formats}, check


register(Unit('definitions.fromfile', DF, 'Triple.fromfile', _unit(_def_fromfile),
              assumptions=['contracts of Format.__getitem__ / Format.load (units formats.*) and of Triple.__init__ (unit definitions.__init__)'],
              linkage=[('concepts.Definition.fromfile', None)]))


# ---- FormattingMixin.__str__ / __repr__ (trace)

def _def_str(path, rec):
    this = ObjV('Definition', {'tostring': rec.func('tostring', method=True)}, name='self')

    def check(path, outcome, rec):
        return [('the-default-table-string', BoolVal(_returned(outcome, rec, 'tostring', 1) and rec.calls[0][1] == [this] and not rec.calls[0][2]))]
    return {'self': this}, {}, check


def _def_repr(path, rec):
    oi, pi, b = _marker('self._objects._items'), _marker('self._properties._items'), _marker('self.bools')
    this = ObjV('Definition', {'_objects': ObjV('Unique', {'_items': oi}), '_properties': ObjV('Unique', {'_items': pi}), 'bools': b,
                               '__class__': _class_of('Definition')}, name='self')

    def check(path, outcome, rec):
        return [('class-name-and-the-triple-in-order', BoolVal(_no_exc(outcome) and not rec.calls and text_is(outcome[1], [
            '<', (this.fields['__class__'].fields['__name__'], None), '(', (oi, 'r'), ', ', (pi, 'r'), ', ', (b, 'r'), ')>'])))]
    return {'self': this}, {}, check


register(Unit('definitions.__str__', DF, 'FormattingMixin.__str__', _unit(_def_str), assumptions=['contract of tostring (unit definitions.tostring)'],
              linkage=[('concepts.Definition.__str__', None)]))
register(Unit('definitions.__repr__', DF, 'FormattingMixin.__repr__', _unit(_def_repr),
              assumptions=['f-string rendering (repr of a list) is the builtin\'s; Unique._items lists the names in order (WF)'],
              linkage=[('concepts.Definition.__repr__', None)]))


# =====================================================================================================================
# concepts/_common.py

def _shape_axis(which):
    def setup(path, rec):
        a, b = path.fresh_int('objects'), path.fresh_int('properties')
        this = ObjV('Shape', {'objects': IntV(a), 'properties': IntV(b)}, name='self')

        def check(path, outcome, rec):
            ok = _no_exc(outcome) and isinstance(outcome[1], IntV)
            return [('the-number-of-%s' % ('objects' if which == 'rows' else 'properties'),
                     (outcome[1].t == (a if which == 'rows' else b)) if ok else BoolVal(False))]
        return {'self': this}, {}, check
    return setup


def _shape_repr(path, rec):
    a, b = path.fresh_int('objects'), path.fresh_int('properties')
    this = ObjV('Shape', {'objects': IntV(a), 'properties': IntV(b), '__class__': _class_of('Shape')}, name='self')

    def check(path, outcome, rec):
        return [('class-name-objects-properties', BoolVal(_no_exc(outcome) and text_is(outcome[1], [
            (this.fields['__class__'].fields['__name__'], None), '(objects=', (IntV(a), None, '_d'), ', properties=', (IntV(b), None, '_d'), ')'])))]
    return {'self': this}, {}, check


for _w in ('rows', 'columns'):
    register(Unit('_common.Shape.' + _w, CM, 'Shape.' + _w, _unit(_shape_axis(_w)), assumptions=['NamedTuple fields'],
                  linkage=[('concepts._common.Shape.%s.fget' % _w, None)]))
register(Unit('_common.Shape.__repr__', CM, 'Shape.__repr__', _unit(_shape_repr), assumptions=['f-string rendering of an int with format spec _d is the builtin\'s'],
              linkage=[('concepts._common.Shape.__repr__', None)]))


def _raw_concept(rec):
    def vector(nm):
        return ObjV('Vector', {m: rec.func('%s.%s' % (nm, m)) for m in ('members', 'count', 'bits', 'iter_set')}, name='self.' + nm)
    return ObjV('Concept', {'extent': vector('extent'), 'intent': vector('intent')}, name='self')


def _raw_method(side, meth):
    """Concept.objects / properties / n_objects / n_properties: the labels (the number of members) of the raw extent / intent"""
    def setup(path, rec):
        this = _raw_concept(rec)

        def check(path, outcome, rec):
            ok = _returned(outcome, rec, '%s.%s' % (side, meth), 1) and not rec.calls[0][1] and not rec.calls[0][2]
            return [('%s()-of-the-raw-%s' % (meth, side), BoolVal(ok))]
        return {'self': this}, {}, check
    return setup


for _w, _s, _m in (('objects', 'extent', 'members'), ('properties', 'intent', 'members'), ('n_objects', 'extent', 'count'), ('n_properties', 'intent', 'count')):
    register(Unit('_common.Concept.' + _w, CM, 'Concept.' + _w, _unit(_raw_method(_s, _m)),
                  assumptions=['bitsets members() / count(): the labels / the number of the set bits (units bitsets.MemberBits.members, contexts.fill_ratio)'],
                  linkage=[('concepts._common.Concept.%s.fget' % _w, None)]))


def _raw_str(path, rec):
    this = _raw_concept(rec)

    def check(path, outcome, rec):
        ok = _no_exc(outcome) and rec.names() == ['extent.bits', 'intent.bits'] and not any(c[1] or c[2] for c in rec.calls)
        return [('bits-of-extent-then-bits-of-intent',
                 BoolVal(ok and text_is(outcome[1], [(rec.calls[0][3], None), ' <-> ', (rec.calls[1][3], None)])))]
    return {'self': this}, {}, check


register(Unit('_common.Concept.__str__', CM, 'Concept.__str__', _unit(_raw_str), assumptions=['bitsets bits(): the bit string of the set'],
              linkage=[('concepts._common.Concept.__str__', None)]))


def _raw_index_set(side):
    def setup(path, rec):
        this = _raw_concept(rec)
        flag = path.fresh_bool('as_set')

        def check(path, outcome, rec):
            ok = _no_exc(outcome) and len(rec.calls) == 2 and rec.calls[0][0] == side + '.iter_set' and not rec.calls[0][1] and not rec.calls[0][2] \
                and outcome[1] is rec.calls[1][3] and rec.calls[1][1] == [rec.calls[0][3]] and not rec.calls[1][2]
            out = [('collection-of-the-member-indexes-of-the-raw-%s' % side, BoolVal(ok))]
            if ok:
                out.append(('frozenset-iff-as_set-else-tuple', If(flag, BoolVal(rec.calls[1][0] == 'frozenset'), BoolVal(rec.calls[1][0] == 'tuple'))))
            return out
        return {'self': this, 'as_set': BoolV(flag)}, {'frozenset': rec.func('frozenset'), 'tuple': rec.func('tuple')}, check
    return setup


def _raw_index_sets(path, rec):
    this = _raw_concept(rec)
    for s in ('extent', 'intent'):
        this.fields[s + '_index_set'] = rec.func(s + '_index_set', method=True)
    flag = _marker('as_set')

    def check(path, outcome, rec):
        ok = _no_exc(outcome) and rec.names() == ['extent_index_set', 'intent_index_set'] \
            and all(c[1] == [this] and set(c[2]) == {'as_set'} and c[2]['as_set'] is flag for c in rec.calls)
        return [('pair-of-extent-and-intent-index-sets', BoolVal(ok and isinstance(outcome[1], TupleV) and len(outcome[1].items) == 2
                                                                 and all(x is c[3] for x, c in zip(outcome[1].items, rec.calls))))]
    return {'self': this, 'as_set': flag}, {}, check


for _s in ('extent', 'intent'):
    register(Unit('_common.Concept.%s_index_set' % _s, CM, 'Concept.%s_index_set' % _s, _unit(_raw_index_set(_s)),
                  assumptions=['bitsets iter_set(): the indexes of the set bits, ascending (unit bitsets.integers.indexes)', 'tuple / frozenset of an iterable'],
                  linkage=[('concepts._common.Concept.%s_index_set' % _s, None)]))
register(Unit('_common.Concept.index_sets', CM, 'Concept.index_sets', _unit(_raw_index_sets),
              assumptions=['contracts of extent_index_set / intent_index_set (units _common.Concept.*_index_set)'],
              linkage=[('concepts._common.Concept.index_sets', None)]))


def _conceptlist_tofile(case):
    def setup(path, rec):
        this = ObjV('ConceptList', {}, name='self')
        fn, extra = _marker('filename'), DictV({'encoding': _marker('kwargs[encoding]')})
        formats = ObjV('module', {'write_concepts_dat': rec.func('write_concepts_dat', lambda p, a, k: NONE)}, name='formats')
        env = {'self': this, 'filename': fn, 'kwargs': extra}
        if case != 'default':
            env['frmat'] = StrV(case)

        def check(path, outcome, rec):
            if case not in ('default', 'fimi'):
                return [('other-formats-are-refused-and-nothing-is-written', BoolVal(outcome == ('raise', 'NotImplementedError') and not rec.calls))]
            ok = _no_exc(outcome) and isinstance(outcome[1], NoneV) and rec.names() == ['write_concepts_dat']
            out = [('one-write', BoolVal(ok))]
            if ok:
                c = rec.calls[0]
                out.append(('writes-this-list-to-the-file-with-the-keyword-arguments',
                            BoolVal(c[1] == [fn, this] and set(c[2]) == {'encoding'} and c[2]['encoding'] is extra.items['encoding'])))
            return out
        return env, {'formats': formats}, check
    return setup


for _c in ('default', 'fimi', 'csv'):
    register(Unit('_common.ConceptList.tofile.' + _c, CM, 'ConceptList.tofile', _unit(_conceptlist_tofile(_c)),
                  assumptions=['contract of formats.write_concepts_dat (unit formats.write_concepts_dat)'],
                  linkage=[('concepts._common.ConceptList.tofile', None)]))


# =====================================================================================================================
# concepts/matrices.py

def _relation_repr(path, rec):
    first, second = _marker('self[0]'), _marker('self[1]')
    this = ObjV('Relation', {'__class__': _class_of('Relation')}, name='self')

    def getitem(p, args, kw):
        (_, i) = args
        from z3 import simplify
        t = i.t if not isinstance(i, IntV) or isinstance(i.t, int) else simplify(i.t)
        if not isinstance(i, IntV) or not isinstance(t, int) and not hasattr(t, 'as_long'):
            raise Unsupported('Relation.__repr__: symbolic index')
        k = t if isinstance(t, int) else t.as_long()
        if k not in (0, 1, -1, -2):
            raise Unsupported('Relation.__repr__: index outside the pair')
        return (first, second)[k]
    this.fields['__getitem__'] = FuncV('tuple.__getitem__', getitem)
    cn = this.fields['__class__'].fields['__name__']

    def check(path, outcome, rec):
        return [('the-documented-text', BoolVal(_no_exc(outcome) and not rec.calls
                                                and text_is(outcome[1], ['<', (cn, None), '(', (first, 'r'), ', ', (second, 'r'), ')>'])))]
    return {'self': this}, {}, check


register(Unit('matrices.Relation.__repr__', 'concepts/matrices.py', 'Relation.__repr__', _unit(_relation_repr),
              assumptions=["f-string rendering of a value is the builtin's; self[0], self[1] are the two vector tuples stored by Relation.__new__ (unit matrices.Relation.__new__)"],
              linkage=[('concepts.matrices.Relation.__repr__', None)]))


# =====================================================================================================================
# concepts/junctors.py

def _rel_init(kind):
    second = 'bools' if kind == 'Unary' else 'right'

    def setup(path, rec):
        this = ObjV(kind, {}, name='self')
        left, other = _marker('left'), _marker(second)

        def check(path, outcome, rec):
            ok = _no_exc(outcome) and isinstance(outcome[1], NoneV) and not rec.calls
            return [('stores-left-and-%s-and-nothing-else' % second,
                     BoolVal(ok and set(this.fields) == {'left', second} and this.fields['left'] is left and this.fields[second] is other))]
        return {'self': this, 'left': left, second: other}, {}, check
    return setup


def _rel_text(kind, which):
    def setup(path, rec):
        left, right, kd = _marker('self.left'), _marker('self.right'), _marker('self.kind')
        this = ObjV(kind, {'left': left, 'right': right, 'kind': kd, 'bools': _marker('self.bools'), '__class__': _class_of(kind)}, name='self')
        cn = this.fields['__class__'].fields['__name__']
        want = {('Unary', '__str__'): [(left, None), ' ', (kd, None)],
                ('Unary', '__repr__'): ['<', (cn, None), '(', (left, 'r'), ')>'],
                ('Binary', '__str__'): [(left, None), ' ', (kd, None), ' ', (right, None)],
                ('Binary', '__repr__'): ['<', (cn, None), '(', (left, 'r'), ', ', (right, 'r'), ')>']}[(kind, which)]

        def check(path, outcome, rec):
            return [('the-documented-text', BoolVal(_no_exc(outcome) and not rec.calls and text_is(outcome[1], want)))]
        return {'self': this}, {}, check
    return setup


for _k in ('Unary', 'Binary'):
    register(Unit('junctors.%s.__init__' % _k, JU, _k + '.__init__', _unit(_rel_init(_k)), assumptions=[],
                  linkage=[('concepts.junctors.%s.__init__' % _k, None)]))
    for _w in ('__str__', '__repr__'):
        register(Unit('junctors.%s.%s' % (_k, _w), JU, '%s.%s' % (_k, _w), _unit(_rel_text(_k, _w)),
                      assumptions=['f-string rendering of a value is the builtin\'s; kind is the class attribute set by RelationMeta.__init__ (unit junctors.RelationMeta.__init__.*)'],
                      linkage=[('concepts.junctors.%s.%s' % (_k, _w), None)]))


def _relations_str(path, rec):
    this = ObjV('Relations', {'tostring': rec.func('tostring', method=True)}, name='self')

    def check(path, outcome, rec):
        ok = _returned(outcome, rec, 'tostring', 1) and rec.calls[0][1] == [this] and set(rec.calls[0][2]) == {'exclude_orthogonal'}
        return [('tostring-without-the-orthogonal-entries', (rec.calls[0][2]['exclude_orthogonal'].t == BoolVal(True))
                 if ok and isinstance(rec.calls[0][2]['exclude_orthogonal'], BoolV) else BoolVal(False))]
    return {'self': this}, {}, check


register(Unit('junctors.Relations.__str__', JU, 'Relations.__str__', _unit(_relations_str),
              assumptions=['contract of Relations.tostring (unit junctors.Relations.tostring): defined for every list, also when there is nothing to list'],
              linkage=[('concepts.junctors.Relations.__str__', None)]))


# ---- RelationMeta.__init__ (C16): the metaclass builds the class table from the docstring tables.
# The real __init__ is executed on the REAL docstring of the class being created (read from the same source text the VCs are generated
# from); the string methods are CPython's (assumed library contract, applied to literal values only).  Posts: one class per documented
# row, created as type(row name, (self,), ns) with ns = {index: row position, order: documented rank, kind: lower-cased name,
# symbol: documented symbol, pattern: the set of the ticked column headings}; each registered once under its pattern in the class table,
# under its name in the module globals and in __all__; the patterns / kinds / ranks are those of the C16 statement (oracle of
# contracts/junctors.py), so the table is complete and free of clashes.

def _class_source(clsname):
    src, tree = extract.parse_file(JU)
    node = next((n for n in tree.body if isinstance(n, _ast.ClassDef) and n.name == clsname), None)
    if node is None:
        raise KeyError('no class %s in %s' % (clsname, JU))
    doc = None
    b = node.body
    if b and isinstance(b[0], _ast.Expr) and isinstance(b[0].value, _ast.Constant) and isinstance(b[0].value.value, str):
        doc = b[0].value.value          # the raw docstring: what cls.__doc__ is under the interpreter that runs the library (3.12)
    consts, names = {}, []
    for st in node.body:
        if isinstance(st, _ast.Assign):
            for t in st.targets:
                if isinstance(t, _ast.Name):
                    names.append(t.id)
                    if isinstance(st.value, _ast.Constant):
                        consts[t.id] = st.value.value
        elif isinstance(st, _ast.FunctionDef):
            names.append(st.name)
    return doc, consts, names


def _py(v):
    """python value of a literal engine value (bools, tuples of bools)"""
    import z3
    if isinstance(v, BoolV):
        s = z3.simplify(v.t)
        if z3.is_true(s) or z3.is_false(s):
            return z3.is_true(s)
    if isinstance(v, TupleV):
        return tuple(_py(x) for x in v.items)
    raise Unsupported('literal value expected, got %r' % (v,))


def _literal_str_methods():
    def lit(v):
        if isinstance(v, StrV) and v.value is not None:
            return v.value
        raise Unsupported('string method on a non-literal string %r' % (v,))

    def wrap(r):
        if isinstance(r, str):
            return StrV(r)
        if isinstance(r, tuple):
            return TupleV([wrap(x) for x in r])
        if isinstance(r, list):
            return ListV([wrap(x) for x in r])
        raise Unsupported('result %r' % (r,))

    def meth(name):
        return FuncV('str.' + name, lambda p, a, k: wrap(getattr(lit(a[0]), name)(*[lit(x) for x in a[1:]])))
    return {('StrV', n): meth(n) for n in ('strip', 'partition', 'splitlines', 'split', 'lower')}


def _meta_init(clsname):
    def setup(path, rec):
        from contracts.junctors import ORACLE_BINARY, ORACLE_UNARY
        doc, consts, names = _class_source(clsname)
        keys = names + ['__module__', '__qualname__'] + (['__doc__'] if doc is not None else [])
        dct = DictV({n: _marker('dct[%s]' % n) for n in keys})
        this = ObjV('class', {'__doc__': StrV(doc) if doc is not None else NONE}, name=clsname)
        if 'binary' in consts:
            this.fields['binary'] = BoolV(bool(consts['binary']))
        table, glob = [], []
        this.fields['_RelationMeta__map'] = ObjV('dict', {'__setitem__': FuncV('dict.__setitem__', lambda p, a, k: table.append((a[1], a[2])) or NONE)},
                                                 name='RelationMeta.__map')
        gdict = ObjV('dict', {'__setitem__': FuncV('dict.__setitem__', lambda p, a, k: glob.append((a[1], a[2])) or NONE)}, name='globals()')
        exported = ListV([])

        def type_(p, a, k):
            c = ObjV('class', {'__name__': a[0]}, name='type(%s)' % getattr(a[0], 'value', '?'))
            return c

        def frozenset_(p, a, k):
            (it,) = a
            if not isinstance(it, (ListV, TupleV)):
                raise Unsupported('frozenset of %r' % (it,))
            o = ObjV('frozenset', {}, name='frozenset')
            o.pattern = frozenset(_py(x) for x in it.items)
            o.size = len(it.items)
            return o

        def int_(p, a, k):
            if len(a) == 1 and isinstance(a[0], StrV) and a[0].value is not None:
                return IntV(int(a[0].value))
            raise Unsupported('int of %r' % (a,))

        def enumerate_(p, a, k):
            import z3
            it = a[0]
            start = a[1] if len(a) > 1 else k.get('start', IntV(0))
            if not isinstance(it, (ListV, TupleV)) or len(a) > 2 or set(k) - {'start'} or not (isinstance(start, IntV) and z3.is_int_value(start.t)):
                raise Unsupported('enumerate%r' % (a,))
            return ListV([TupleV([IntV(i), x]) for i, x in enumerate(it.items, start.t.as_long())])
        g = {'type': rec.func('type', type_), 'frozenset': FuncV('frozenset', frozenset_), 'int': FuncV('int', int_),
             'enumerate': FuncV('enumerate', enumerate_), 'globals': FuncV('globals', lambda p, a, k: gdict), '__all__': exported}
        env = {'self': this, 'name': StrV(clsname), 'bases': TupleV([]), 'dct': dct}

        def check(path, outcome, rec):
            ok = _no_exc(outcome) and isinstance(outcome[1], NoneV)
            out = [('returns-None', BoolVal(ok))]
            if 'binary' not in consts:
                out.append(('a-class-without-a-table-registers-nothing', BoolVal(not rec.calls and not table and not glob and not exported.items)))
                return out
            oracle = ORACLE_BINARY if consts['binary'] else ORACLE_UNARY
            # the documented rows, read from the docstring by an independent reader: every line with cells after the heading line
            rows = [l.split('|')[0].split() for l in (doc or '').splitlines() if '|' in l][1:]
            calls = rec.calls
            out.append(('one-class-per-documented-row', BoolVal(rec.names() == ['type'] * len(rows) and len(rows) == len(oracle))))
            if rec.names() != ['type'] * len(rows):
                return out
            shape, doc_ok, pats = True, True, []
            for i, ((_, a, k, c), row) in enumerate(zip(calls, rows)):
                good = len(a) == 3 and not k and isinstance(a[0], StrV) and isinstance(a[1], TupleV) and a[1].items == [this] and isinstance(a[2], DictV) \
                    and set(a[2].items) == {'index', 'order', 'kind', 'symbol', 'pattern'}
                shape = shape and good
                if not good:
                    continue
                ns = a[2].items
                doc_ok = doc_ok and len(row) == 3 and a[0].value == row[0] and _is(ns['index'], IntV(i)) and _is(ns['order'], IntV(int(row[2]))) \
                    and _is(ns['kind'], StrV(row[0].lower())) and _is(ns['symbol'], StrV(row[1])) and hasattr(ns['pattern'], 'pattern')
                pats.append(getattr(ns['pattern'], 'pattern', None))
            out.append(('created-as-type(name,(self,),ns)-with-the-five-attributes', BoolVal(shape)))
            out.append(('name-index-rank-kind-symbol-are-those-of-the-documented-row', BoolVal(shape and doc_ok)))
            if not (shape and doc_ok):
                return out
            out.append(('patterns-are-exactly-those-of-the-statement-each-once', BoolVal(sorted(map(sorted, pats)) == sorted(map(sorted, oracle)) and len(set(pats)) == len(pats)
                                                                                       and all(getattr(c[1][2].items['pattern'], 'size', None) == len(pt)
                                                                                               for c, pt in zip(calls, pats)))))
            kinds = True
            for (_, a, k, c), pt in zip(calls, pats):
                o = oracle.get(pt)
                if o is None:
                    kinds = False
                elif len(o) == 3 and o[2]:
                    # the swapped orientation: its own class, turned into an Implication by RelationMeta.__call__ (unit junctors.RelationMeta.__call__)
                    kinds = kinds and a[0].value == 'Replication'
                else:
                    kinds = kinds and a[2].items['kind'].value == o[0] and _is(a[2].items['order'], IntV(o[1]))
            out.append(('kind-and-rank-of-every-pattern-as-in-the-statement', BoolVal(kinds)))
            created = [c[3] for c in calls]
            out.append(('registered-once-under-its-pattern',
                        BoolVal(len(table) == len(created) and all(kk is c[1][2].items['pattern'] and v is c[3] for (kk, v), c in zip(table, calls)))))
            out.append(('bound-once-under-its-name-in-the-module-and-exported',
                        BoolVal(len(glob) == len(created) and all(_is(kk, c[1][0]) and v is c[3] for (kk, v), c in zip(glob, calls))
                                and len(exported.items) == len(created) and all(_is(x, c[1][0]) for x, c in zip(exported.items, calls)))))
            return out
        return env, g, check, {'value_methods': _literal_str_methods()}
    return setup


for _k in ('Relation', 'Unary', 'Binary'):
    register(Unit('junctors.RelationMeta.__init__.' + _k, JU, 'RelationMeta.__init__', _unit(_meta_init(_k)),
                  assumptions=['str.strip / partition / splitlines / split / lower, int(str), bool(str) are CPython\'s (applied to the literal docstring of the real class)',
                               'cls.__doc__ is the raw docstring (the interpreter that runs the library, 3.12, does not dedent); dct holds the names bound in the class body',
                               'type(name, bases, ns) creates a class with the attributes of ns; a frozenset of hashable values is determined by its elements',
                               'oracle: the pattern / kind / rank table of the C16 statement (contracts/junctors.py ORACLE_*)'],
                  linkage=[('type(concepts.junctors.Relation).__init__', None)]))


# =====================================================================================================================
# concepts/tools.py

# ---- Unique.rsub (C13/C14/C17; used by Definition.take for the list of unknown names): a NEW Unique holding the names of the argument
# that are not in this collection, first occurrences only, in the order given.
# Model (a definition by recursion over the argument, like fold_add):   rsub(T, xs, 0) = []
#     rsub(T, xs, k+1) = rsub(T, xs, k)                       if xs[k] in T
#                      = add1(rsub(T, xs, k), xs[k])          otherwise          (add1: append unless already present)
# and its consequences proved along the loop: duplicate-free, members = {y in xs | y not in T}; lemma.rsub_model: with nothing to
# ignore it is the de-duplication fold_add([], xs, k) (what Unique(xs) holds).

class RsubModel:
    def __init__(self):
        self.f = Function('rsub', seqs.NSet, seqs.Seq, IntSort(), seqs.Seq)

    def axioms(self):
        T, xs, k = Const('T', seqs.NSet), Const('xs', seqs.Seq), Int('k')
        f = self.f
        return [('R0', ForAll([T, xs], f(T, xs, 0) == seqs.empty, patterns=[f(T, xs, 0)])),
                ('R1', ForAll([T, xs, k], Implies(k >= 0, f(T, xs, k + 1) == If(Select(T, seqs.at(xs, k)), f(T, xs, k), seqs.add1(f(T, xs, k), seqs.at(xs, k)))),
                              patterns=[f(T, xs, k + 1)]))]


def _rsub_unit():
    def make():
        from contracts import tools_unique as tu
        from contracts.definitions import NameSeqArg
        from contracts.heap import SetObj, ListObj, wf_unique
        M = RsubModel()

        def harness(path):
            u = tu.make_unique(path)
            fa = tu.fromargs_contract()
            fa.is_method = True
            u.fields['_fromargs'] = fa
            u.method_names = ('_fromargs',)
            xs = NameSeqArg(path, 'items')
            T0 = u.seen0
            made = []
            x, y = Const('x', seqs.Name), Const('y', seqs.Name)

            def set_(p, args, kw):
                if args:
                    raise Unsupported('set(...) with an argument')
                st = SetObj(p, Const('emptyset!%d' % next(p.eng.counter), seqs.NSet), 'seen')
                p.assume(ForAll([x], Not(Select(st.S, x)), patterns=[Select(st.S, x)]))
                made.append(st)
                return st
            acc = tu.SeqAcc(path)

            def inv(e, k, A):
                S = made[0].S
                return [('items', A == M.f(T0, xs.s, k)),
                        ('seen', ForAll([x], Select(S, x) == seqs.mem(A, x), patterns=[Select(S, x), seqs.mem(A, x)])),
                        ('nodup', seqs.nodup(A)),
                        ('members', ForAll([y], seqs.mem(A, y) == And(seqs.infirst(xs.s, y, k), Not(Select(T0, y))),
                                           patterns=[seqs.mem(A, y), seqs.infirst(xs.s, y, k)]))]
            acc.invariant = inv
            acc.havoc = lambda p: made[0].havoc(p)

            def finish(path, env, outcome):
                if outcome[0] != 'return':
                    path.oblige('post/no-exception', 'post', BoolVal(False))
                    return
                r = outcome[1]
                allocs = path.ghost.get('allocs', [])
                ok = isinstance(r, ObjV) and r.cls == 'Unique' and any(r is a for a in allocs) and len(made) == 1 \
                    and set(r.fields) == {'_seen', '_items'} and r.fields['_seen'] is made[0] and isinstance(r.fields['_items'], ListObj)
                path.oblige('fresh/a-new-Unique-around-the-set-and-the-list-built-here', 'fresh', BoolVal(ok))
                if not ok:
                    return
                it, sn = r.fields['_items'], r.fields['_seen']
                path.oblige('fresh/its-containers-are-allocated-here-and-not-shared-with-self', 'fresh',
                            BoolVal(any(it is a for a in allocs) and any(sn is a for a in allocs) and it is not u.fields['_items'] and sn is not u.fields['_seen']))
                n = seqs.slen(xs.s)
                path.oblige('post/the-names-not-in-self-first-occurrences-in-the-order-given', 'post', it.s == M.f(T0, xs.s, n))
                path.assume(seqs.st_mem_infirst(xs.s))          # use lemma mem-infirst (proved in unit lemma.fold_add)
                path.oblige('post/members-are-exactly-the-names-of-the-argument-not-in-self', 'post',
                            ForAll([y], seqs.mem(it.s, y) == And(seqs.mem(xs.s, y), Not(seqs.mem(u.items0, y))), patterns=[seqs.mem(it.s, y)]))
                path.oblige('post/WF(result)', 'post', wf_unique(it.s, sn.S))
                tu.post_wf(path, u)
                path.oblige('post/self-unchanged', 'post', And(tu.view(u)[0] == u.items0, tu.view(u)[1] == u.seen0))
            return ({'self': u, 'items': xs}, {'globals': dict(lib.builtins(), set=FuncV('set', set_)), 'comprehension_loops': {'ListComp#0': acc}}, finish)
        return tu.axioms() + M.axioms(), harness
    return make


def _lemma_rsub_model():
    from pyvc.engine import VC
    M = RsubModel()

    def prove(path):
        xs, k = Const('xs0', seqs.Seq), Int('k0')
        E = Const('nothing', seqs.NSet)
        y = Const('y', seqs.Name)
        none = ForAll([y], Not(Select(E, y)), patterns=[Select(E, y)])
        # induction on k (the engine's schema: base and step)
        path.eng.add_vc(VC('nothing-ignored-is-de-duplication/base', 'lemma', [none], M.f(E, xs, 0) == seqs.fold_add(seqs.empty, xs, 0), []))
        path.eng.add_vc(VC('nothing-ignored-is-de-duplication/step', 'lemma', [none, k >= 0, M.f(E, xs, k) == seqs.fold_add(seqs.empty, xs, k)],
                           M.f(E, xs, k + 1) == seqs.fold_add(seqs.empty, xs, k + 1), []))
        # each step keeps the list or appends the next name at the END (order of first occurrences)
        T = Const('T0', seqs.NSet)
        path.eng.add_vc(VC('a-step-keeps-or-appends-at-the-end', 'lemma', [k >= 0],
                           Or(M.f(T, xs, k + 1) == M.f(T, xs, k), M.f(T, xs, k + 1) == seqs.app(M.f(T, xs, k), seqs.at(xs, k))), []))
    from contracts import tools_unique as tu
    return tu.axioms() + M.axioms(), prove


register(Unit('tools.Unique.rsub', TL, 'Unique.rsub', _rsub_unit(),
              assumptions=['A-HEAP; builtin list / set methods as the SEQ / SET theory (pyvc/seqs.py); requires WF(self)',
                           'the comprehension with the side-effecting condition is executed as a loop with an invariant over the kept items (as for Unique.__init__)',
                           'contract of Unique._fromargs (unit tools.Unique._fromargs); lemma mem-infirst (unit lemma.fold_add)',
                           'set(): a new empty set; bound method seen.add',
                           'the model function rsub is defined by recursion over the argument (axioms R0, R1); lemma.rsub_model relates it to fold_add'],
              linkage=[('concepts.tools.Unique.rsub', None)]))
register(Unit('lemma.rsub_model', None, None, _lemma_rsub_model,
              assumptions=['induction on k carried out as base + step obligations (schema of the engine)']))


# ---- Unique.__repr__ (trace)

def _unique_repr(path, rec):
    from contracts import tools_unique as tu
    u = tu.make_unique(path)
    u.fields['__class__'] = _class_of('Unique')
    cn = u.fields['__class__'].fields['__name__']
    items = u.fields['_items']

    def check(path, outcome, rec):
        if not _no_exc(outcome):
            return [('no-exception', BoolVal(False))]
        nonempty = seqs.slen(u.items0) > 0
        full = rec.names() == ['repr'] and rec.calls[0][1] == [items] and text_is(outcome[1], [(cn, None), '(', (rec.calls[0][3], None), ')'])
        bare = not rec.calls and text_is(outcome[1], [(cn, None), '(', (StrV(''), None), ')'])
        return [('class-name-around-the-repr-of-the-item-list-or-nothing-when-empty', If(nonempty, BoolVal(full), BoolVal(bare))),
                ('unchanged', And(tu.view(u)[0] == u.items0, tu.view(u)[1] == u.seen0))]
    return {'self': u}, {'repr': rec.func('repr')}, check


def _tu_axioms():
    from contracts import tools_unique as tu
    return tu.axioms()


register(Unit('tools.Unique.__repr__', TL, 'Unique.__repr__', _unit(_unique_repr, _tu_axioms),
              assumptions=['repr of a list / f-string rendering are the builtin\'s; truthiness of a list: non-empty'],
              linkage=[('concepts.tools.Unique.__repr__', None)]))


# ---- lazyproperty.__init__: keeps the getter and takes over its __module__, __name__ (the cache key of __get__), __doc__

def _lazy_init(path, rec):
    fget = ObjV('function', {a: _marker('fget.' + a) for a in ('__module__', '__name__', '__doc__', '__qualname__')}, name='fget')
    this = ObjV('lazyproperty', {}, name='self')

    def getattr_(p, a, k):
        o, nm = a[0], a[1]
        if isinstance(o, ObjV) and isinstance(nm, StrV) and nm.value is not None and len(a) == 2:
            if nm.value not in o.fields:
                raise PyRaise('AttributeError')
            return o.fields[nm.value]
        raise Unsupported('getattr%r' % (a,))

    def setattr_(p, a, k):
        o, nm, v = a
        if isinstance(o, ObjV) and isinstance(nm, StrV) and nm.value is not None:
            o.fields[nm.value] = v
            return NONE
        raise Unsupported('setattr%r' % (a,))

    def check(path, outcome, rec):
        ok = _no_exc(outcome) and isinstance(outcome[1], NoneV)
        return [('keeps-the-getter', BoolVal(ok and this.fields.get('fget') is fget)),
                ('takes-over-__name__-the-key-under-which-__get__-caches', BoolVal(ok and this.fields.get('__name__') is fget.fields['__name__'])),
                ('takes-over-__module__-and-__doc__', BoolVal(ok and all(this.fields.get(a) is fget.fields[a] for a in ('__module__', '__doc__')))),
                ('frame/nothing-else-is-set-and-the-getter-is-unchanged', BoolVal(set(this.fields) == {'fget', '__module__', '__name__', '__doc__'}
                                                                                and set(fget.fields) == {'__module__', '__name__', '__doc__', '__qualname__'}))]
    return {'self': this, 'fget': fget}, {'getattr': FuncV('getattr', getattr_), 'setattr': FuncV('setattr', setattr_)}, check


register(Unit('tools.lazyproperty.__init__', TL, 'lazyproperty.__init__', _unit(_lazy_init),
              assumptions=['builtin getattr(o, name) / setattr(o, name, v) = attribute read / store under the literal name'],
              linkage=[('concepts.tools.lazyproperty.__init__', None)]))


# ---- max_len: the len() of the longest item, or `minimum` if that is larger / there is no item

def _max_len_unit(with_minimum):
    def make():
        def harness(path):
            n = Int('iterable.len')
            lenf = Function('len.of.item', IntSort(), IntSort())
            t = Int('t')
            path.assume(n >= 0)
            path.assume(ForAll([t], lenf(t) >= 0, patterns=[lenf(t)]))         # len() is never negative

            def item(tt):
                return ObjV('Sized', {'__len__': FuncV('len', lambda p, a, k, _t=tt: IntV(lenf(_t)))}, name='item[%s]' % tt)
            iterable = IterV(item, n, 'iterable')
            env = {'iterable': iterable}
            if with_minimum:
                m = Int('minimum')
                env['minimum'] = IntV(m)
            else:
                m = IntVal_(0)

            def max_(p, args, kw):
                # builtin max: of one iterable (ValueError when it is empty and no default is given) or of two or more values
                if len(args) == 1 and not kw:
                    it = args[0]
                    if not isinstance(it, (IterV, SeqV)):
                        raise Unsupported('max of %r' % (it,))
                    if not p.branch(it.length > 0):
                        raise PyRaise('ValueError')
                    c = next(p.eng.counter)
                    r, w, tt = Int('max!%d' % c), Int('max.w!%d' % c), Int('max.t!%d' % c)
                    el = lambda i: it.at(i).t
                    p.assume(ForAll([tt], Implies(And(0 <= tt, tt < it.length), el(tt) <= r), patterns=[el(tt)]))
                    p.assume(And(0 <= w, w < it.length, el(w) == r))
                    return IntV(r)
                if len(args) == 2 and not kw and all(isinstance(a, IntV) for a in args):
                    return IntV(If(args[0].t >= args[1].t, args[0].t, args[1].t))
                raise Unsupported('max%r' % (args,))

            def finish(path, env_, outcome):
                if outcome[0] != 'return' or not isinstance(outcome[1], IntV):
                    path.oblige('post/an-int-and-no-exception', 'post', BoolVal(False))
                    return
                r = outcome[1].t
                path.oblige('post/at-least-the-length-of-every-item', 'post', ForAll([t], Implies(And(0 <= t, t < n), r >= lenf(t)), patterns=[lenf(t)]))
                path.oblige('post/at-least-the-minimum', 'post', r >= m)
                path.oblige('post/attained:the-minimum-or-the-length-of-some-item', 'post', Or(r == m, Exists([t], And(0 <= t, t < n, r == lenf(t)))))
                path.oblige('post/no-item:the-minimum', 'post', Implies(n == 0, r == m))
            return env, {'globals': dict(lib.builtins(), max=FuncV('max', max_))}, finish
        return bits.axioms(), harness
    return make


def IntVal_(v):
    from z3 import IntVal
    return IntVal(v)


for _c in (False, True):
    register(Unit('tools.max_len' + ('.minimum' if _c else ''), TL, 'max_len', _max_len_unit(_c),
                  assumptions=['builtin max: the greatest element of a non-empty iterable (attained), ValueError on an empty one; of two ints the greater; '
                               'map(len, iterable): element-wise, lazy; len() >= 0'],
                  linkage=[('concepts.tools.max_len', None)]))


# =====================================================================================================================
# concepts/lattice_members.py

def _getattr_fn():
    def getattr_(p, a, k):
        if len(a) == 2 and isinstance(a[0], ObjV) and isinstance(a[1], StrV) and a[1].value is not None:
            if a[1].value not in a[0].fields:
                raise PyRaise('AttributeError')
            return a[0].fields[a[1].value]
        raise Unsupported('getattr%r' % (a,))
    return FuncV('getattr', getattr_)


def _zip_fn():
    """builtin zip of two sequences of symbolic length: position-wise pairs, as many as the shorter one has"""
    def zip_(p, a, k):
        if len(a) == 2 and not k and all(isinstance(x, (SeqV, IterV)) for x in a):
            n = p.fresh_int('zip.len')
            p.assume(And(a[0].length >= 0, a[1].length >= 0, n >= 0, n <= a[0].length, n <= a[1].length, Or(n == a[0].length, n == a[1].length)))
            r = IterV(lambda t, _a=a: TupleV([_a[0].at(t), _a[1].at(t)]), n, 'zip')
            r.sources = list(a)        # what is zipped (a clause may read off WHICH sequences a loop walks in step)
            return r
        if all(isinstance(x, (TupleV, ListV)) for x in a):
            return ListV([TupleV(list(t)) for t in zip(*[x.items for x in a])])
        raise Unsupported('zip%r' % (a,))
    return FuncV('zip', zip_)


def _loop_ordinal(relpath, qualname, pick, optional=False):
    """ordinal (engine numbering) of the loop selected by pick(node, parents) in the real function"""
    fn = extract.get_function(relpath, qualname).node
    loops = [n for n in _ast.walk(fn) if isinstance(n, (_ast.While, _ast.For))]
    hits = [i for i, n in enumerate(loops) if pick(n, [m for m in loops if m is not n and any(d is n for d in _ast.walk(m))])]
    if not hits and optional:
        return None      # the iteration is spelled without a loop statement (any()/all() over a generator expression): no loop clause applies
    if len(hits) != 1:
        raise KeyError('expected exactly one matching loop in %s, found %d' % (qualname, len(hits)))
    return hits[0]


def _label_bitset(term, name):
    """a bitset whose members() is the label tuple `term` (a value of sort Seq: equal tuples = equal terms)"""
    f = FuncV('members', lambda p, a, k: TermV(term))
    f.is_method = True
    return ObjV('Bitset', {'members': f}, name=name)


# ---- Pair._eq (C11): structural equality of two concepts, used for "the reloaded lattice is indistinguishable from the recomputed one":
# same extent labels, same intent labels, and for the upper and for the lower neighbors: equally many, with pairwise equal extent labels

ATTS = ('upper_neighbors', 'lower_neighbors')


def _pair_eq_unit():
    def make():
        def harness(path):
            I, Seq = IntSort(), seqs.Seq
            t = Int('t')
            is_concept = path.branch(path.fresh_bool('other_is_a_concept'))
            nlen = {(w, a): Int('%s.%s.len' % (w, a)) for w in 'so' for a in ATTS}
            next_ = {(w, a): Function('%s.%s.extent' % (w, a), I, Seq) for w in 'so' for a in ATTS}
            ext = {w: Const(w + '.extent', Seq) for w in 'so'}
            int_ = {w: Const(w + '.intent', Seq) for w in 'so'}

            def concept(w):
                o = ObjV('Concept', {'_extent': _label_bitset(ext[w], w + '._extent'), '_intent': _label_bitset(int_[w], w + '._intent')},
                         name={'s': 'self', 'o': 'other'}[w])
                for a in ATTS:
                    path.assume(nlen[w, a] >= 0)
                    o.fields[a] = SeqV(lambda tt, _w=w, _a=a: ObjV('Concept', {'_extent': _label_bitset(next_[_w, _a](tt), '%s.%s[%s]._extent' % (_w, _a, tt))},
                                                                   name='%s.%s[%s]' % (_w, _a, tt)), nlen[w, a], '%s.%s' % (w, a))
                return o
            this = concept('s')
            other = concept('o') if is_concept else ObjV('Other', {}, name='other')
            NotImpl = ObjV('NotImplementedType', {}, name='NotImplemented')

            def same_upto(a, k):
                return ForAll([t], Implies(And(0 <= t, t < k), next_['s', a](t) == next_['o', a](t)), patterns=[next_['s', a](t), next_['o', a](t)])

            def walked(e):
                """which neighbor lists the inner loop compares: read off its iterable (zip of the own and the other's list of ONE of the
                two attributes, in either order), not off the name of a local"""
                src = getattr(e._path.ghost.get('iter#%s' % inner), 'sources', None) or []
                for a in ATTS:
                    if is_concept and len(src) == 2 and {id(x) for x in src} == {id(this.fields[a]), id(other.fields[a])}:
                        return a
                raise Unsupported('the inner loop of Pair._eq does not walk the two neighbor lists of one attribute in step')

            def inv(e, k):
                return [('neighbors-agree-so-far', same_upto(walked(e), k))]
            inner = _loop_ordinal(LM, 'Pair._eq', lambda n, parents: isinstance(n, _ast.For) and len(parents) == 1, optional=True)
            g = dict(lib.builtins(), Concept=ClassV('Concept'), NotImplemented=NotImpl, getattr=_getattr_fn(), zip=_zip_fn())

            def finish(path, env, outcome):
                if outcome[0] != 'return':
                    path.oblige('post/no-exception', 'post', BoolVal(False))
                    return
                r = outcome[1]
                if not is_concept:
                    path.oblige('post/NotImplemented-for-anything-but-a-concept', 'post', BoolVal(r is NotImpl))
                    return
                path.oblige('post/a-bool', 'post', BoolVal(isinstance(r, BoolV)))
                if not isinstance(r, BoolV):
                    return
                spec = And(ext['s'] == ext['o'], int_['s'] == int_['o'],
                           *[And(nlen['s', a] == nlen['o', a], same_upto(a, nlen['s', a])) for a in ATTS])
                path.oblige('post/True-iff-same-extent-intent-and-pairwise-same-neighbor-extents', 'post', r.t == spec)
            loops = {'globals': g}
            if inner is not None:
                loops[inner] = LoopSpec(inv)
            return {'self': this, 'other': other}, loops, finish
        return bits.axioms() + seqs.axioms(), harness
    return make


register(Unit('members.Pair._eq', LM, 'Pair._eq', _pair_eq_unit(),
              assumptions=['bitsets members(): the tuple of the labels of the set bits (unit bitsets.MemberBits.members); tuples of labels compare by value',
                           'builtin zip: position-wise pairs up to the shorter sequence; getattr(o, name): attribute read; isinstance',
                           'neighbors are compared by their extent labels only (within one lattice an extent determines the concept: LatInv.1)'],
              linkage=[('type(c)._eq', None)]))


# ---- Pair.extent / Pair.intent (C02/C11): the labels of the members of the raw extent / intent

def _pair_labels(which):
    def make():
        from contracts.contexts import _loops, _members_is
        from contracts.ctxtheory import Ctx
        from contracts.latinv import Lat, context_obj
        C = Ctx()
        L = Lat(C)

        def harness(path):
            i = Int('i')
            path.assume(And(0 <= i, i < L.N))
            c = L.concept(i, L.lattice_obj(context_obj(C)))

            def finish(path, env, outcome):
                if outcome[0] != 'return':
                    path.oblige('post/no-exception', 'post', BoolVal(False))
                    return
                if which == 'extent':
                    _members_is(path, 'extent', outcome[1], L.ext(i), 'Objects')
                else:
                    _members_is(path, 'intent', outcome[1], C.Up(L.ext(i)), 'Properties')
            return {'self': c}, _loops(C), finish
        return C.axioms() + L.facts(), harness
    return make


for _w in ('extent', 'intent'):
    register(Unit('members.Pair.' + _w, LM, 'Pair.' + _w, _pair_labels(_w),
                  assumptions=['relative to LatInv.1 (the member holds its extent as an Objects bitset and Up(extent) as a Properties bitset)',
                               'bitsets members(): the labels of the set bits, in context order (unit bitsets.MemberBits.members)'],
                  linkage=[('type(c).%s.fget' % _w, None)]))


# ---- FormattingMixin.__str__ / __repr__ (trace)

def _member_str(path, rec):
    ho, hp = path.fresh_bool('has_objects'), path.fresh_bool('has_properties')

    def labels(nm, b):
        o = ObjV('LabelTuple', {}, name=nm)
        o.truth_fn = lambda: b
        return o
    ob, pr = labels('self.objects', ho), labels('self.properties', hp)
    this = ObjV('Concept', {'_extent': ObjV('Bitset', {'members': rec.func('_extent.members')}), '_intent': ObjV('Bitset', {'members': rec.func('_intent.members')}),
                            'objects': ob, 'properties': pr}, name='self')

    def label_part(v, present):
        if not present:
            return (StrV(''), None)
        # ' <=> {}'.format(t) and f' <=> {t}' have one normal form (engine: _format_normal_form): the literal, then the rendered value
        return (lambda x: text_is(x, [' <=> ', (joined(' ', v), None)]), None)

    def check(path, outcome, rec):
        ok = _no_exc(outcome) and rec.names() == ['_extent.members', '_intent.members'] and not any(c[1] or c[2] for c in rec.calls)
        if not ok:
            return [('labels-of-extent-and-intent', BoolVal(False))]
        e, i = rec.calls[0][3], rec.calls[1][3]
        cases = []
        for a in (True, False):
            for b in (True, False):
                shape = text_is(outcome[1], ['{', (joined(', ', e), None), '} <-> [', (joined(' ', i), None), ']', label_part(ob, a), label_part(pr, b)])
                cases.append(Implies(And(ho == BoolVal(a), hp == BoolVal(b)), BoolVal(shape)))
        return [('extent-labels-intent-labels-then-the-own-object-and-property-labels-when-there-are-any', And(*cases))]
    return {'self': this}, {}, check, {'str_join': _str_join, 'value_methods': _STR_METHODS}


def _member_repr(path, rec):
    this = ObjV('Concept', {'__class__': _class_of('Concept')}, name='self')

    def check(path, outcome, rec):
        return [('class-name-then-the-str-of-the-concept', BoolVal(_no_exc(outcome) and not rec.calls and text_is(outcome[1], [
            '<', (this.fields['__class__'].fields['__name__'], None), ' ', (this, None), '>'])))]
    return {'self': this}, {}, check


register(Unit('members.__str__', LM, 'FormattingMixin.__str__', _unit(_member_str),
              assumptions=['str.join / str.format / f-string rendering are the builtin\'s (the joined and formatted values are what is specified); '
                           'bitsets members(); objects / properties are the label tuples of the reduced labelling (unit lattices._annotate)'],
              linkage=[('type(c).__str__', None)]))
register(Unit('members.__repr__', LM, 'FormattingMixin.__repr__', _unit(_member_repr),
              assumptions=['f-string rendering of {self} is str(self) (unit members.__str__)'], linkage=[('type(c).__repr__', None)]))


# =====================================================================================================================
# concepts/lattices.py

# ---- Data._eq (C11): two lattices are equivalent iff they have equally many concepts that are pairwise Pair._eq, the same set of
# extents (as label tuples) in their lookup tables, and pairwise the same index, dindex, atoms (by extent labels), objects and properties
# labels -- every public attribute of the members.  (The contexts are not compared; documented.)

def _lattice_eq_unit():
    def make():
        I, B, Seq = IntSort(), BoolSort(), seqs.Seq
        SSet = ArraySort(Seq, B)
        t, u, t2 = Ints('t u t2')
        x = Const('x', Seq)
        N = {w: Int(w + '.N') for w in 'so'}
        M = {w: Int(w + '.mapping.len') for w in 'so'}
        key = {w: Function(w + '.mapping.key', I, Seq) for w in 'so'}
        wit = {w: Function(w + '.mapping.wit', Seq, I) for w in 'so'}
        KS = {w: Const(w + '.mapping.keys', SSet) for w in 'so'}
        idx = {w: Function(w + '.index', I, I) for w in 'so'}
        didx = {w: Function(w + '.dindex', I, I) for w in 'so'}
        objs = {w: Function(w + '.objects', I, Seq) for w in 'so'}
        props = {w: Function(w + '.properties', I, Seq) for w in 'so'}
        natoms = {w: Function(w + '.atoms.len', I, I) for w in 'so'}
        aext = {w: Function(w + '.atoms.extent', I, I, Seq) for w in 'so'}
        peq = Function('Pair._eq', I, I, B)          # contract of Pair._eq (unit members.Pair._eq): s-member t against o-member t2
        AEQ = Function('atoms.equal', I, I, B)       # [extent labels of the atoms of s-member t] == [... of o-member t2]  (list equality)
        aw = Function('atoms.equal.w', I, I, I)
        axioms = bits.axioms() + seqs.axioms()
        for w in 'so':
            axioms += [(w + '.sizes', And(N[w] >= 0, M[w] >= 0)),
                       (w + '.natoms', ForAll([t], natoms[w](t) >= 0, patterns=[natoms[w](t)])),
                       # the set of the label tuples of the keys of _mapping
                       (w + '.keys.in', ForAll([u], Implies(And(0 <= u, u < M[w]), Select(KS[w], key[w](u))), patterns=[key[w](u)])),
                       (w + '.keys.only', ForAll([x], Implies(Select(KS[w], x), And(0 <= wit[w](x), wit[w](x) < M[w], key[w](wit[w](x)) == x)),
                                                 patterns=[Select(KS[w], x)]))]
        # list equality: same length and element-wise equal (definitional, skolemised)
        axioms += [('list-eq.elim', ForAll([t, t2, u], Implies(And(AEQ(t, t2), 0 <= u, u < natoms['s'](t)), aext['s'](t, u) == aext['o'](t2, u)),
                                           patterns=[MultiPattern(AEQ(t, t2), aext['s'](t, u)), MultiPattern(AEQ(t, t2), aext['o'](t2, u))])),
                   ('list-eq.len', ForAll([t, t2], Implies(AEQ(t, t2), natoms['s'](t) == natoms['o'](t2)), patterns=[AEQ(t, t2)])),
                   ('list-eq.intro', ForAll([t, t2], Implies(Not(AEQ(t, t2)), Or(natoms['s'](t) != natoms['o'](t2),
                                                                                 And(0 <= aw(t, t2), aw(t, t2) < natoms['s'](t),
                                                                                     aext['s'](t, aw(t, t2)) != aext['o'](t2, aw(t, t2))))),
                                            patterns=[AEQ(t, t2)]))]

        def same(tt):
            return And(idx['s'](tt) == idx['o'](tt), didx['s'](tt) == didx['o'](tt), AEQ(tt, tt), objs['s'](tt) == objs['o'](tt),
                       props['s'](tt) == props['o'](tt))

        def harness(path):
            is_lattice = path.branch(path.fresh_bool('other_is_a_lattice'))

            def concept(w, tt):
                c = ObjV('Concept', {'index': IntV(idx[w](tt)), 'dindex': IntV(didx[w](tt)), 'objects': TermV(objs[w](tt)), 'properties': TermV(props[w](tt))},
                         name='%s._concepts[%s]' % (w, tt))
                c.pos = (w, tt)
                atoms = SeqV(lambda uu: ObjV('Atom', {'_extent': _label_bitset(aext[w](tt, uu), 'atom._extent')}, name='atom'), natoms[w](tt), 'atoms')
                atoms.owner = (w, tt)
                c.fields['atoms'] = atoms

                def pair_eq(p, a, k):
                    me, him = a
                    ok = getattr(me, 'pos', ('?',))[0] == 's' and getattr(him, 'pos', ('?',))[0] == 'o' and not k
                    p.oblige('pre@Pair._eq/own-member-against-the-member-of-other', 'pre@call', BoolVal(ok))
                    return BoolV(peq(me.pos[1], him.pos[1])) if ok else BoolV(p.fresh_bool('eq'))
                f = FuncV('Pair._eq', pair_eq)
                f.is_method = True
                c.fields['_eq'] = f
                return c

            def lattice(w):
                mp = ObjV('dict', {'__len__': FuncV('len', lambda p, a, k: IntV(M[w])),
                                   '__iter__': FuncV('iter', lambda p, a, k: IterV(lambda uu: _label_bitset(key[w](uu), 'key'), M[w], w + '._mapping'))},
                          name=w + '._mapping')
                mp.side = w
                return ObjV('Lattice', {'_concepts': SeqV(lambda tt: concept(w, tt), N[w], w + '._concepts'), '_mapping': mp}, name={'s': 'self', 'o': 'other'}[w])
            this = lattice('s')
            other = lattice('o') if is_lattice else ObjV('Other', {}, name='other')
            NotImpl = ObjV('NotImplementedType', {}, name='NotImplemented')

            def keyset(interp, env, node):
                # {e.members() for e in X._mapping}: the set of the label tuples of the keys (checked on a symbolic key)
                g = node.generators[0]
                src = interp.eval(g.iter, env)
                w = getattr(src, 'side', None)
                uu = path.fresh_int('u')
                ok = w in ('s', 'o') and not g.ifs and len(node.generators) == 1
                el = None
                if ok:
                    inner = dict(env)
                    interp.assign(g.target, _label_bitset(key[w](uu), 'key'), inner)
                    el = interp.eval(node.elt, inner)
                    ok = isinstance(el, TermV)
                path.oblige('closed-form/label-tuples-of-the-keys-of-the-lookup-table', 'post', (el.t == key[w](uu)) if ok else BoolVal(False))
                o = ObjV('set', {'__eq__': FuncV('set.__eq__', lambda p, a, k: BoolV(a[0].term == a[1].term))}, name='keys(%s)' % w)
                o.term = KS[w] if ok else Const('unknown-set!%d' % next(path.eng.counter), SSet)
                return o

            def atomlist(interp, env, node):
                # [a._extent.members() for a in c.atoms]: the list of the extent labels of the atoms of a member (checked on a symbolic atom)
                g = node.generators[0]
                src = interp.eval(g.iter, env)
                owner = getattr(src, 'owner', None)
                uu = path.fresh_int('u')
                ok = owner is not None and not g.ifs and len(node.generators) == 1
                el = None
                if ok:
                    inner = dict(env)
                    interp.assign(g.target, src.at(uu), inner)
                    el = interp.eval(node.elt, inner)
                    ok = isinstance(el, TermV)
                path.oblige('closed-form/extent-labels-of-the-atoms-of-the-member', 'post', (el.t == aext[owner[0]](owner[1], uu)) if ok else BoolVal(False))

                def list_eq(p, a, k):
                    oa, ob = getattr(a[0], 'owner', None), getattr(a[1], 'owner', None)
                    if oa and ob and {oa[0], ob[0]} == {'s', 'o'}:
                        s_, o_ = (oa, ob) if oa[0] == 's' else (ob, oa)
                        return BoolV(AEQ(s_[1], o_[1]))
                    return BoolV(p.fresh_bool('list-eq'))
                o = ObjV('list', {'__eq__': FuncV('list.__eq__', list_eq)}, name='atom-extents')
                o.owner = owner if ok else None
                return o
            loop = _loop_ordinal(LT, 'Data._eq', lambda n, parents: isinstance(n, _ast.For) and not parents, optional=True)
            spec = LoopSpec(lambda e, k: [('members-agree-so-far', ForAll([t], Implies(And(0 <= t, t < k), same(t)),
                                                                          patterns=[idx['s'](t), idx['o'](t), AEQ(t, t)]))])
            g = dict(lib.builtins(), Lattice=ClassV('Lattice'), NotImplemented=NotImpl, zip=_zip_fn())
            loops = {'globals': g,
                     'closed_form': {'SetComp#0': keyset, 'SetComp#1': keyset, 'ListComp#0': atomlist, 'ListComp#1': atomlist}}
            if loop is not None:
                loops[loop] = spec

            def finish(path, env, outcome):
                if outcome[0] != 'return':
                    path.oblige('post/no-exception', 'post', BoolVal(False))
                    return
                r = outcome[1]
                if not is_lattice:
                    path.oblige('post/NotImplemented-for-anything-but-a-lattice', 'post', BoolVal(r is NotImpl))
                    return
                path.oblige('post/a-bool', 'post', BoolVal(isinstance(r, BoolV)))
                if not isinstance(r, BoolV):
                    return
                spec_f = And(N['s'] == N['o'],
                             ForAll([t], Implies(And(0 <= t, t < N['s']), peq(t, t)), patterns=[peq(t, t)]),
                             M['s'] == M['o'], KS['s'] == KS['o'],
                             ForAll([t], Implies(And(0 <= t, t < N['s']), same(t)), patterns=[idx['s'](t), idx['o'](t), AEQ(t, t)]))
                path.oblige('post/True-iff-pairwise-equal-members-same-extents-and-same-public-attributes', 'post', r.t == spec_f)
            return {'self': this, 'other': other}, loops, finish
        return axioms, harness
    return make


register(Unit('lattices._eq', LT, 'Data._eq', _lattice_eq_unit(),
              assumptions=['contract of Pair._eq (unit members.Pair._eq) at the calls s._eq(o)',
                           'builtins: zip (position-wise, up to the shorter), all, len, set / list equality by value (sets of label tuples extensional; '
                           'lists: same length and element-wise equal), isinstance; bitsets members()',
                           'the two contexts are not compared (documented in the docstring)'],
              linkage=[('type(lat)._eq', None)]))


# ---- FormattingMixin.__str__ / __repr__ (trace)

def _lattice_str(path, rec):
    n = Int('N')
    path.assume(n >= 0)

    def member(tt):
        c = ObjV('Concept', {}, name='self._concepts[%s]' % tt)
        c.t = tt
        return c
    this = ObjV('Lattice', {'_concepts': SeqV(member, n, 'self._concepts')}, name='self')

    def lines(it):
        # one line per member, in order: four blanks and the str of the member
        if not isinstance(it, (IterV, SeqV)):
            return False
        tt = path.fresh_int('t')
        return it.length.eq(n) and text_is(it.at(tt), ['    ', (lambda v: isinstance(v, ObjV) and getattr(v, 't', None) is not None and v.t.eq(tt), None)])

    def check(path, outcome, rec):
        return [('repr-then-one-indented-line-per-member-in-order',
                 BoolVal(_no_exc(outcome) and not rec.calls and text_is(outcome[1], [(this, 'r'), '\n', (joined('\n', lines), None)])))]
    return {'self': this}, {}, check, {'str_join': _str_join}


def _lattice_repr(path, rec):
    na, nc, nco = path.fresh_int('len(atoms)'), path.fresh_int('len(self)'), path.fresh_int('len(coatoms)')

    def sized(nm, n_):
        return _marker(nm, __len__=FuncV('len', lambda p, a, k: IntV(n_)))
    this = ObjV('Lattice', {'atoms': sized('self.atoms', na), '__len__': FuncV('len', lambda p, a, k: IntV(nc)),
                            'supremum': ObjV('Supremum', {'lower_neighbors': sized('self.supremum.lower_neighbors', nco),
                                                          'upper_neighbors': sized('self.supremum.upper_neighbors', path.fresh_int('len(upper)'))},
                                             name='self.supremum'),
                            '__class__': _class_of('Lattice')}, name='self')

    def check(path, outcome, rec):
        ok = _no_exc(outcome) and rec.names() == ['id'] and rec.calls[0][1] == [this]
        return [('class-name-atoms-concepts-coatoms-address', BoolVal(ok and text_is(outcome[1], [
            '<', (this.fields['__class__'].fields['__name__'], None), ' object of ', (IntV(na), None), ' atoms ', (IntV(nc), None), ' concepts ',
            (IntV(nco), None), ' coatoms at ', (rec.calls[0][3], None, '#x'), '>'])))]
    return {'self': this}, {'id': rec.func('id')}, check


# ---- NavigateableMixin.upset_generalization (C09-like; EXPERIMENTAL in the library): "all concepts that subsume only the given ones".
# Abstract setting as for iterunion (contracts/common_alg.py): items are identified by their key (= index); seed(k): k is the key of a
# seed (the seeds are what tools.maximal(concepts, properly_subsumes) returns: the minimal members of the collection); nxt(i,j): item j is
# an upper neighbor of item i; ext(k): the extent of item k; T: the union of the extents of the seeds (contract of reduce_or);
#   inT(k) := ext(k) | T == T  (the extent lies inside the target),   isT(k) := ext(k) == T.
# gen: the least set containing the seeds and closed under  gen(i) /\ inT(i) /\ nxt(i,j) -> gen(j)  (steps start inside the target).
# Ghost state: H (keys in the heap), V (keys visited: popped with a key greater than every key before), Y (keys yielded).
#   I1  V(k) \/ H(k) -> gen(k)                 I2  seed(s) -> V(s) \/ H(s)
#   I3  V(i) /\ inT(i) /\ nxt(i,j) -> V(j) \/ H(j)
#   I4  seen >= -1; seen = -1 \/ V(seen); V(k) -> 0 <= k <= seen          I5  H(k) -> k >= seen          I6  Y(k) <-> V(k) /\ inT(k)
# Every yield: an item inside the target with a key greater than every key yielded before.  At BOTH exits (heap empty; the concept whose
# extent IS the target has just been yielded -- its upper neighbors lie outside the target, so stopping there loses nothing):
# Y = {k | gen(k) /\ inT(k)}  -- by L-REACH (lemmas/Worklist.lean: reach_subset, for the step relation restricted to sources inside the
# target) and, at the early exit, the monotonicity of the key (L-SLEX).
# lemma.traversal.generalization (below) shows relative to LatInv that the requirements hold for key = index and that
#   {k | gen(k) /\ inT(k)} = {members c | ext(x) <= ext(c) <= T for some x of the given collection}.

class GenReach:
    def __init__(self):
        I, B = IntSort(), BoolSort()
        self.seed = Function('seed', I, B)
        self.nxt = Function('nxt', I, I, B)
        self.gen = Function('gen', I, B)
        self.ext = Function('item.extent', I, I)
        self.T = Int('target')
        self.wT = Function('target.w', I, I)
        self.slen = Int('seeds.len')
        self.skey = Function('seeds.key', I, I)
        self.srank = Function('seeds.rank', I, I)
        self.nlen = Function('next.len', I, I)
        self.nkey = Function('next.key', I, I, I)
        self.nrank = Function('next.rank', I, I, I)

    def inT(self, k):
        return bits.bor(self.ext(k), self.T) == self.T

    def isT(self, k):
        return self.ext(k) == self.T

    def step(self, i, j):
        return And(self.inT(i), self.nxt(i, j))

    def axioms(self, requirements=True):
        i, j, t, b = Ints('i j t b')
        R = self
        ax = [
            ('seeds.iter', ForAll([t], Implies(And(0 <= t, t < R.slen), R.seed(R.skey(t))), patterns=[R.skey(t)])),
            ('seeds.onto', ForAll([i], Implies(R.seed(i), And(0 <= R.srank(i), R.srank(i) < R.slen, R.skey(R.srank(i)) == i)), patterns=[R.seed(i)])),
            ('seeds.len', R.slen >= 0),
            ('next.iter', ForAll([i, t], Implies(And(0 <= t, t < R.nlen(i)), R.nxt(i, R.nkey(i, t))), patterns=[R.nkey(i, t)])),
            ('next.onto', ForAll([i, j], Implies(R.nxt(i, j), And(0 <= R.nrank(i, j), R.nrank(i, j) < R.nlen(i), R.nkey(i, R.nrank(i, j)) == j)),
                                 patterns=[R.nxt(i, j)])),
            ('next.len', ForAll([i], R.nlen(i) >= 0, patterns=[R.nlen(i)])),
            # the target: the union of the extents of the seeds (contract of Objects.reduce_or over the initial heap)
            ('target.in', ForAll([i, b], Implies(And(R.seed(i), bits.bit(R.ext(i), b)), bits.bit(R.T, b)), patterns=[MultiPattern(R.seed(i), bits.bit(R.ext(i), b))])),
            ('target.only', ForAll([b], Implies(bits.bit(R.T, b), And(R.seed(R.wT(b)), bits.bit(R.ext(R.wT(b)), b))), patterns=[bits.bit(R.T, b)])),
            ('target.nat', R.T >= 0),
            # gen contains the seeds and is closed under the restricted step (leastness is L-REACH, used as an instance at the exits)
            ('gen.seed', ForAll([i], Implies(R.seed(i), R.gen(i)), patterns=[R.seed(i)])),
            ('gen.step', ForAll([i, j], Implies(And(R.gen(i), R.step(i, j)), R.gen(j)), patterns=[MultiPattern(R.gen(i), R.nxt(i, j))])),
        ]
        # x | t == t  <->  x & t == x  (both spell "x is inside t"): lemma.bits_subset, proved as a unit; the code may use either test
        from contracts.lemmas_z3 import st_bits_subset
        from contracts.ctxtheory import SetPreds
        ax += st_bits_subset()[1] + SetPreds().axioms()
        ax += [('item.extent-nat', ForAll([i], R.ext(i) >= 0, patterns=[R.ext(i)]))]       # LatInv: an extent is a bitset (a natural number)
        if requirements:
            ax += [
                ('req.key-nonneg', ForAll([i], Implies(R.gen(i), i >= 0), patterns=[R.gen(i)])),
                ('req.key-increasing', ForAll([i, j], Implies(And(R.gen(i), R.nxt(i, j)), i < j), patterns=[R.nxt(i, j)])),
                # L-SLEX: the key is monotone in the extent (a smaller extent comes earlier in shortlex order)
                ('req.key-monotone', ForAll([i, j], Implies(And(R.gen(i), R.gen(j), bits.bor(R.ext(i), R.ext(j)) == R.ext(j)), i <= j),
                                            patterns=[bits.bor(R.ext(i), R.ext(j))])),
            ]
        return ax


def _upgen_unit():
    def make():
        I, B = IntSort(), BoolSort()
        R = GenReach()
        axioms = bits.axioms() + R.axioms()

        def harness(path):
            k, i, j, s = Ints('k i j s')

            def fresh_set(name):
                return Function('%s!%d' % (name, next(path.eng.counter)), I, B)

            def empty_set(name):
                f = fresh_set(name)
                path.assume(ForAll([k], Not(f(k)), patterns=[f(k)]))
                return f
            path.ghost['Y'] = empty_set('Y')
            path.ghost['V'] = empty_set('V')
            heap = ObjV('heap', {'H': None}, name='heap')

            def heap_truth():
                w = path.fresh_int('hw')
                H = heap.fields['H']
                nonempty = path.fresh_bool('heap.nonempty')
                path.assume(Implies(nonempty, H(w)))
                path.assume(Implies(Not(nonempty), ForAll([k], Not(H(k)), patterns=[H(k)])))
                return nonempty
            heap.truth_fn = heap_truth

            def item(kk):
                o = ObjV('Concept', {'index': IntV(kk), '_extent': IntV(R.ext(kk), 'Objects')}, name='item[%s]' % kk)
                o.ident = kk
                up = FuncV('upper_neighbors', lambda p, a, kw, _k=kk: IterV(lambda t: item(R.nkey(_k, t)), R.nlen(_k), 'upper_neighbors'))
                up.is_property = True
                o.fields['upper_neighbors'] = up
                return o
            concepts = ObjV('Iterable', {}, name='concepts')
            max_calls = []

            def maximal(p, args, kw):
                # contract of tools.maximal (unit tools.maximal): the members of the collection with no other member strictly below them, once each
                cmp_ = kw.get('comparison')
                max_calls.append(bool(len(args) == 1 and args[0] is concepts and set(kw) == {'comparison'} and getattr(cmp_, 'which', None) == 'properly_subsumes'))
                return IterV(lambda t: item(R.skey(t)), R.slen, 'maximal(concepts)')
            ConceptCls = ObjV('class', {n: FuncV('Concept.' + n, lambda p, a, kw: NONE) for n in ('properly_subsumes', 'properly_implies')}, name='Concept')
            for n_ in ('properly_subsumes', 'properly_implies'):
                ConceptCls.fields[n_].which = n_

            def heappush(p, args, kw):
                h, it = args
                if (h is not heap and h is not p.ghost.get('heap.list')) or not isinstance(it, TupleV) or len(it.items) != 2 or not isinstance(it.items[0], IntV):
                    raise Unsupported('heappush of %r' % (it,))
                key, c = it.items
                p.oblige('pre@heappush/key-of-item', 'pre@call', key.t == c.ident)       # the heap holds pairs (c.index, c)
                H = heap.fields['H']
                H2 = fresh_set('H')
                p.assume(ForAll([k], H2(k) == Or(k == key.t, H(k)), patterns=[H2(k), H(k)]))
                heap.fields['H'] = H2
                return NONE

            def heappop(p, args, kw):
                (h,) = args
                if h is not heap and h is not p.ghost.get('heap.list'):
                    raise Unsupported('heappop of another list')
                H = heap.fields['H']
                m = p.fresh_int('m')
                # a pair with a minimal key is removed; the item belonging to the key is item(m) (keys identify items)
                p.assume(And(H(m), ForAll([k], Implies(H(k), m <= k), patterns=[H(k)])))
                H2 = fresh_set('H')
                still = p.fresh_bool('dup')
                p.assume(ForAll([k], H2(k) == If(k == m, still, H(k)), patterns=[H2(k), H(k)]))
                heap.fields['H'] = H2
                return TupleV([IntV(m), item(m)])

            def heapify(p, args, kw):
                lst = args[0]
                if not isinstance(lst, (IterV, SeqV)):
                    raise Unsupported('heapify of %r' % (lst,))
                t = p.fresh_int('t')
                n0 = len(p.pc)
                p.pc.append(And(0 <= t, t < R.slen))
                el = lst.at(t)
                ok = isinstance(el, TupleV) and len(el.items) == 2 and isinstance(el.items[0], IntV) and getattr(el.items[1], 'ident', None) is not None
                p.oblige('initial-heap/shape', 'post', BoolVal(ok))
                if ok:
                    p.oblige('initial-heap/pairs-of-the-seeds', 'post', And(el.items[0].t == R.skey(t), el.items[1].ident == R.skey(t)))
                del p.pc[n0:]
                p.oblige('initial-heap/one-entry-per-seed', 'post', lst.length == R.slen)
                H0 = fresh_set('H')
                p.assume(ForAll([k], H0(k) == R.seed(k), patterns=[H0(k)]))
                heap.fields['H'] = H0
                p.ghost['heap.list'] = lst
                return NONE

            def reduce_or(p, args, kw):
                # contract of Objects.reduce_or (unit bitsets.MemberBitsMeta.reduce_or): the union of the given sets (any order, repeats allowed);
                # here: of the extents of the entries of the initial heap = of the seeds, which is the spec constant T (axioms target.*)
                it = args[-1]
                ok = isinstance(it, (IterV, SeqV)) and not kw
                t = p.fresh_int('t')
                el = it.at(t) if ok else None
                ok = ok and isinstance(el, IntV)
                p.oblige('pre@reduce_or/the-extents-of-the-initial-heap-entries', 'pre@call',
                         And(it.length == R.slen, Implies(And(0 <= t, t < R.slen), el.t == R.ext(R.skey(t)))) if ok else BoolVal(False))
                return IntV(R.T, 'Objects')
            this = ObjV('Lattice', {'_context': ObjV('Context', {'_Objects': ObjV('BitSetClass', {'reduce_or': FuncV('Objects.reduce_or', reduce_or),
                                                                                                  'supremum': IntV(Int('Objects.supremum'), 'Objects'),
                                                                                                  'infimum': IntV(0, 'Objects')},
                                                                                  name='_Objects')}, name='_context')}, name='self')
            heapq = ObjV('module', {'heappush': FuncV('heappush', heappush), 'heappop': FuncV('heappop', heappop), 'heapify': FuncV('heapify', heapify)},
                         name='heapq')
            tools = ObjV('module', {'maximal': FuncV('tools.maximal', maximal)}, name='tools')

            def outer_inv(e):
                H, V, Y = heap.fields['H'], path.ghost['V'], path.ghost['Y']
                seen = e.seen
                return [
                    ('I1', ForAll([k], Implies(Or(V(k), H(k)), R.gen(k)), patterns=[V(k), H(k)])),
                    ('I2', ForAll([s], Implies(R.seed(s), Or(V(s), H(s))), patterns=[R.seed(s)])),
                    ('I3', ForAll([i, j], Implies(And(V(i), R.step(i, j)), Or(V(j), H(j))), patterns=[MultiPattern(V(i), R.nxt(i, j))])),
                    ('I4', And(Or(seen < 0, V(seen)), ForAll([k], Implies(V(k), And(0 <= k, k <= seen)), patterns=[V(k)]))),
                    ('I5', ForAll([k], Implies(H(k), k >= seen), patterns=[H(k)])),
                    ('I6', ForAll([k], Y(k) == And(V(k), R.inT(k)), patterns=[Y(k), V(k)])),
                ]

            def outer_havoc(p, env):
                heap.fields['H'] = fresh_set('H')
                p.ghost['V'] = fresh_set('V')
                p.ghost['Y'] = fresh_set('Y')
            outer = LoopSpec(outer_inv, ghost_havoc=outer_havoc)
            outer.modifies = ['heap']

            def inner_inv(e, t):
                H, H0 = heap.fields['H'], path.ghost['H@inner']
                m = e.concept.ident
                return [('keeps', ForAll([k], Implies(H0(k), H(k)), patterns=[H0(k)])),
                        ('pushed', ForAll([j], Implies(And(R.nxt(m, j), R.nrank(m, j) < t), H(j)), patterns=[R.nxt(m, j)])),
                        ('only', ForAll([k], Implies(H(k), Or(H0(k), R.nxt(m, k))), patterns=[H(k)]))]

            def inner_entry(p, env):
                p.ghost['H@inner'] = heap.fields['H']

            def inner_havoc(p, env):
                heap.fields['H'] = fresh_set('H')
            inner = LoopSpec(inner_inv, ghost_havoc=inner_havoc)
            inner.on_entry = inner_entry
            inner.modifies = ['heap']

            def visit(p, e):
                # ghost statement attached to `seen = index`: the popped item is visited now
                if not e.has('index'):
                    return
                V = p.ghost['V']
                V2 = fresh_set('V')
                p.assume(ForAll([k], V2(k) == Or(k == e.index, V(k)), patterns=[V2(k), V(k)]))
                p.ghost['V'] = V2

            def on_yield(p, env, val):
                Y = p.ghost['Y']
                key = getattr(val, 'ident', None)
                p.oblige('yield/is-item', 'yield', BoolVal(key is not None))
                if key is None:
                    return
                p.oblige('yield/strictly-increasing', 'yield', ForAll([k], Implies(Y(k), k < key), patterns=[Y(k)]))
                p.oblige('yield/extent-inside-the-target', 'yield', R.inT(key))
                Y2 = fresh_set('Y')
                p.assume(ForAll([k], Y2(k) == Or(k == key, Y(k)), patterns=[Y2(k), Y(k)]))
                p.ghost['Y'] = Y2

            def at_return(p, e):
                p.ghost['early'] = e.val('concept').ident

            def finish(path, env, outcome):
                if outcome[0] != 'return':
                    path.oblige('post/no-exception', 'post', BoolVal(False))
                    return
                path.oblige('post/seeds-are-tools.maximal(concepts, properly_subsumes)', 'post', BoolVal(max_calls == [True]))
                V, Y = path.ghost['V'], path.ghost['Y']
                m = path.ghost.get('early')
                # use lemma L-REACH (lemmas/Worklist.lean: reach_subset; relation = the restricted step) with the set Z
                if m is None:
                    Z = lambda kk: V(kk)                                      # heap empty: everything visited
                else:
                    path.oblige('exit/the-last-yield-has-the-target-as-its-extent', 'post', And(R.isT(m), Y(m)))
                    Z = lambda kk: And(R.gen(kk), Or(V(kk), kk > m))          # early exit: visited, or later than the concept of the target
                path.oblige('lemma.use/L-REACH/seeds', 'lemma.use', ForAll([s], Implies(R.seed(s), Z(s)), patterns=[R.seed(s)]))
                path.oblige('lemma.use/L-REACH/closed', 'lemma.use',
                            ForAll([i, j], Implies(And(Z(i), R.step(i, j)), Z(j)), patterns=[R.nxt(i, j)]))
                path.assume(ForAll([k], Implies(R.gen(k), Z(k)), patterns=[R.gen(k)]))
                path.oblige('post/yields-exactly-the-generated-items-inside-the-target', 'post',
                            ForAll([k], Y(k) == And(R.gen(k), R.inT(k)), patterns=[Y(k), R.gen(k)]))
            wl = _loop_ordinal(LT, 'NavigateableMixin.upset_generalization', lambda n, parents: isinstance(n, _ast.While))
            fl = _loop_ordinal(LT, 'NavigateableMixin.upset_generalization', lambda n, parents: isinstance(n, _ast.For) and any(isinstance(q, _ast.While) for q in parents))
            loops = {'globals': dict(lib.builtins(), heapq=heapq, tools=tools, Concept=ConceptCls), 'on_yield': on_yield, wl: outer, fl: inner,
                     'havoc_heap': lambda p, cur: heap, 'before_assign_to': {'seen': visit}, 'before': {'Return#0': at_return}}
            return {'self': this, 'concepts': concepts}, loops, finish
        return axioms, harness
    return make


register(Unit('lattices.upset_generalization', LT, 'NavigateableMixin.upset_generalization', _upgen_unit(),
              assumptions=['requires (shown relative to LatInv in lemma.traversal.generalization): the key (index) is >= 0 on the generated set, strictly increasing '
                           'along upper_neighbors and monotone in the extent (L-SLEX)',
                           'contract of tools.maximal (unit tools.maximal); heapq contract as for common.iterunion (heappop removes a pair with minimal key, '
                           'multiplicities abstracted; heappush adds; heapify keeps the entries); reduce_or = the union of the given sets (unit bitsets.*reduce_or)',
                           'lemma L-REACH proved in Lean (lemmas/Worklist.lean: reach_subset, generic in the step relation)',
                           'x | t == t <-> x & t == x for naturals (unit lemma.bits_subset); extents are naturals (LatInv)',
                           'termination of the worklist loop is not proved; the method is documented as EXPERIMENTAL'],
              linkage=[('type(lat).upset_generalization', None)]))


def _lemma_generalization():
    """Relative to LatInv (as lemma.traversal.up): key = index, nxt = upper covers, ext(k) = the extent of the member with key k."""
    from contracts.ctxtheory import Ctx
    from contracts.latinv import Lat
    I, B = IntSort(), BoolSort()
    C = Ctx()
    L = Lat(C)
    G = GenReach()
    sub = C.sets.subset
    cover = Function('cover', I, I, B)
    key = Function('rankkey', I, I)            # index of the member at position i
    member = Function('keymember', I, I)       # inverse: the member with the given key
    inI = Function('inI', I, B)
    e, f, i, j, s, k, x = Ints('e f i j s k x')
    isext = lambda v: And(C.is_objset(v), C.Cl(v) == v)
    inr = lambda v: And(0 <= v, v < L.N)
    below = lambda a, b: sub(L.ext(a), L.ext(b))
    axioms = C.axioms() + L.facts() + G.axioms(requirements=False) + [
        ('cover.ext', ForAll([e, f], Implies(cover(e, f), And(isext(e), isext(f), sub(e, f), e != f)), patterns=[cover(e, f)])),
        # LatInv.2 + L-SLEX: the index is a bijection members <-> 0..N-1, strictly increasing with strict inclusion of extents
        ('key.range', ForAll([i], Implies(inr(i), And(inr(key(i)), member(key(i)) == i)), patterns=[key(i)])),
        ('key.onto', ForAll([k], Implies(inr(k), And(inr(member(k)), key(member(k)) == k)), patterns=[member(k)])),
        ('key.monotone', ForAll([i, j], Implies(And(inr(i), inr(j), below(i, j), i != j), key(i) < key(j)), patterns=[MultiPattern(key(i), key(j))])),
        # items are identified by their key: seed keys are keys of members; LatInv.5: upper_neighbors = the members whose extents are the upper covers
        ('seeds.members', ForAll([k], Implies(G.seed(k), inr(k)), patterns=[G.seed(k)])),
        ('nxt.def', ForAll([i, j], G.nxt(i, j) == And(inr(i), inr(j), cover(L.ext(member(i)), L.ext(member(j)))), patterns=[G.nxt(i, j)])),
        ('item.extent', ForAll([k], G.ext(k) == L.ext(member(k)), patterns=[G.ext(k)])),
    ]

    def prove(path):
        kk, ii, jj, ss = Ints('kk ii jj ss')
        E1, E2 = Ints('E1 E2')
        T = G.T

        def hint(term):
            h = Function('hint!%d' % next(path.eng.counter), term.sort(), B)
            path.assume(h(term))
        # ---- every generated key is the key of a member: L-REACH (Worklist.lean: reach_subset) with Y = the keys of members
        path.oblige('L-REACH/seeds-are-members', 'lemma.use', Implies(G.seed(ss), inr(ss)))
        path.oblige('L-REACH/members-closed-under-step', 'lemma.use', Implies(And(inr(ii), G.step(ii, jj)), inr(jj)))
        path.assume(ForAll([k], Implies(G.gen(k), inr(k)), patterns=[G.gen(k)]))
        # ---- the requirements of the unit lattices.upset_generalization
        path.oblige('requires/key-nonneg', 'lemma', Implies(G.gen(kk), kk >= 0))
        path.oblige('requires/key-increasing', 'lemma', Implies(And(G.gen(ii), G.nxt(ii, jj)), ii < jj))
        path.oblige('requires/key-monotone', 'lemma', Implies(And(G.gen(ii), G.gen(jj), bits.bor(G.ext(ii), G.ext(jj)) == G.ext(jj)), ii <= jj))
        # ---- generated keys lie above a seed: L-REACH with Y = up
        wup = Function('w.up', I, I)
        upf = Function('up', I, B)
        path.assume(ForAll([k], upf(k) == And(inr(k), G.seed(wup(k)), below(member(wup(k)), member(k))), patterns=[upf(k)]))
        path.assume(ForAll([s, k], Implies(And(G.seed(s), inr(k), below(member(s), member(k))), upf(k)),
                           patterns=[MultiPattern(G.seed(s), upf(k))]))      # any seed witnesses up(k) (definition of "some seed")
        path.oblige('L-REACH/seeds-in-up', 'lemma.use', Implies(G.seed(ss), upf(ss)))
        path.oblige('L-REACH/up-closed-under-step', 'lemma.use', Implies(And(upf(ii), G.step(ii, jj)), upf(jj)))
        path.assume(ForAll([k], Implies(G.gen(k), upf(k)), patterns=[G.gen(k)]))
        # ---- L-UPSET (lemmas/Upset.lean: upset_complete) with S = {E extent | gen(key of its member) or E not inside T}, A0 = ext(seed)
        inS = lambda E: And(isext(E), Or(G.gen(key(L.idx(E))), Not(sub(E, T))))
        path.oblige('L-UPSET/seed-in-S', 'lemma.use', Implies(G.seed(ss), inS(L.ext(member(ss)))))
        hint(G.nxt(key(L.idx(E1)), key(L.idx(E2))))                 # term hint for nxt.def / gen.step
        path.assume(bits.ext_instance(bits.bor(E1, T), T, path.fresh_int('wext')))      # use lemma B9: E1 inside T -> E1 | T == T
        path.oblige('L-UPSET/S-closed-under-covers', 'lemma.use', Implies(And(inS(E1), cover(E1, E2)), inS(E2)))
        path.assume(ForAll([s, e], Implies(And(G.seed(s), isext(e), sub(L.ext(member(s)), e)), inS(e)), patterns=[MultiPattern(G.seed(s), L.idx(e))]))
        hint(L.idx(L.ext(member(kk))))
        path.oblige('post/generated-and-inside-the-target = above-a-seed-and-inside-the-target', 'lemma',
                    And(G.gen(kk), G.inT(kk)) == And(upf(kk), G.inT(kk)))
        # ---- seeds = tools.maximal(I, properly_subsumes) (unit tools.maximal), L-MINIMAL (Upset.lean): above a seed = above a member of the collection
        path.assume(ForAll([x], Implies(inI(x), inr(x)), patterns=[inI(x)]))
        strict = lambda a, b: And(below(member(b), member(a)), L.ext(member(a)) != L.ext(member(b)))     # comparison(a, b): b strictly below a
        path.assume(ForAll([k], G.seed(k) == And(inI(k), ForAll([x], Implies(And(inI(x), x != k), Not(strict(k, x))))), patterns=[G.seed(k)]))
        wmin = Function('w.min', I, I)
        path.assume(ForAll([x], Implies(inI(x), And(G.seed(wmin(x)), below(member(wmin(x)), member(x)))), patterns=[inI(x)]))   # L-MINIMAL instance
        wI = Function('w.I', I, I)
        upI = Function('upI', I, B)
        path.assume(ForAll([k], upI(k) == And(inr(k), inI(wI(k)), below(member(wI(k)), member(k))), patterns=[upI(k)]))
        path.assume(ForAll([x, k], Implies(And(inI(x), inr(k), below(member(x), member(k))), upI(k)), patterns=[MultiPattern(inI(x), upI(k))]))
        path.oblige('post/yields = the members between a member of the collection and the target', 'lemma',
                    And(G.gen(kk), G.inT(kk)) == And(upI(kk), G.inT(kk)))
    return axioms, prove


register(Unit('lemma.traversal.generalization', None, None, _lemma_generalization,
              assumptions=['relative to LatInv: index a bijection onto 0..N-1 that is strictly increasing with strict inclusion (LatInv.2 + L-SLEX), '
                           'upper_neighbors = the upper covers (LatInv.5)',
                           'lemmas L-REACH (Worklist.lean), L-UPSET / L-MINIMAL (Upset.lean) proved in Lean; SMT <-> Lean transcription by hand',
                           'contract of tools.maximal (unit tools.maximal) and of upset_generalization (unit lattices.upset_generalization); '
                           'the target is the union of the extents of the MINIMAL members of the collection (as the code computes it)']))


register(Unit('lattices.__str__', LT, 'FormattingMixin.__str__', _unit(_lattice_str),
              assumptions=['str.join / f-string rendering are the builtin\'s; {c} is str(c) (unit members.__str__); {self!r} is repr(self) (unit lattices.__repr__)'],
              linkage=[('type(lat).__str__', None)]))
register(Unit('lattices.__repr__', LT, 'FormattingMixin.__repr__', _unit(_lattice_repr),
              assumptions=['f-string rendering is the builtin\'s; id() is the address (excepted from C17); atoms / supremum / __len__ (units lattices.atoms / supremum / __len__)'],
              linkage=[('type(lat).__repr__', None)]))
