"""Line-level / structure-level contracts for the TEXT formats of C12 (concepts/formats/{cxt,table,wiki_table}.py).

What is proved here is the *structure* of the real functions: which lines are produced, in which order, from which item of the
input (dumpers), and which slice / which piece of which line ends up in which component of the result (loaders).  The text layer
itself is NOT modelled: a text is an opaque value built from

  * literals of the source                      ('B', '|-', '{| class="featuresystem"', ...)
  * opaque atoms                                the labels objects[t] / properties[t], the symbol symbols[b], a line of a file
  * opaque operators recording their operands   f-string pieces {v:spec}, sep.join(seq), tmpl % args, s * n, s + t, s.format(*a),
                                                s.ljust(w), s.strip(), s.strip(chars), s.partition(sep), s.split(sep), chars of s

and two texts are the same iff they are built the same way from the same operands (sequences element-wise, at a fresh index).
Nothing about the characters of the result of an operator is assumed (bounded side: bounded/c12.py round trips).

Ghost state: the output of a dumper is a trace of segments  ('one', text) | ('many', count, t -> [texts of block t]);
`yield` / `print(text, file=file)` append to it; a loop with a symbolic number of iterations is cut by the invariant
"trace = prefix ++ [block(t) | t < k]" (inv.preserve: iteration k appends exactly block(k)).

Units
  formats.cxt.iter_cxt_lines     'B', '', {len(objects):d}, {len(properties):d}, '', objects..., properties..., one row text per row
  formats.cxt.Cxt.dumpf          print(line, file=file) once per line of iter_cxt_lines(objects, properties, bools, symbols=cls.symbols)
  formats.cxt.Cxt.loadf          objects = lines[:y], properties = lines[y:y+x], bools = values over the characters of lines[y+x:]
  formats.table.dump_file        header tmpl % (('',) + properties), then tmpl % ((o,) + cells) per (object, row) in zip order
  formats.table.load_file        properties from the first non-blank line, (object, flags) from every further one, ContextArgs(...)
  formats.wiki_table.dump_file   3 header lines, per (object, row): '|-', '!{o}', '|' + '||'-joined padded cells; closing '|}'
"""
from z3 import (And, BoolSort, BoolVal, Const, DeclareSort, ForAll, Function, If, Implies, Int, IntSort, IntVal, MultiPattern, Not, Or)

from pyvc import bits
from pyvc.engine import (BoolV, FuncV, IntV, IterV, IteV, ListV, LoopSpec, NONE, NoneV, ObjV, SeqV, StrV, TermV, TupleV, Unsupported,
                         Val, flat_env, ite)
from contracts import lib
from contracts.persist import meth
from contracts.registry import Unit, register

I, B = IntSort(), BoolSort()

CXT, TAB, WIKI = 'concepts/formats/cxt.py', 'concepts/formats/table.py', 'concepts/formats/wiki_table.py'

# ---------------------------------------------------------------------------------------------------------------------
# opaque texts

_codes = {}


def _theory():
    """The Text sort and its uninterpreted operations.  Declared on first use (by make() of a unit of this module), NOT at import:
    declarations in the global z3 context shift the symbol numbering seen by every other unit of the same process."""
    global T, StrLen, Strip, StripChars, Chr, Before, Sep, After, NParts, Part, Lit, Sym, ValueOf, IntOf
    if 'T' in globals():
        return
    T = DeclareSort('Text')
    StrLen = Function('text.len', T, I)                 # len(s)
    Strip = Function('text.strip', T, T)                # s.strip()
    StripChars = Function('text.strip_chars', T, T, T)  # s.strip(chars)
    Chr = Function('text.chr', T, I, T)                 # the c-th character of s (iteration over a str)
    Before = Function('text.partition.before', T, T, T)     # s.partition(sep)[0]
    Sep = Function('text.partition.sep', T, T, T)           # s.partition(sep)[1]
    After = Function('text.partition.after', T, T, T)       # s.partition(sep)[2]
    NParts = Function('text.split.count', T, T, I)          # len(s.split(sep))
    Part = Function('text.split.part', T, T, I, T)          # s.split(sep)[c]
    Lit = Function('text.literal', I, T)                # a literal of the source, by interned code
    Sym = Function('symbols', B, T)                     # symbols[b]  (cxt)
    ValueOf = Function('values', T, B)                  # cls.values[ch]  (cxt)
    IntOf = Function('int', T, I)                       # int(text)


def lit(s):
    return Lit(_codes.setdefault(s, len(_codes)))


def axioms():
    """BITS (for the ints of the engine) + the only fact about texts: a length is a natural number"""
    _theory()
    tx = Const('tx', T)
    return bits.axioms() + [('text.len-nonneg', ForAll([tx], StrLen(tx) >= 0, patterns=[StrLen(tx)]))]


def _lit_arg(a, what):
    if not (isinstance(a, StrV) and a.value is not None):
        raise Unsupported('%s with a computed argument' % what)
    return lit(a.value)


def text(term, name=None):
    """A str value known only as the term `term` (sort Text).  Methods = the assumed string-library contracts: each returns
    the opaque result of that operation on this text; truthiness = non-empty."""
    o = ObjV('str', {}, name=name or str(term))
    o.ident = term
    o.truth_fn = lambda: StrLen(term) > 0
    o.fields['__len__'] = FuncV('str.__len__', lambda p, a, k: IntV(StrLen(term)))

    def strip(p, a, k):
        if k or len(a) > 2:
            raise Unsupported('str.strip arguments')
        if len(a) == 2:
            return text(StripChars(term, _lit_arg(a[1], 'str.strip')))
        return text(Strip(term))

    def partition(p, a, k):
        if k or len(a) != 2:
            raise Unsupported('str.partition arguments')
        s = _lit_arg(a[1], 'str.partition')
        return TupleV([text(Before(term, s)), text(Sep(term, s)), text(After(term, s))])

    def split(p, a, k):
        if k or len(a) != 2:
            raise Unsupported('str.split arguments')
        s = _lit_arg(a[1], 'str.split')
        return SeqV(lambda c: text(Part(term, s, c)), NParts(term, s), 'split(%s)' % term)
    o.fields['strip'] = meth(strip, 'str.strip')
    o.fields['partition'] = meth(partition, 'str.partition')
    o.fields['split'] = meth(split, 'str.split')
    o.fields['__iter__'] = FuncV('str.__iter__', lambda p, a, k: IterV(lambda c: text(Chr(term, c)), StrLen(term), 'chars(%s)' % term))
    return o


def is_text(v):
    return isinstance(v, StrV) or (isinstance(v, ObjV) and getattr(v, 'ident', None) is not None and v.cls == 'str')


class Op(Val):
    """An opaque text operator applied to operands (values of the engine): join, format, ljust, repeat."""

    def __init__(self, kind, args):
        self.kind, self.args = kind, list(args)

    def __repr__(self):
        return 'Op(%s, %r)' % (self.kind, self.args)


def compound(kind, *args):
    return StrV(None, parts=[('fmt', Op(kind, args), -1, None)])


def parts_of(s):
    """Normal form of a text as a concatenation: literal pieces merged, empty literals dropped."""
    if isinstance(s, StrV):
        ps = [('lit', s.value)] if s.value is not None else list(s.parts or [])
    else:
        ps = [('fmt', s, -1, None)]
    out = []
    for x in ps:
        if x[0] == 'lit':
            if x[1] == '':
                continue
            if out and out[-1][0] == 'lit':
                out[-1] = ('lit', out[-1][1] + x[1])
                continue
        out.append(tuple(x))
    return out


def cat(*texts):
    ps = []
    for t in texts:
        ps.extend(parts_of(t))
    return StrV(None, parts=parts_of(StrV(None, parts=ps)))


def fstr(*pieces):
    """an f-string: str pieces are literals, (value, spec) pieces are {value:spec}"""
    return StrV(None, parts=[('lit', x) if isinstance(x, str) else ('fmt', x[0], -1, x[1]) for x in pieces])


def pct(tmpl, args):
    return StrV(None, parts=[('fmt', tmpl, -1, None), ('fmt', args, -1, '%')])      # the engine's record of `tmpl % args`


# ---- sequences (concrete tuples/lists, contract sequences, a list with a symbolic tail)

class SymList(ListV):
    """A python list that got a contract iterable appended by .extend(): a head of concrete length and a symbolic tail.
    Every use as an ordinary (concrete-length) list is rejected, so that no engine rule can silently drop the tail."""

    @property
    def items(self):
        raise Unsupported('list with a symbolic tail used as a concrete list')

    def as_seq(self):
        return concat(TupleV(self.head), self.tail)


def is_seq(v):
    return isinstance(v, (SeqV, IterV, TupleV, ListV))


def seq_len(v):
    if isinstance(v, SymList):
        return v.as_seq().length
    if isinstance(v, (TupleV, ListV)):
        return IntVal(len(v.items))
    return v.length


def seq_at(v, t):
    if isinstance(v, SymList):
        return v.as_seq().at(t)
    if isinstance(v, (TupleV, ListV)):
        if not v.items:
            return NONE
        r = v.items[-1]
        for i in range(len(v.items) - 2, -1, -1):
            r = ite(t == i, v.items[i], r)
        return r
    return v.at(t)


def concat(a, b):
    la = seq_len(a)
    return SeqV(lambda t: ite(t < la, seq_at(a, t), seq_at(b, t - la)), la + seq_len(b), 'concat')


def same(p, a, b):
    """Formula: the computed value `a` is the specification value `b` (texts by construction, sequences element-wise at a
    fresh index, conditionals by cases)."""
    if isinstance(b, IteV):
        return And(Implies(b.c, same(p, a, b.a)), Implies(Not(b.c), same(p, a, b.b)))
    if isinstance(a, IteV):
        return And(Implies(a.c, same(p, a.a, b)), Implies(Not(a.c), same(p, a.b, b)))
    if is_text(a) and is_text(b) and (isinstance(a, StrV) or isinstance(b, StrV)):
        pa, pb = parts_of(a), parts_of(b)
        if len(pa) != len(pb):
            return BoolVal(False)
        fs = []
        for x, y in zip(pa, pb):
            if x[0] != y[0]:
                return BoolVal(False)
            if x[0] == 'lit':
                fs.append(BoolVal(x[1] == y[1]))
            else:
                fs.append(And(BoolVal(tuple(x[2:]) == tuple(y[2:])), same(p, x[1], y[1])))
        return And(*fs) if fs else BoolVal(True)
    if isinstance(a, ObjV) and isinstance(b, ObjV) and getattr(a, 'ident', None) is not None and getattr(b, 'ident', None) is not None:
        return a.ident == b.ident if a.ident.sort() == b.ident.sort() else BoolVal(False)
    if isinstance(a, IntV) and isinstance(b, IntV):
        return a.t == b.t
    if isinstance(a, BoolV) and isinstance(b, BoolV):
        return a.t == b.t
    if isinstance(a, TermV) and isinstance(b, TermV):
        return a.t == b.t if a.t.sort() == b.t.sort() else BoolVal(False)
    if isinstance(a, NoneV) and isinstance(b, NoneV):
        return BoolVal(True)
    if isinstance(a, Op) and isinstance(b, Op):
        if a.kind != b.kind or len(a.args) != len(b.args):
            return BoolVal(False)
        return And(*[same(p, x, y) for x, y in zip(a.args, b.args)])
    if is_seq(a) and is_seq(b):
        if isinstance(a, (TupleV, ListV)) and isinstance(b, (TupleV, ListV)) and not isinstance(a, SymList) and not isinstance(b, SymList):
            if len(a.items) != len(b.items):
                return BoolVal(False)
            return And(*[same(p, x, y) for x, y in zip(a.items, b.items)]) if a.items else BoolVal(True)
        c = p.fresh_int('c')
        la, lb = seq_len(a), seq_len(b)
        return And(la == lb, Implies(And(0 <= c, c < lb), same(p, seq_at(a, c), seq_at(b, c))))
    return BoolVal(a is b)


# ---- library contracts (assumed): builtins on contract sequences, str methods as opaque operators

def _join(p, args, kw):
    sep, it = args
    if kw or not is_seq(it):
        raise Unsupported('str.join of %r' % (it,))
    return compound('join', sep, it)


def _format(p, args, kw):
    if kw:
        raise Unsupported('str.format with keywords')
    tmpl = args[0]
    if isinstance(tmpl, StrV) and tmpl.value is not None:
        # a literal template with plain auto-numbered fields only: '..{}..'.format(a, ..) IS the f-string f'..{a}..' (both are
        # format(a, '') between the literal pieces) -- one normal form for the two spellings
        import string
        try:
            fields = list(string.Formatter().parse(tmpl.value))
        except ValueError:
            fields = None
        if fields is not None and all(f[1] is None or (f[1] == '' and f[2] == '' and f[3] is None) for f in fields) \
                and sum(1 for f in fields if f[1] is not None) == len(args) - 1:
            parts, rest = [], list(args[1:])
            for lit, name, _, _ in fields:
                if lit:
                    parts.append(('lit', lit))
                if name is not None:
                    parts.append(('fmt', rest.pop(0), -1, None))
            return StrV(None, parts=parts)
    return compound('format', args[0], TupleV(args[1:]))


def _ljust(p, args, kw):
    if kw or len(args) != 2:
        raise Unsupported('str.ljust arguments')
    return compound('ljust', args[0], args[1])


def _extend(p, args, kw):
    lst, it = args
    if isinstance(lst, SymList):
        raise Unsupported('second extend of a list with a symbolic tail')
    if isinstance(it, (ListV, TupleV)) and not isinstance(it, SymList):
        lst.items.extend(it.items)
        return NONE
    if not isinstance(it, (IterV, SeqV)):
        raise Unsupported('list.extend of %r' % (it,))
    head = list(lst.items)
    lst.__class__ = SymList
    lst.head, lst.tail = head, it
    return NONE


VALUE_METHODS = {('StrV', 'join'): FuncV('str.join', _join), ('StrV', 'format'): FuncV('str.format', _format),
                 ('StrV', 'ljust'): FuncV('str.ljust', _ljust), ('ListV', 'extend'): FuncV('list.extend', _extend)}


def _binop(p, op, a, b, inplace):
    name = type(op).__name__
    if name == 'Mult' and isinstance(a, StrV) and isinstance(b, IntV):
        return compound('repeat', a, b)
    if name == 'Add' and is_text(a) and is_text(b):
        return cat(a, b)
    if name == 'Add' and not inplace and is_seq(a) and is_seq(b):
        return concat(a, b)
    return None


def _zip(p, args, kw):
    """zip of two sequences: pairs in order, as many as the shorter one; zip(*rows) of a non-empty list of n-tuples: its n columns."""
    if kw:
        raise Unsupported('zip keywords')
    if len(args) == 1 and isinstance(args[0], ObjV) and (getattr(args[0], 'rows', None) is not None or getattr(args[0], 'starred', None) is not None):
        # zip(*rows): rows given by the contract as a row collection (`.rows`) or any contract sequence the engine marked as starred
        # (`.starred`: the comprehension spelled as an accumulator loop, or left to the engine's own closed form)
        rows = args[0].rows if getattr(args[0], 'rows', None) is not None else args[0].starred
        probe = seq_at(rows, p.fresh_int('row'))
        if not isinstance(probe, TupleV):
            raise Unsupported('zip(*rows) of rows that are not tuples')
        p.oblige('zip(*rows)/at-least-one-row', 'call', seq_len(rows) >= 1)
        return TupleV([SeqV(lambda t, _i=i: seq_at(rows, t).items[_i], seq_len(rows), 'column%d' % i) for i in range(len(probe.items))])
    if len(args) == 2 and all(is_seq(a) for a in args):
        a, b = args
        la, lb = seq_len(a), seq_len(b)
        n = p.fresh_int('zip.len')
        p.assume(And(n <= la, n <= lb, Or(n == la, n == lb)))
        return IterV(lambda t: TupleV([seq_at(a, t), seq_at(b, t)]), n, 'zip')
    raise Unsupported('zip of %r' % (args,))


def map_closed_form(interp, env, node):
    """[elt for x in seq] / (elt for x in seq) over any sequence value of this module (incl. SymList): same length, k-th element
    = elt[x := seq[k]] evaluated from the real AST"""
    if len(node.generators) != 1 or node.generators[0].ifs:
        raise Unsupported('comprehension with conditions / nested generators')
    g = node.generators[0]
    it = interp.eval(g.iter, env)
    if isinstance(it, ObjV) and '__iter__' in it.fields:
        it = interp.call(it.fields['__iter__'], [it], {})
    if not is_seq(it):
        raise Unsupported('comprehension over %r' % (it,))

    def at(k, _env=flat_env(env)):
        inner = dict(_env)
        interp.assign(g.target, seq_at(it, k), inner)
        return interp.eval(node.elt, inner)
    return IterV(at, seq_len(it), 'map')


def base_loops(extra_globals):
    g = dict(lib.builtins(), zip=FuncV('zip', _zip))
    g.update(extra_globals)
    return {'globals': g, 'value_methods': VALUE_METHODS, 'binop': _binop}


# ---- the ghost output trace

class Trace:
    def __init__(self):
        self.segs = []

    def one(self, v):
        self.segs.append(('one', v))

    def many(self, count, fn):
        self.segs.append(('many', count, fn))

    def matches(self, p, expected):
        """[(name, formula)]: this trace is the expected one, segment by segment"""
        shape = len(self.segs) == len(expected) and all(a[0] == e[0] for a, e in zip(self.segs, expected))
        out = [('segments', BoolVal(shape))]
        if not shape:
            return out
        for i, (a, e) in enumerate(zip(self.segs, expected)):
            if a[0] == 'one':
                out.append(('line%d' % i, same(p, a[1], e[1])))
            else:
                t = p.fresh_int('t')
                xa, xe = a[2](t), e[2](t)
                out.append(('block%d' % i, And(a[1] == e[1], Implies(And(0 <= t, t < e[1]), And(BoolVal(len(xa) == len(xe)),
                                                                                           *[same(p, x, y) for x, y in zip(xa, xe)])))))
        return out


def emit_loop(trace, block):
    """LoopSpec of a loop that appends exactly the texts block(k) to the trace in iteration k:
    invariant  trace = (trace at loop entry) ++ [block(t) | t < k]."""
    st = {}

    def inv(e, k, phase):
        p = e._path
        if phase == 'entry':
            st['prefix'] = list(trace.segs)
            return []
        if phase == 'assume':
            st['k'] = k
            trace.segs[:] = st['prefix'] + [('many', k, block)]
            st['head'] = list(trace.segs)
            return []
        head = st['head']
        kept = len(trace.segs) >= len(head) and all(x is y for x, y in zip(trace.segs, head))
        new = trace.segs[len(head):]
        exp = block(st['k'])
        ok = kept and len(new) == len(exp) and all(s[0] == 'one' for s in new)
        fs = [BoolVal(ok)]
        if ok:
            fs += [same(p, s[1], x) for s, x in zip(new, exp)]
        return [('iteration-k-appends-exactly-its-lines', And(*fs))]
    return LoopSpec(inv, phased=True)


def printer(trace, file):
    """print and functools.partial.  ASSUMED: print(text, file=f) writes the text and a line end to f; partial(f, *a, **k) called
    with (*b, **l) is f(*a, *b, **k, **l).  Every print call must carry exactly one text and file=<the file parameter>."""
    def do_print(p, args, kw):
        ok = len(args) == 1 and set(kw) == {'file'} and kw['file'] is file
        p.oblige('print/exactly-one-text-to-the-given-file', 'call', BoolVal(ok))
        trace.one(args[0] if len(args) == 1 else TupleV(args))
        return NONE
    print_ = FuncV('print', do_print)

    def partial(p, args, kw):
        if not args:
            raise Unsupported('partial()')
        f, pre, prekw = args[0], list(args[1:]), dict(kw)
        return FuncV('partial', lambda p2, a2, k2: p2.interp.call(f, pre + list(a2), dict(prekw, **k2)))
    return {'print': print_, 'functools': ObjV('module', {'partial': FuncV('functools.partial', partial)}, name='functools')}


def _no_exception(path, outcome):
    if outcome[0] != 'return':
        path.oblige('post/no-exception', 'post', BoolVal(False))
        return False
    return True


# ---- the abstract table: labels, cells

class Table:
    def __init__(self, path, rows_match_objects=True):
        self.n, self.m, self.nb = Int('len(objects)'), Int('len(properties)'), Int('len(bools)')
        self.Obj, self.Prp = Function('objects', I, T), Function('properties', I, T)
        self.cell, self.ncols = Function('cell', I, I, B), Function('len(row)', I, I)
        path.assume(And(self.n >= 0, self.m >= 0, self.nb >= 0))
        r = Int('r')
        path.assume(ForAll([r], self.ncols(r) >= 0, patterns=[self.ncols(r)]))
        if rows_match_objects:
            path.assume(self.nb == self.n)          # requires: one row of cells per object
        self.objects = SeqV(lambda t: text(self.Obj(t)), self.n, 'objects')
        self.properties = SeqV(lambda t: text(self.Prp(t)), self.m, 'properties')
        self.bools = SeqV(self.row, self.nb, 'bools')

    def row(self, r):
        return SeqV(lambda c: BoolV(self.cell(r, c)), self.ncols(r), 'bools[%s]' % r)

    def cells(self, r, true, false):
        """the sequence of cell texts of row r: `true` where the cell holds, else `false`"""
        return IterV(lambda c: IteV(self.cell(r, c), true, false), self.ncols(r), 'cells[%s]' % r)


# =====================================================================================================================
# cxt.iter_cxt_lines

def _symbols():
    def getitem(p, a, k):
        if not isinstance(a[-1], BoolV):
            raise Unsupported('symbols[%r]' % (a[-1],))
        return text(Sym(a[-1].t))
    return ObjV('Mapping', {'__getitem__': FuncV('symbols.__getitem__', getitem)}, name='symbols')


def _set_of(p, args, kw):
    """set(iterable of ints) compared with a one-element display {x}: equal iff the iterable is non-empty and all items are x"""
    (it,) = args
    if kw or not isinstance(it, (IterV, SeqV)):
        raise Unsupported('set of %r' % (it,))

    def eq(p2, a, k):
        other = a[1]
        items = getattr(other, 'items', None)
        if not (isinstance(other, ObjV) and other.cls == 'SetDisplay' and len(items) == 1 and isinstance(items[0], IntV)):
            raise Unsupported('set comparison with %r' % (other,))
        t = Int('t!%d' % next(p2.eng.counter))
        return BoolV(And(it.length > 0, ForAll([t], Implies(And(0 <= t, t < it.length), it.at(t).t == items[0].t))))
    return ObjV('set', {'__eq__': FuncV('set.__eq__', eq)}, name='set(%s)' % it.name)


def _iter_cxt_lines_unit():
    def make():
        def harness(path):
            tb = Table(path)
            r = Int('r')
            # requires (the two asserts of the function): a row per object, at least one row, every row has a cell per property
            path.assume(tb.nb >= 1)
            path.assume(ForAll([r], Implies(And(0 <= r, r < tb.nb), tb.ncols(r) == tb.m), patterns=[tb.ncols(r)]))
            symbols = _symbols()
            trace = Trace()

            def rowtext(k):
                return compound('join', StrV(''), IterV(lambda c: text(Sym(tb.cell(k, c))), tb.ncols(k), 'symbols of row'))
            spec = emit_loop(trace, lambda k: [rowtext(k)])
            spec.yields = lambda e, k: (BoolVal(True), lambda v: BoolVal(True))     # one yield per row; its text: the invariant

            def on_yield(p, env, val):
                trace.one(val)

            def on_yield_from(p, env, v):
                if not is_seq(v):
                    raise Unsupported('yield from %r' % (v,))
                trace.many(seq_len(v), lambda t: [seq_at(v, t)])

            def finish(path, env_, outcome):
                if not _no_exception(path, outcome):
                    return
                expected = [('one', StrV('B')), ('one', StrV('')), ('one', fstr((IntV(tb.n), 'd'))), ('one', fstr((IntV(tb.m), 'd'))),
                            ('one', StrV('')),
                            ('many', tb.n, lambda t: [text(tb.Obj(t))]), ('many', tb.m, lambda t: [text(tb.Prp(t))]),
                            ('many', tb.nb, lambda t: [rowtext(t)])]
                for nm, f in trace.matches(path, expected):
                    path.oblige('post/lines/' + nm, 'post', f)
            loops = base_loops({'set': FuncV('set', _set_of)})
            loops.update({0: spec, 'on_yield': on_yield, 'on_yield_from': on_yield_from})
            return {'objects': tb.objects, 'properties': tb.properties, 'bools': tb.bools, 'symbols': symbols}, loops, finish
        return axioms(), harness
    return make


register(Unit('formats.cxt.iter_cxt_lines', CXT, 'iter_cxt_lines', _iter_cxt_lines_unit(),
              assumptions=['requires len(objects) == len(bools) >= 1 and len(row) == len(properties) for every row (the asserts are proved from it)',
                           'texts are opaque: f"{n:d}", "".join(seq), symbols[b] are recorded with their operands, not evaluated',
                           'set(map(len, bools)) == {x} iff bools is non-empty and every row has length x'],
              linkage=[('concepts.formats.cxt.iter_cxt_lines', None)]))


# =====================================================================================================================
# Cxt.dumpf

def _cxt_dumpf_unit():
    def make():
        def harness(path):
            Line, nlines = Function('line', I, T), Int('number_of_lines')
            path.assume(nlines >= 0)
            lines = IterV(lambda t: text(Line(t)), nlines, 'iter_cxt_lines(...)')
            calls = []
            names = {n: ObjV('Arg', {}, name=n) for n in ('file', 'objects', 'properties', 'bools')}
            cls_symbols = ObjV('Mapping', {}, name='cls.symbols')
            cls = ObjV('class', {'symbols': cls_symbols}, name='cls')
            trace = Trace()

            def iter_cxt_lines(p, a, k):
                calls.append((list(a), dict(k)))
                return lines
            g = printer(trace, names['file'])
            g['iter_cxt_lines'] = FuncV('iter_cxt_lines', iter_cxt_lines)
            spec = emit_loop(trace, lambda k: [text(Line(k))])

            def finish(path, env_, outcome):
                if not _no_exception(path, outcome):
                    return
                ok = len(calls) == 1 and calls[0][0] == [names['objects'], names['properties'], names['bools']] \
                    and set(calls[0][1]) == {'symbols'} and calls[0][1]['symbols'] is cls_symbols
                path.oblige('post/lines-of-iter_cxt_lines-for-the-triple-with-the-class-symbols', 'post', BoolVal(ok))
                for nm, f in trace.matches(path, [('many', nlines, lambda t: [text(Line(t))])]):
                    path.oblige('post/written/' + nm, 'post', f)
                path.oblige('post/returns-None', 'post', BoolVal(isinstance(outcome[1], NoneV)))
            loops = base_loops(g)
            loops[0] = spec
            env = dict(names, cls=cls)
            return env, loops, finish
        return axioms(), harness
    return make


register(Unit('formats.cxt.Cxt.dumpf', CXT, 'Cxt.dumpf', _cxt_dumpf_unit(),
              assumptions=['contract of iter_cxt_lines (unit formats.cxt.iter_cxt_lines): an iterable of lines',
                           'print(text, file=f) writes text + line end to f; functools.partial(f, **k)(*a) = f(*a, **k)'],
              linkage=[('concepts.formats.Format["cxt"].dumpf', None)]))


# =====================================================================================================================
# Cxt.loadf

def _str_obj(name, **methods):
    return ObjV('str', {k: meth(v, 'str.' + k) for k, v in methods.items()}, name=name)


def _expect_args(a, k, expected, what):
    """a call of an assumed string-library contract must carry exactly the stated literal arguments"""
    got = [x.value if isinstance(x, StrV) else x for x in a[1:]]
    if k or got != list(expected):
        raise Unsupported('no contract for %s with arguments %r' % (what, got))


def sliceable(seq):
    """a list of symbolic length; a slice [lo:hi] with 0 <= lo <= hi <= len is the sequence of the hi - lo items from lo on"""
    o = ObjV('list', {}, name=seq.name)
    o.seq = seq

    def getslice(interp, env, o_, sl):
        if sl.step is not None:
            raise Unsupported('slice with a step')
        lo = interp.eval(sl.lower, env) if sl.lower is not None else IntV(0)
        hi = interp.eval(sl.upper, env) if sl.upper is not None else IntV(seq.length)
        if not (isinstance(lo, IntV) and isinstance(hi, IntV)):
            raise Unsupported('slice bounds')
        interp.path.oblige('slice-within-the-list@%s' % seq.name, 'index', And(0 <= lo.t, lo.t <= hi.t, hi.t <= seq.length))
        return SeqV(lambda t, _lo=lo.t: seq.at(t + _lo), hi.t - lo.t, '%s[%s:%s]' % (seq.name, lo.t, hi.t))
    o.fields['__getslice__'] = getslice
    o.fields['__len__'] = FuncV('list.__len__', lambda p, a, k: IntV(seq.length))
    o.fields['__iter__'] = FuncV('list.__iter__', lambda p, a, k: IterV(seq.at, seq.length, seq.name))
    return o


def default_comprehension(key, wrap):
    """closed-form entry: the engine's own closed form of the comprehension (from the real AST), then `wrap` on the result"""
    def hook(interp, env, node):
        cf = interp.loops['closed_form']
        h = cf.pop(key)
        try:
            v = interp.comprehension(node, env)
        finally:
            cf[key] = h
        if not isinstance(v, (IterV, SeqV)):
            raise Unsupported('comprehension %s is not a map over a contract sequence' % key)
        return wrap(SeqV(v.at, v.length, key))
    return hook


def _context_args(calls):
    def f(p, a, k):
        r = ObjV('ContextArgs', {}, name='ContextArgs(...)')
        calls.append((list(a), dict(k), r))
        return r
    return FuncV('ContextArgs', f)


def _cxt_loadf_unit():
    def make():
        def harness(path):
            y, x, rows = Int('y'), Int('x'), Int('rows')
            YS, XS = Function('yx.split()', I, T)(0), Function('yx.split()', I, T)(1)
            Raw = Function('table.strip().split("\\n")', I, T)
            path.assume(And(y == IntOf(YS), x == IntOf(XS)))
            # ASSUMED shape of the source (string library + well-formed file): three blank-line separated parts, two counts,
            # y + x + rows table lines, non-negative counts
            path.assume(And(y >= 0, x >= 0, rows >= 0))
            nlines = y + x + rows
            calls = []

            ys, xs = text(YS, 'y-text'), text(XS, 'x-text')
            tstripped = _str_obj('table.strip()', split=lambda p, a, k: (_expect_args(a, k, ['\n'], 'table.strip().split'),
                                                                          SeqV(lambda t: text(Raw(t)), nlines, 'raw-lines'))[1])
            table = _str_obj('table', strip=lambda p, a, k: (_expect_args(a, k, [], 'table.strip'), tstripped)[1])
            yx = _str_obj('yx', split=lambda p, a, k: (_expect_args(a, k, [], 'yx.split'), ListV([ys, xs]))[1])
            b = _str_obj('b')
            source = _str_obj('source', split=lambda p, a, k: (_expect_args(a, k, ['\n\n'], 'source.split'), ListV([b, yx, table]))[1])
            raw = _str_obj('file.read()', strip=lambda p, a, k: (_expect_args(a, k, [], 'file.read().strip'), source)[1])
            file = ObjV('file', {'read': meth(lambda p, a, k: (_expect_args(a, k, [], 'file.read'), raw)[1], 'file.read')}, name='file')

            def int_(p, a, k):
                if k or len(a) != 1 or not is_text(a[0]) or isinstance(a[0], StrV):
                    raise Unsupported('int(%r)' % (a,))
                return IntV(IntOf(a[0].ident))

            def values_getitem(p, a, k):
                ch = a[-1]
                if not (isinstance(ch, ObjV) and getattr(ch, 'ident', None) is not None):
                    raise Unsupported('cls.values[%r]' % (ch,))
                return BoolV(ValueOf(ch.ident))
            values = ObjV('dict', {'__getitem__': meth(values_getitem, 'dict.__getitem__')}, name='cls.values')
            cls = ObjV('class', {'values': values}, name='cls')

            def line(t):
                return Strip(Raw(t))

            def finish(path, env_, outcome):
                if not _no_exception(path, outcome):
                    return
                ok = len(calls) == 1 and outcome[1] is calls[0][2] and len(calls[0][0]) == 3 and not calls[0][1]
                path.oblige('post/returns-ContextArgs-of-three', 'post', BoolVal(ok))
                if not ok:
                    return
                objects, properties, bools = calls[0][0]
                path.oblige('post/objects-are-the-first-y-stripped-lines', 'post',
                            same(path, objects, SeqV(lambda t: text(line(t)), y, 'spec'))
                            if is_seq(objects) else BoolVal(False))
                path.oblige('post/properties-are-the-next-x-stripped-lines', 'post',
                            same(path, properties, SeqV(lambda t: text(line(y + t)), x, 'spec'))
                            if is_seq(properties) else BoolVal(False))
                spec = SeqV(lambda r: SeqV(lambda c: BoolV(ValueOf(Chr(line(y + x + r), c))), StrLen(line(y + x + r)), 'spec-row'), rows, 'spec')
                path.oblige('post/bools-map-the-values-over-the-characters-of-the-remaining-lines', 'post',
                            same(path, bools, spec) if is_seq(bools) else BoolVal(False))
            loops = base_loops({'int': FuncV('int', int_), 'ContextArgs': _context_args(calls)})
            loops['closed_form'] = {'ListComp#0': default_comprehension('ListComp#0', sliceable)}
            return {'cls': cls, 'file': file}, loops, finish
        return axioms(), harness
    return make


register(Unit('formats.cxt.Cxt.loadf', CXT, 'Cxt.loadf', _cxt_loadf_unit(),
              assumptions=['ASSUMED string-library contracts: file.read().strip().split("\\n\\n") gives three parts (b, yx, table); yx.split() gives two '
                           'texts, int() of them gives y, x >= 0; table.strip().split("\\n") gives y + x + rows lines; l.strip() is an opaque text of l',
                           'iterating a str gives its characters; cls.values[ch] is defined for every character met (an unknown character raises KeyError: not modelled)',
                           'a slice with 0 <= lo <= hi <= len is the hi - lo items from lo on (python clamps other bounds: rejected)'],
              linkage=[('concepts.formats.Format["cxt"].loadf', None)]))


# =====================================================================================================================
# table.dump_file

def _max_len(tb, ML):
    def f(p, a, k):
        if k or len(a) != 1 or a[0] is not tb.objects and a[0] is not tb.properties:
            raise Unsupported('tools.max_len(%r)' % (a,))
        return IntV(ML['objects' if a[0] is tb.objects else 'properties'])
    return ObjV('module', {'max_len': FuncV('tools.max_len', f)}, name='tools')


def _table_dump_unit():
    def make():
        def harness(path):
            tb = Table(path)
            ML = {'objects': Int('max_len(objects)'), 'properties': Int('max_len(properties)')}
            indent = Int('indent')
            file = ObjV('Arg', {}, name='file')
            trace = Trace()
            g = printer(trace, file)
            g['tools'] = _max_len(tb, ML)

            # specification, from the format description: column widths = longest object label, then the length of each property label;
            # one template for all lines; header: an empty first cell and the property labels; then object label and X / empty cells
            wd = concat(TupleV([IntV(ML['objects'])]), IterV(lambda t: IntV(StrLen(tb.Prp(t))), tb.m, 'property widths'))
            tmpl = cat(compound('repeat', StrV(' '), IntV(indent)),
                       compound('join', StrV('|'), IterV(lambda t: fstr('%-', (seq_at(wd, t), 'd'), 's'), seq_len(wd), 'column templates')),
                       StrV('|'))
            header = pct(tmpl, concat(TupleV([StrV('')]), tb.properties))

            def row(k):
                return pct(tmpl, concat(TupleV([text(tb.Obj(k))]), tb.cells(k, StrV('X'), StrV(''))))
            spec = emit_loop(trace, lambda k: [row(k)])

            def finish(path, env_, outcome):
                if not _no_exception(path, outcome):
                    return
                for nm, f in trace.matches(path, [('one', header), ('many', tb.n, lambda t: [row(t)])]):
                    path.oblige('post/written/' + nm, 'post', f)
                path.oblige('post/returns-None', 'post', BoolVal(isinstance(outcome[1], NoneV)))
            loops = base_loops(g)
            loops[0] = spec
            loops['closed_form'] = {'GeneratorExp#0': map_closed_form}
            env = {'file': file, 'objects': tb.objects, 'properties': tb.properties, 'bools': tb.bools, 'indent': IntV(indent)}
            return env, loops, finish
        return axioms(), harness
    return make


register(Unit('formats.table.dump_file', TAB, 'dump_file', _table_dump_unit(),
              assumptions=['requires len(bools) == len(objects) (zip stops at the shorter one)',
                           'texts are opaque: " " * n, sep.join(seq), f"%-{w:d}s", tmpl % args are recorded with their operands (which template, which '
                           'argument tuple), not evaluated; tools.max_len(seq) is an opaque int of seq',
                           'list.extend(iterable) appends its items in order; tuple + tuple concatenates; zip pairs in order',
                           'print(text, file=f) writes text + line end to f; functools.partial(f, **k)(*a) = f(*a, **k)'],
              linkage=[('concepts.formats.Format["table"].dumpf', None)]))


# =====================================================================================================================
# wiki_table.dump_file

def _wiki_dump_unit():
    def make():
        def harness(path):
            tb = Table(path)
            file = ObjV('Arg', {}, name='file')
            trace = Trace()
            g = printer(trace, file)

            def cells(k):
                # X / empty per cell, left-justified to the width of the property label of its column; as many as the shorter of
                # (properties, row)
                nc = If(tb.m <= tb.ncols(k), tb.m, tb.ncols(k))
                return IterV(lambda c: IteV(tb.cell(k, c), compound('ljust', StrV('X'), IntV(StrLen(tb.Prp(c)))),
                                            compound('ljust', StrV(''), IntV(StrLen(tb.Prp(c))))), nc, 'padded cells')

            def block(k):
                return [StrV('|-'), fstr('!', (text(tb.Obj(k)), None)),
                        fstr('|', (compound('join', StrV('||'), cells(k)), None))]
            spec = emit_loop(trace, block)

            def finish(path, env_, outcome):
                if not _no_exception(path, outcome):
                    return
                expected = [('one', StrV('{| class="featuresystem"')), ('one', StrV('!')),
                            ('one', fstr('!', (compound('join', StrV('!!'), tb.properties), None))),
                            ('many', tb.n, block), ('one', StrV('|}'))]
                for nm, f in trace.matches(path, expected):
                    path.oblige('post/written/' + nm, 'post', f)
                path.oblige('post/returns-None', 'post', BoolVal(isinstance(outcome[1], NoneV)))
            loops = base_loops(g)
            loops[0] = spec
            env = {'file': file, 'objects': tb.objects, 'properties': tb.properties, 'bools': tb.bools}
            return env, loops, finish
        return axioms(), harness
    return make


register(Unit('formats.wiki_table.dump_file', WIKI, 'dump_file', _wiki_dump_unit(),
              assumptions=['requires len(bools) == len(objects) (zip stops at the shorter one)',
                           'texts are opaque: sep.join(seq), s.format(*args), s.ljust(w), f"!{o}" are recorded with their operands, not evaluated',
                           'list(map(len, seq)) is the list of lengths in order; zip pairs in order up to the shorter sequence',
                           'print(text, file=f) writes text + line end to f; functools.partial(f, **k)(*a) = f(*a, **k)'],
              linkage=[('concepts.formats.Format["wiki-table"].dumpf', None)]))


# =====================================================================================================================
# table.load_file

def _filter_none(p, args, kw, requires=None):
    """filter(None, seq): ASSUMED library contract -- a subsequence in order: item j of the result is item idx(j) of seq for a strictly
    increasing index function idx (that exactly the truthy items are kept is part of the library contract, but no obligation here
    depends on it).  `requires(K)`: precondition of the unit on the number K of kept items."""
    f, it = args
    if kw or not isinstance(f, NoneV) or not isinstance(it, (IterV, SeqV)):
        raise Unsupported('filter(%r, %r)' % (f, it))
    n = next(p.eng.counter)
    K, idx = Int('filter.len!%d' % n), Function('filter.idx!%d' % n, I, I)
    i, j = Int('i'), Int('j')
    p.assume(it.length >= 0)
    p.assume(And(K >= 0, K <= it.length))
    if requires is not None:
        p.assume(requires(K))
    p.assume(ForAll([j], Implies(And(0 <= j, j < K), And(0 <= idx(j), idx(j) < it.length)), patterns=[idx(j)]))
    p.assume(ForAll([i, j], Implies(And(0 <= i, i < j, j < K), idx(i) < idx(j)), patterns=[MultiPattern(idx(i), idx(j))]))
    r = SeqV(lambda t: it.at(idx(t)), K, 'filter(None, %s)' % it.name)
    r.filter_of, r.idx = it, idx
    p.ghost.setdefault('filters', []).append(r)
    return r


def _table_load_unit():
    def make():
        def harness(path):
            FL, nfile = Function('file-line', I, T), Int('number_of_file_lines')
            path.assume(nfile >= 0)
            file = ObjV('file', {'__iter__': FuncV('file.__iter__', lambda p, a, k: IterV(lambda t: text(FL(t)), nfile, 'file'))}, name='file')
            calls = []
            hash_, bar = lit('#'), lit('|')

            def finish(path, env_, outcome):
                if not _no_exception(path, outcome):
                    return
                ok = len(calls) == 1 and outcome[1] is calls[0][2] and len(calls[0][0]) == 3 and not calls[0][1]
                path.oblige('post/returns-ContextArgs-of-three', 'post', BoolVal(ok))
                fl = path.ghost.get('filters', [])
                path.oblige('post/one-filter-of-the-file-lines', 'post', BoolVal(len(fl) == 1))
                if not ok or len(fl) != 1:
                    return
                L = fl[0]
                # L = the comment-stripped, stripped, non-blank lines of the file, in file order
                t = path.fresh_int('t')
                path.oblige('post/lines-are-the-stripped-parts-before-the-comment-sign', 'post',
                            And(L.filter_of.length == nfile,
                                same(path, L.filter_of.at(t), text(Strip(Before(FL(t), hash_))))) if isinstance(L.filter_of, (IterV, SeqV)) else BoolVal(False))

                def kept(j):
                    return Strip(Before(FL(L.idx(j)), hash_))
                objects, properties, bools = calls[0][0]
                head = StripChars(kept(0), bar)
                path.oblige('post/properties-are-the-stripped-cells-of-the-first-line', 'post',
                            same(path, properties, SeqV(lambda c: text(Strip(Part(head, bar, c))), NParts(head, bar), 'spec'))
                            if is_seq(properties) else BoolVal(False))
                path.oblige('post/objects-are-the-stripped-first-cells-of-the-further-lines', 'post',
                            same(path, objects, SeqV(lambda j: text(Strip(Before(kept(j + 1), bar))), L.length - 1, 'spec'))
                            if is_seq(objects) else BoolVal(False))

                def flags(j):
                    return StripChars(After(kept(j + 1), bar), bar)
                spec = SeqV(lambda j: SeqV(lambda c: BoolV(StrLen(Strip(Part(flags(j), bar, c))) > 0), NParts(flags(j), bar), 'spec-row'),
                            L.length - 1, 'spec')
                path.oblige('post/bools-are-the-non-blank-flags-of-the-further-lines', 'post',
                            same(path, bools, spec) if is_seq(bools) else BoolVal(False))

            def rows_obj(seq):
                o = ObjV('list', {}, name='table')
                o.rows = seq
                return o

            # requires: a header line and at least one object line among the non-blank lines (else IndexError / ValueError)
            loops = base_loops({'filter': FuncV('filter', lambda p, a, k: _filter_none(p, a, k, requires=lambda K: K >= 2)),
                                'ContextArgs': _context_args(calls)})
            loops['closed_form'] = {'ListComp#1': default_comprehension('ListComp#1', rows_obj)}
            loops['star_opaque'] = True
            return {'file': file}, loops, finish
        return axioms(), harness
    return make


register(Unit('formats.table.load_file', TAB, 'load_file', _table_load_unit(),
              assumptions=['requires at least two non-blank lines (header + one object line); fewer raise IndexError / ValueError (not modelled)',
                           'ASSUMED string-library contracts, all opaque: iterating the file gives its lines; s.partition(sep) gives (before, sep, after); '
                           's.strip() / s.strip(chars) / s.split(sep) are opaque texts / an opaque sequence of texts of s; bool(s) iff len(s) > 0',
                           'filter(None, seq) is the subsequence of the truthy items in order (index function idx); list() keeps items and order',
                           'zip(*rows) of a non-empty list of pairs gives (firsts, seconds) in order'],
              linkage=[('concepts.formats.Format["table"].loadf', None)]))
