"""Contract for contexts.Data.__init__ (C19): the constructor succeeds if and only if both name lists are non-empty,
duplicate-free and mutually disjoint and there is exactly one row per object with exactly one cell per property;
otherwise ValueError.  On success the Relation is built from (properties, objects, bools) in this order and the
bitset classes are taken from it (CtxInv, DESIGN 5.2).

Abstraction of the well-typed input: a name sequence is (len, nodup); two name sequences have a `disjoint` flag;
rows are (count, all_len(v): every row has v cells).  SET lemma used for `{len(b) for b in bools} != {len(properties)}`:
{f(x) | x in s} = {v}  <->  s non-empty and f(x) = v for all x in s.
"""
from z3 import And, Bool, BoolSort, BoolVal, Function, Implies, Int, IntSort, Not, Or

from pyvc.engine import BoolV, FuncV, IntV, ListV, NONE, ObjV, StrV, TupleV, Unsupported
from contracts import lib
from contracts.registry import Unit, register
from pyvc import bits

I = IntSort()


class NameSeq:
    def __init__(self, name, path):
        self.name = name
        self.len = Int(name + '.len')
        self.nodup = Bool(name + '.nodup')
        self.card = Int(name + '.card')
        path.assume(And(self.len >= 0, self.card >= 0, self.card <= self.len, (self.card == self.len) == self.nodup,
                        Implies(self.len == 0, self.nodup)))
        o = ObjV('NameSeq', {}, name=name)
        o.ns = self
        o.truth_fn = lambda: self.len > 0
        o.fields['__len__'] = FuncV('len', lambda p, a, k: IntV(self.len))
        o.fields['__tuple__'] = FuncV('tuple', lambda p, a, k: o)       # tuple(seq): the same names in the same order

        def as_set(p, a, k):
            st = ObjV('NameSet', {}, name='set(%s)' % name)
            st.of = self
            st.fields['__len__'] = FuncV('len', lambda p2, a2, k2: IntV(self.card))
            st.fields['isdisjoint'] = FuncV('isdisjoint', lambda p2, a2, k2: _disjoint(p2, self, a2[-1]))
            return st
        o.fields['__set__'] = FuncV('set', as_set)
        self.val = o


def _disjoint(p, a, other):
    b = getattr(other, 'ns', None) or getattr(other, 'of', None)
    if b is None or b is a:
        raise Unsupported('isdisjoint with %r' % (other,))
    return BoolV(p.ghost['disjoint'])


def _init_unit():
    def make():
        def harness(path):
            objs, props = NameSeq('objects', path), NameSeq('properties', path)
            disjoint = Bool('names.disjoint')
            path.ghost['disjoint'] = disjoint
            nrows = Int('bools.len')
            all_len = Function('bools.all_len', I, BoolSort())     # every row has v cells
            path.assume(nrows >= 0)
            bools = ObjV('Rows', {}, name='bools')
            bools.fields['__len__'] = FuncV('len', lambda p, a, k: IntV(nrows))

            def lenset(interp, env, node):
                # closed form of {len(b) for b in bools}
                g = node.generators[0]
                it = interp.eval(g.iter, env)
                ok = it is bools and not g.ifs and isinstance(node.elt, __import__('ast').Call)
                path.oblige('closed-form/row-length-set', 'post', BoolVal(ok))
                st = ObjV('LenSet', {}, name='{len(b) for b in bools}')

                def eq(p, a, k):
                    other = a[1]
                    if getattr(other, 'cls', None) != 'SetDisplay' or len(other.items) != 1 or not isinstance(other.items[0], IntV):
                        raise Unsupported('comparison of the row-length set with %r' % (other,))
                    v = other.items[0].t
                    # SET lemma: {len(b) | b in bools} = {v}  <->  bools non-empty and every row has v cells
                    return BoolV(And(nrows >= 1, all_len(v)))
                st.fields['__eq__'] = FuncV('set.__eq__', eq)
                return st
            rel_calls = []

            def relation(p, args, kw):
                rel_calls.append(args)
                ok = (len(args) == 5 and not kw and getattr(args[0], 'value', None) == 'Properties'
                      and getattr(args[1], 'value', None) == 'Objects' and args[2] is props.val and args[3] is objs.val and args[4] is bools)
                p.oblige('pre@Relation/arguments', 'pre@call', BoolVal(ok))
                # requires of Relation.__new__ (DESIGN 5.1): duplicate-free members, >= 1 row, one row per y-member, rectangular
                p.oblige('pre@Relation/requires', 'pre@call',
                         And(props.nodup, objs.nodup, nrows >= 1, nrows == objs.len, all_len(props.len)))
                x = ObjV('Vectors', {'BitSet': ObjV('BitSetClass', {}, name='Properties')}, name='x')
                y = ObjV('Vectors', {'BitSet': ObjV('BitSetClass', {}, name='Objects')}, name='y')
                r = ObjV('Relation', {}, name='relation')
                r.unpack_items = [x, y]
                return r
            matrices = ObjV('module', {'Relation': FuncV('matrices.Relation', relation)}, name='matrices')
            this = ObjV('Context', {}, name='self')
            # the name collections arrive as arbitrary iterables (possibly one-shot): the ONLY thing the constructor may do with them is
            # materialise them once with tuple(...) -- everything afterwards works on the tuples
            def oneshot(ns, nm):
                o = ObjV('Iterable', {}, name=nm + ' (as given)')
                used = []

                def tup(p, a, k):
                    p.oblige('pre@tuple/one-shot-iterable-consumed-once', 'pre@call', BoolVal(not used))
                    used.append(1)
                    return ns.val
                o.fields['__tuple__'] = FuncV('tuple', tup)
                return o
            env = {'self': this, 'objects': oneshot(objs, 'objects'), 'properties': oneshot(props, 'properties'), 'bools': bools}
            g = dict(lib.builtins(), matrices=matrices)
            opaque_list = lambda interp, env_, node: ObjV('NameList', {}, name='common')
            valid = And(objs.len >= 1, props.len >= 1, objs.nodup, props.nodup, disjoint, nrows == objs.len,
                        nrows >= 1, all_len(props.len))

            def finish(path, env_, outcome):
                kind, val = outcome
                if kind == 'raise':
                    path.oblige('post/ill-formed-raises-ValueError', 'post', And(BoolVal(val == 'ValueError'), Not(valid)))
                    path.oblige('post/no-relation-built', 'post', BoolVal(not rel_calls))
                    return
                path.oblige('post/accepted-iff-well-formed', 'post', valid)
                ok = (len(rel_calls) == 1 and this.fields.get('_intents') is not None
                      and this.fields.get('_intents').name == 'x' and this.fields.get('_extents').name == 'y'
                      and this.fields.get('_Properties') is this.fields['_intents'].fields['BitSet']
                      and this.fields.get('_Objects') is this.fields['_extents'].fields['BitSet'])
                path.oblige('post/CtxInv-fields', 'post', BoolVal(ok))
            return env, {'globals': g, 'closed_form': {'SetComp#0': lenset, 'ListComp#0': opaque_list}}, finish
        return bits.axioms(), harness
    return make


register(Unit('contexts.__init__', 'concepts/contexts.py', 'Data.__init__', _init_unit(),
              assumptions=['well-typed input: names hashable, bools a sized sequence of sized rows',
                           'builtins: len, set (cardinality = length iff duplicate-free), isdisjoint, set equality lemma for the row-length set',
                           'Relation.__new__ establishes PairEnv for both Vectors objects under its stated requires (bitsets contracts; bounded)'],
              linkage=[('type(ctx).__init__', None)]))


# =============================================================================================
# Data.fromdict (C19, C11): acceptance iff well-formed, ValueError otherwise; cells bools[r][i] <-> i in context[r]

def _fromdict_unit():
    from z3 import ForAll, Ints, Or, If
    from pyvc.engine import IterV, SeqV, NoneV, PyRaise, truthy

    def make():
        def harness(path):
            B = BoolSort()
            has = {k: Bool('has.' + k) for k in ('objects', 'properties', 'context', 'lattice')}
            objs, props = NameSeq('objects', path), NameSeq('properties', path)
            disjoint = Bool('names.disjoint')
            path.ghost['disjoint'] = disjoint
            isstr = {'objects': Function('isstr.objects', I, B), 'properties': Function('isstr.properties', I, B)}
            nrows = Int('context.len')
            path.assume(nrows >= 0)
            row_nodup, row_inrange = Function('row.nodup', I, B), Function('row.inrange', I, B)
            cell = Function('row.has', I, I, B)
            t_, i_ = Ints('t i')
            lat_nonempty = Bool('lattice.nonempty')
            flags = {k: path.fresh_bool(k) for k in ('ignore_lattice', 'require_lattice', 'raw')}

            # ---- the values of the dict
            for ns, key in ((objs, 'objects'), (props, 'properties')):
                def it(p, a, k, _ns=ns, _key=key):
                    def at(t):
                        o = ObjV('Item', {}, name='%s[%s]' % (_key, t))
                        o.isinstance_fn = lambda names, _t=t: isstr[_key](_t) if 'str' in names else BoolVal(False)
                        return o
                    return IterV(at, _ns.len, 'iter(%s)' % _key)
                ns.val.fields['__iter__'] = FuncV('iter', it)

            def row(t):
                r = ObjV('Row', {}, name='context[%s]' % t)
                rlen, rcard = Function('row.len', I, I)(t), Function('row.card', I, I)(t)
                path.assume(And(rcard >= 0, rcard <= rlen, (rcard == rlen) == row_nodup(t)))
                r.fields['__len__'] = FuncV('len', lambda p, a, k: IntV(rlen))

                def as_set(p, a, k):
                    st = ObjV('RowSet', {}, name='set(context[%s])' % t)
                    st.fields['__len__'] = FuncV('len', lambda p2, a2, k2: IntV(rcard))

                    def issubset(p2, a2, k2):
                        ok = getattr(a2[-1], 'is_index_set', False)
                        p2.oblige('pre@issubset/against-the-column-indexes', 'pre@call', BoolVal(ok))
                        return BoolV(row_inrange(t))
                    f = FuncV('set.issubset', issubset)
                    f.is_method = True
                    st.fields['issubset'] = f
                    c = FuncV('set.__contains__', lambda p2, a2, k2: BoolV(cell(t, a2[-1].t)))
                    c.is_method = True
                    st.fields['__contains__'] = c
                    st.row = t
                    return st
                r.fields['__set__'] = FuncV('set', as_set)
                return r
            context = ObjV('Rows', {}, name='context')
            context.fields['__len__'] = FuncV('len', lambda p, a, k: IntV(nrows))
            context.fields['__iter__'] = FuncV('iter', lambda p, a, k: IterV(row, nrows, 'iter(context)'))
            lattice = ObjV('LatticeList', {}, name='lattice')
            lattice.truth_fn = lambda: lat_nonempty
            values = {'objects': objs.val, 'properties': props.val, 'context': context, 'lattice': lattice}

            d = ObjV('dict', {}, name='d')

            def d_get(p, a, k, strict):
                key = a[1].value
                if p.branch(has[key]):
                    return values[key]
                if strict:
                    raise PyRaise('KeyError')
                return NONE
            d.fields['__getitem__'] = FuncV('dict.__getitem__', lambda p, a, k: d_get(p, a, k, True))
            g_ = FuncV('dict.get', lambda p, a, k: d_get(p, a, k, False))
            g_.is_method = True
            d.fields['get'] = g_
            c_ = FuncV('dict.__contains__', lambda p, a, k: BoolV(has[a[-1].value]))
            c_.is_method = True
            d.fields['__contains__'] = c_

            def set_(p, args, kw):
                (v,) = args
                if isinstance(v, SeqV):           # set(indexes): the set of column indexes 0..len(properties)-1
                    o = ObjV('IndexSet', {}, name='set(indexes)')
                    ok = isinstance(v, SeqV)
                    tt = p.fresh_int('t')
                    p.oblige('closed-form/indexes-are-0..m-1', 'post', And(v.length == props.len, v.at(tt).t == tt))
                    o.is_index_set = True
                    return o
                if isinstance(v, ObjV) and '__set__' in v.fields:
                    return v.fields['__set__'].fn(p, [v], {})
                raise Unsupported('set of %r' % (v,))

            created, fromlist_calls = [], []

            def ctor(p, args, kw):
                a = args[1:] if args and args[0] is cls else args
                ok = len(a) == 3 and a[0] is objs.val and a[1] is props.val and isinstance(a[2], (IterV, SeqV))
                p.oblige('pre@cls/arguments', 'pre@call', BoolVal(ok))
                if not ok:
                    raise Unsupported('constructor call shape')
                rows = a[2]
                p.oblige('pre@cls/one-row-per-context-row', 'pre@call', rows.length == nrows)
                # the rows are produced lazily (map over _make_set): building the list evaluates every row; an invalid row raises
                allok = ForAll([t_], Implies(And(0 <= t_, t_ < nrows), And(row_nodup(t_), row_inrange(t_))), patterns=[row_nodup(t_)])
                if p.branch(allok):
                    tt = p.fresh_int('t')
                    p.assume(And(0 <= tt, tt < nrows))
                    r = rows.at(tt)
                    ii = p.fresh_int('i')
                    okr = isinstance(r, (IterV, SeqV))
                    # accepted input is represented faithfully: bools[r][i] <-> i in context[r], one cell per property
                    p.oblige('cells/row-shape', 'post', And(r.length == props.len) if okr else BoolVal(False))
                    if okr:
                        p.oblige('cells/faithful', 'post', Implies(And(0 <= ii, ii < props.len), truthy(r.at(ii)) == cell(tt, ii)))
                else:
                    w = p.fresh_int('w')
                    p.assume(And(0 <= w, w < nrows, Not(And(row_nodup(w), row_inrange(w)))))
                    rows.at(w)         # must raise
                    p.oblige('rows/invalid-row-raises', 'post', BoolVal(False))
                # Context.__init__ (unit contexts.__init__) with rows of exactly len(properties) cells, one per context row
                valid = And(objs.len >= 1, props.len >= 1, objs.nodup, props.nodup, disjoint, nrows == objs.len, nrows >= 1)
                if not p.branch(valid):
                    raise PyRaise('ValueError')
                inst = ObjV('Context', {}, name='inst')
                inst.fields['__dict__'] = ObjV('dict', {'__contains__': FuncV('contains', lambda p2, a2, k2: BoolV('lattice' in inst.fields and a2[-1].value == 'lattice'))})
                inst.fields['__dict__'].fields['__contains__'].is_method = True
                created.append(inst)
                return inst
            cls = ObjV('class', {'__call__': FuncV('Context', ctor)}, name='cls')
            lattices = ObjV('module', {'Lattice': ObjV('class', {'_fromlist': FuncV(
                'Lattice._fromlist', lambda p, a, k: fromlist_calls.append(list(a)) or ObjV('Lattice', {}, name='stored-lattice'))}, name='Lattice')}, name='lattices')
            g = dict(lib.builtins(), set=FuncV('set', set_), lattices=lattices)
            env = {'cls': cls, 'd': d, 'ignore_lattice': BoolV(flags['ignore_lattice']), 'require_lattice': BoolV(flags['require_lattice']),
                   'raw': BoolV(flags['raw'])}
            allstr = lambda key, ns: ForAll([t_], Implies(And(0 <= t_, t_ < ns.len), isstr[key](t_)), patterns=[isstr[key](t_)])
            wellformed = And(has['objects'], has['properties'], has['context'], allstr('objects', objs), allstr('properties', props),
                             nrows == objs.len, Implies(flags['require_lattice'], has['lattice']), Implies(has['lattice'], lat_nonempty),
                             ForAll([t_], Implies(And(0 <= t_, t_ < nrows), And(row_nodup(t_), row_inrange(t_))), patterns=[row_nodup(t_)]),
                             objs.len >= 1, props.len >= 1, objs.nodup, props.nodup, disjoint, nrows >= 1)

            def finish(path, env_, outcome):
                kind, val = outcome
                if kind == 'raise':
                    path.oblige('post/ill-formed-raises-ValueError', 'post', And(BoolVal(val == 'ValueError'), Not(wellformed)))
                    # a missing required key: the message names exactly the missing keys, in the order objects, properties, context
                    exc = path.ghost.get('raised')
                    msg = (getattr(exc, 'exc_args', None) or [None])[0]
                    parts = getattr(msg, 'parts', None) or []
                    lits = ''.join(x[1] for x in parts if x[0] == 'lit')
                    if 'missing required keys' in lits:
                        from pyvc.engine import ListV, StrV
                        lists = [x[1] for x in parts if x[0] == 'fmt' and isinstance(x[1], ListV)]
                        okm = len(lists) == 1 and all(isinstance(v, StrV) and v.value is not None for v in lists[0].items)
                        named = [v.value for v in lists[0].items] if okm else []
                        path.oblige('post/message-names-exactly-the-missing-keys', 'post',
                                    And(BoolVal(okm and named == [k for k in ('objects', 'properties', 'context') if k in named]),
                                        *[BoolVal(k in named) == Not(has[k]) for k in ('objects', 'properties', 'context')]))
                    return
                path.oblige('post/accepted-iff-well-formed', 'post', wellformed)
                ok = len(created) == 1 and val is created[0]
                path.oblige('post/returns-the-new-context', 'post', BoolVal(ok))
                want = And(Not(flags['ignore_lattice']), has['lattice'])
                path.oblige('post/stored-lattice-attached-iff-present-and-not-ignored', 'post', want == BoolVal(len(fromlist_calls) == 1))
                if len(fromlist_calls) == 1 and ok:
                    a = fromlist_calls[0]
                    path.oblige('post/_fromlist-arguments', 'post', BoolVal(a[-3] is val and a[-2] is lattice and isinstance(a[-1], BoolV))
                                if len(a) >= 3 else BoolVal(False))
                    if len(a) >= 3 and isinstance(a[-1], BoolV):
                        path.oblige('post/_fromlist-raw-flag', 'post', a[-1].t == flags['raw'])
                    path.oblige('post/lattice-stored', 'post', BoolVal('lattice' in val.fields))
            return env, {'globals': g, 'closed_form': {}}, finish
        return bits.axioms(), harness
    return make


register(Unit('contexts.fromdict', 'concepts/contexts.py', 'Data.fromdict', _fromdict_unit(),
              assumptions=['well-typed dict: values are sized sequences of hashables; `lattice` is absent or a list (a literal None value is not modelled)',
                           'contract of Context.__init__ (unit contexts.__init__) at the call cls(objects, properties, bools)',
                           'builtins: all(), isinstance, set (cardinality = length iff no repeats), issubset, range, tuple, map (lazy, per element)',
                           'contract of Lattice._fromlist is assumed here (C11: bounded)'],
              linkage=[('concepts.Context.fromdict', None)], max_paths=3000))
