"""Contract for contexts.Data.__init__ (C19): the constructor succeeds if and only if both name lists are non-empty,
duplicate-free and mutually disjoint and there is exactly one row per object with exactly one cell per property;
otherwise ValueError.  On success the Relation is built from (properties, objects, bools) in this order and the
bitset classes are taken from it (CtxInv, DESIGN 5.2).

Abstraction of the well-typed input: a name sequence is (len, nodup); two name sequences have a `disjoint` flag;
rows are (count, all_len(v): every row has v cells).  SET lemma used for `{len(b) for b in bools} != {len(properties)}`:
{f(x) | x in s} = {v}  <->  s non-empty and f(x) = v for all x in s.
"""
from z3 import And, Bool, BoolSort, BoolVal, Function, Implies, Int, IntSort, Not, Or

from pyvc.engine import BoolV, FuncV, IntV, ListV, NONE, ObjV, StrV, TupleV, Unsupported
from contracts import lib
from contracts.registry import Unit, register
from pyvc import bits

I = IntSort()


class NameSeq:
    def __init__(self, name, path):
        self.name = name
        self.len = Int(name + '.len')
        self.nodup = Bool(name + '.nodup')
        self.card = Int(name + '.card')
        path.assume(And(self.len >= 0, self.card >= 0, self.card <= self.len, (self.card == self.len) == self.nodup,
                        Implies(self.len == 0, self.nodup)))
        o = ObjV('NameSeq', {}, name=name)
        o.ns = self
        o.truth_fn = lambda: self.len > 0
        o.fields['__len__'] = FuncV('len', lambda p, a, k: IntV(self.len))
        o.fields['__tuple__'] = FuncV('tuple', lambda p, a, k: o)       # tuple(seq): the same names in the same order

        def as_set(p, a, k):
            st = ObjV('NameSet', {}, name='set(%s)' % name)
            st.of = self
            st.fields['__len__'] = FuncV('len', lambda p2, a2, k2: IntV(self.card))
            st.fields['isdisjoint'] = FuncV('isdisjoint', lambda p2, a2, k2: _disjoint(p2, self, a2[-1]))
            return st
        o.fields['__set__'] = FuncV('set', as_set)
        self.val = o


def _disjoint(p, a, other):
    b = getattr(other, 'ns', None) or getattr(other, 'of', None)
    if b is None or b is a:
        raise Unsupported('isdisjoint with %r' % (other,))
    return BoolV(p.ghost['disjoint'])


def _init_unit():
    def make():
        def harness(path):
            objs, props = NameSeq('objects', path), NameSeq('properties', path)
            disjoint = Bool('names.disjoint')
            path.ghost['disjoint'] = disjoint
            nrows = Int('bools.len')
            all_len = Function('bools.all_len', I, BoolSort())     # every row has v cells
            path.assume(nrows >= 0)
            bools = ObjV('Rows', {}, name='bools')
            bools.fields['__len__'] = FuncV('len', lambda p, a, k: IntV(nrows))

            def lenset(interp, env, node):
                # closed form of {len(b) for b in bools}
                g = node.generators[0]
                it = interp.eval(g.iter, env)
                ok = it is bools and not g.ifs and isinstance(node.elt, __import__('ast').Call)
                path.oblige('closed-form/row-length-set', 'post', BoolVal(ok))
                st = ObjV('LenSet', {}, name='{len(b) for b in bools}')

                def eq(p, a, k):
                    other = a[1]
                    if getattr(other, 'cls', None) != 'SetDisplay' or len(other.items) != 1 or not isinstance(other.items[0], IntV):
                        raise Unsupported('comparison of the row-length set with %r' % (other,))
                    v = other.items[0].t
                    # SET lemma: {len(b) | b in bools} = {v}  <->  bools non-empty and every row has v cells
                    return BoolV(And(nrows >= 1, all_len(v)))
                st.fields['__eq__'] = FuncV('set.__eq__', eq)
                return st
            rel_calls = []

            def relation(p, args, kw):
                rel_calls.append(args)
                ok = (len(args) == 5 and not kw and getattr(args[0], 'value', None) == 'Properties'
                      and getattr(args[1], 'value', None) == 'Objects' and args[2] is props.val and args[3] is objs.val and args[4] is bools)
                p.oblige('pre@Relation/arguments', 'pre@call', BoolVal(ok))
                # requires of Relation.__new__ (DESIGN 5.1): duplicate-free members, >= 1 row, one row per y-member, rectangular
                p.oblige('pre@Relation/requires', 'pre@call',
                         And(props.nodup, objs.nodup, nrows >= 1, nrows == objs.len, all_len(props.len)))
                x = ObjV('Vectors', {'BitSet': ObjV('BitSetClass', {}, name='Properties')}, name='x')
                y = ObjV('Vectors', {'BitSet': ObjV('BitSetClass', {}, name='Objects')}, name='y')
                r = ObjV('Relation', {}, name='relation')
                r.unpack_items = [x, y]
                return r
            matrices = ObjV('module', {'Relation': FuncV('matrices.Relation', relation)}, name='matrices')
            this = ObjV('Context', {}, name='self')
            env = {'self': this, 'objects': objs.val, 'properties': props.val, 'bools': bools}
            g = dict(lib.builtins(), matrices=matrices)
            opaque_list = lambda interp, env_, node: ObjV('NameList', {}, name='common')
            valid = And(objs.len >= 1, props.len >= 1, objs.nodup, props.nodup, disjoint, nrows == objs.len,
                        nrows >= 1, all_len(props.len))

            def finish(path, env_, outcome):
                kind, val = outcome
                if kind == 'raise':
                    path.oblige('post/ill-formed-raises-ValueError', 'post', And(BoolVal(val == 'ValueError'), Not(valid)))
                    path.oblige('post/no-relation-built', 'post', BoolVal(not rel_calls))
                    return
                path.oblige('post/accepted-iff-well-formed', 'post', valid)
                ok = (len(rel_calls) == 1 and this.fields.get('_intents') is not None
                      and this.fields.get('_intents').name == 'x' and this.fields.get('_extents').name == 'y'
                      and this.fields.get('_Properties') is this.fields['_intents'].fields['BitSet']
                      and this.fields.get('_Objects') is this.fields['_extents'].fields['BitSet'])
                path.oblige('post/CtxInv-fields', 'post', BoolVal(ok))
            return env, {'globals': g, 'closed_form': {'SetComp#0': lenset, 'ListComp#0': opaque_list}}, finish
        return bits.axioms(), harness
    return make


register(Unit('contexts.__init__', 'concepts/contexts.py', 'Data.__init__', _init_unit(),
              assumptions=['well-typed input: names hashable, bools a sized sequence of sized rows',
                           'builtins: len, set (cardinality = length iff duplicate-free), isdisjoint, set equality lemma for the row-length set',
                           'Relation.__new__ establishes PairEnv for both Vectors objects under its stated requires (bitsets contracts; bounded)'],
              linkage=[('type(ctx).__init__', None)]))
