"""C15 spec-level lemmas (DESIGN section C15): the spec functions Up/Dn/Cl of two related tables.
L-DUP-COL / L-FULL-COL: adding a copy of an existing column, or a column that applies to every object, leaves the closure
operator on object sets -- hence the family of extents and the number of concepts -- unchanged.
L-DUP-ROW is the same statement for the transposed roles (the theory is symmetric: PairEnv.dual)."""
from z3 import And, BoolVal, ForAll, Implies, Int, Ints, Not, Or

from pyvc import bits
from pyvc.bits import bit
from contracts.ctxtheory import Ctx
from contracts.lemmas_z3 import Side, ext, st_cl_def, st_dom
from contracts.registry import Unit, register


def _dup_col(kind):
    def make():
        C1, C2 = Ctx('K1.'), Ctx('K2.')
        i, j = Ints('i j')
        j0 = Int('j0')
        col1, col2 = C1.O.self_at, C2.O.self_at
        link = [
            ('same-objects', C2.n == C1.n),
            ('one-more-column', C2.m == C1.m + 1),
            ('old-columns', ForAll([j], Implies(And(0 <= j, j < C1.m), col2(j) == col1(j)), patterns=[col2(j)])),
        ]
        if kind == 'dup':
            link += [('copied-column', And(0 <= j0, j0 < C1.m, col2(C1.m) == col1(j0)))]
        else:
            link += [('full-column', And(col2(C1.m) >= 0, ForAll([i], bit(col2(C1.m), i) == And(0 <= i, i < C1.n), patterns=[bit(col2(C1.m), i)])))]
        seen = {str(f) for _, f in C1.axioms()}
        axioms = C1.axioms() + [('K2.' + n, f) for n, f in C2.axioms() if str(f) not in seen] + link

        def prove(path):
            A = Int('A')
            path.assume(C1.is_objset(A))
            path.oblige('same-domain', 'lemma', C2.is_objset(A))
            S1, S2 = Side(C1, 'O'), Side(C2, 'O')
            path.assume([st_dom(S1, A), st_dom(S2, A)])
            k = Int('k')
            # Up2(A) restricted to the old columns is Up1(A)
            path.oblige('up-old-columns', 'lemma', ForAll([j], Implies(And(0 <= j, j < C1.m), bit(C2.Up(A), j) == bit(C1.Up(A), j)),
                                                         patterns=[bit(C2.Up(A), j), bit(C1.Up(A), j)]))
            if kind == 'dup':
                path.oblige('up-new-column', 'lemma', bit(C2.Up(A), C1.m) == bit(C1.Up(A), j0))
            ext(path, C2.Cl(A), C1.Cl(A))
            path.oblige('closure-unchanged', 'lemma', C2.Cl(A) == C1.Cl(A))
        return axioms, prove
    return make


register(Unit('lemma.dup_col', None, None, _dup_col('dup'), assumptions=['definitions of Up/Dn/Cl for two tables related by the stated link axioms']))
register(Unit('lemma.full_col', None, None, _dup_col('full'), assumptions=['definitions of Up/Dn/Cl for two tables related by the stated link axioms']))


def _perm_col():
    """L-PERM (columns): permuting the columns (labels moving with them) leaves the closure on object sets unchanged and
    relabels intents: j in Up2(A) <-> pi(j) in Up1(A).  Row permutations are the same statement for the transposed table
    (the theory and the verified closures are symmetric in rows/columns: PairEnv.dual)."""
    from z3 import Function, IntSort
    C1, C2 = Ctx('K1.'), Ctx('K2.')
    pi, pinv = Function('pi', IntSort(), IntSort()), Function('pi.inv', IntSort(), IntSort())
    j = Int('j')
    col1, col2 = C1.O.self_at, C2.O.self_at
    rngm = lambda x: And(0 <= x, x < C1.m)
    link = [
        ('same-shape', And(C2.n == C1.n, C2.m == C1.m)),
        ('pi', ForAll([j], Implies(rngm(j), And(rngm(pi(j)), pinv(pi(j)) == j)), patterns=[pi(j)])),
        ('pi.onto', ForAll([j], Implies(rngm(j), And(rngm(pinv(j)), pi(pinv(j)) == j)), patterns=[pinv(j)])),
        ('permuted-columns', ForAll([j], Implies(rngm(j), col2(j) == col1(pi(j))), patterns=[col2(j)])),
    ]
    seen = {str(f) for _, f in C1.axioms()}
    axioms = C1.axioms() + [('K2.' + n, f) for n, f in C2.axioms() if str(f) not in seen] + link

    def prove(path):
        A = Int('A')
        path.assume(C1.is_objset(A))
        path.oblige('same-domain', 'lemma', C2.is_objset(A))
        S1, S2 = Side(C1, 'O'), Side(C2, 'O')
        path.assume([st_dom(S1, A), st_dom(S2, A)])
        path.oblige('intent-relabelled', 'lemma', ForAll([j], Implies(rngm(j), bit(C2.Up(A), j) == bit(C1.Up(A), pi(j))),
                                                         patterns=[bit(C2.Up(A), j)]))
        path.oblige('intent-relabelled-converse', 'lemma', ForAll([j], Implies(rngm(j), bit(C1.Up(A), j) == bit(C2.Up(A), pinv(j))), patterns=[bit(C1.Up(A), j)]))
        ext(path, C2.Cl(A), C1.Cl(A))
        path.oblige('closure-unchanged', 'lemma', C2.Cl(A) == C1.Cl(A))
    return axioms, prove


register(Unit('lemma.perm_col', None, None, _perm_col, assumptions=['definitions of Up/Dn/Cl for two tables related by a column permutation']))
