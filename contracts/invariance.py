"""C15 spec-level lemmas (DESIGN section C15): the spec functions Up/Dn/Cl of two related tables.
L-DUP-COL / L-FULL-COL: adding a copy of an existing column, or a column that applies to every object, leaves the closure
operator on object sets -- hence the family of extents and the number of concepts -- unchanged.
L-DUP-ROW is the same statement for the transposed roles (the theory is symmetric: PairEnv.dual)."""
from z3 import And, BoolVal, ForAll, Implies, Int, Ints, Not, Or

from pyvc import bits
from pyvc.bits import bit
from contracts.ctxtheory import Ctx
from contracts.lemmas_z3 import Side, ext, st_cl_def, st_dom
from contracts.registry import Unit, register


def _corollaries(path, C1, C2):
    """Label-level corollaries of `closure-unchanged` (proved above for an arbitrary object set, hence usable for any set):
    the family of extents -- and everything defined from it: order, covering relation, joins, meets, the number of concepts --
    is the same for both tables."""
    from pyvc.bits import band, bor
    sub = C1.sets.subset
    e, f, g = Ints('e f g')
    isx1 = lambda v: And(C1.is_objset(v), C1.Cl(v) == v)
    isx2 = lambda v: And(C2.is_objset(v), C2.Cl(v) == v)
    x = Int('x')
    path.oblige('corollary/same-domain-iff', 'lemma', C1.is_objset(x) == C2.is_objset(x))       # same number of objects
    same = lambda v: And(C1.is_objset(v) == C2.is_objset(v), Implies(C1.is_objset(v), C2.Cl(v) == C1.Cl(v)))
    # instances of the two lemmas just proved (they hold for every object set)
    U = bor(e, f)
    path.assume([same(e), same(f), same(g), same(U), same(band(e, f))])
    path.oblige('corollary/extent-family-unchanged', 'lemma', isx1(e) == isx2(e))
    path.oblige('corollary/join-unchanged', 'lemma', Implies(And(C1.is_objset(e), C1.is_objset(f), C1.is_objset(U)), C2.Cl(U) == C1.Cl(U)))
    path.oblige('corollary/meet-unchanged', 'lemma', Implies(And(isx1(e), isx1(f)), isx1(band(e, f)) == isx2(band(e, f))))
    cov = lambda isx: And(isx(e), isx(f), sub(e, f), e != f, Implies(And(isx(g), sub(e, g), e != g, sub(g, f)), g == f))
    path.oblige('corollary/cover-condition-unchanged', 'lemma', cov(isx1) == cov(isx2))


def _dup_col(kind):
    def make():
        C1, C2 = Ctx('K1.'), Ctx('K2.')
        i, j = Ints('i j')
        j0 = Int('j0')
        col1, col2 = C1.O.self_at, C2.O.self_at
        link = [
            ('same-objects', C2.n == C1.n),
            ('one-more-column', C2.m == C1.m + 1),
            ('old-columns', ForAll([j], Implies(And(0 <= j, j < C1.m), col2(j) == col1(j)), patterns=[col2(j)])),
        ]
        if kind == 'dup':
            link += [('copied-column', And(0 <= j0, j0 < C1.m, col2(C1.m) == col1(j0)))]
        else:
            link += [('full-column', And(col2(C1.m) >= 0, ForAll([i], bit(col2(C1.m), i) == And(0 <= i, i < C1.n), patterns=[bit(col2(C1.m), i)])))]
        seen = {str(f) for _, f in C1.axioms()}
        axioms = C1.axioms() + [('K2.' + n, f) for n, f in C2.axioms() if str(f) not in seen] + link

        def prove(path):
            A = Int('A')
            path.assume(C1.is_objset(A))
            path.oblige('same-domain', 'lemma', C2.is_objset(A))
            S1, S2 = Side(C1, 'O'), Side(C2, 'O')
            path.assume([st_dom(S1, A), st_dom(S2, A)])
            k = Int('k')
            # Up2(A) restricted to the old columns is Up1(A)
            path.oblige('up-old-columns', 'lemma', ForAll([j], Implies(And(0 <= j, j < C1.m), bit(C2.Up(A), j) == bit(C1.Up(A), j)),
                                                         patterns=[bit(C2.Up(A), j), bit(C1.Up(A), j)]))
            if kind == 'dup':
                path.oblige('up-new-column', 'lemma', bit(C2.Up(A), C1.m) == bit(C1.Up(A), j0))
            ext(path, C2.Cl(A), C1.Cl(A))
            path.oblige('closure-unchanged', 'lemma', C2.Cl(A) == C1.Cl(A))
            del path.pc[:]          # drop the hypothesis on A: the corollaries use the lemma as instances
            _corollaries(path, C1, C2)
        return axioms, prove
    return make


register(Unit('lemma.dup_col', None, None, _dup_col('dup'), assumptions=['definitions of Up/Dn/Cl for two tables related by the stated link axioms']))
register(Unit('lemma.full_col', None, None, _dup_col('full'), assumptions=['definitions of Up/Dn/Cl for two tables related by the stated link axioms']))


def _perm_col():
    """L-PERM (columns): permuting the columns (labels moving with them) leaves the closure on object sets unchanged and
    relabels intents: j in Up2(A) <-> pi(j) in Up1(A).  Row permutations are the same statement for the transposed table
    (the theory and the verified closures are symmetric in rows/columns: PairEnv.dual)."""
    from z3 import Function, IntSort
    C1, C2 = Ctx('K1.'), Ctx('K2.')
    pi, pinv = Function('pi', IntSort(), IntSort()), Function('pi.inv', IntSort(), IntSort())
    j = Int('j')
    col1, col2 = C1.O.self_at, C2.O.self_at
    rngm = lambda x: And(0 <= x, x < C1.m)
    link = [
        ('same-shape', And(C2.n == C1.n, C2.m == C1.m)),
        ('pi', ForAll([j], Implies(rngm(j), And(rngm(pi(j)), pinv(pi(j)) == j)), patterns=[pi(j)])),
        ('pi.onto', ForAll([j], Implies(rngm(j), And(rngm(pinv(j)), pi(pinv(j)) == j)), patterns=[pinv(j)])),
        ('permuted-columns', ForAll([j], Implies(rngm(j), col2(j) == col1(pi(j))), patterns=[col2(j)])),
    ]
    seen = {str(f) for _, f in C1.axioms()}
    axioms = C1.axioms() + [('K2.' + n, f) for n, f in C2.axioms() if str(f) not in seen] + link

    def prove(path):
        A = Int('A')
        path.assume(C1.is_objset(A))
        path.oblige('same-domain', 'lemma', C2.is_objset(A))
        S1, S2 = Side(C1, 'O'), Side(C2, 'O')
        path.assume([st_dom(S1, A), st_dom(S2, A)])
        path.oblige('intent-relabelled', 'lemma', ForAll([j], Implies(rngm(j), bit(C2.Up(A), j) == bit(C1.Up(A), pi(j))),
                                                         patterns=[bit(C2.Up(A), j)]))
        path.oblige('intent-relabelled-converse', 'lemma', ForAll([j], Implies(rngm(j), bit(C1.Up(A), j) == bit(C2.Up(A), pinv(j))), patterns=[bit(C1.Up(A), j)]))
        ext(path, C2.Cl(A), C1.Cl(A))
        path.oblige('closure-unchanged', 'lemma', C2.Cl(A) == C1.Cl(A))
        del path.pc[:]
        _corollaries(path, C1, C2)
    return axioms, prove


register(Unit('lemma.perm_col', None, None, _perm_col, assumptions=['definitions of Up/Dn/Cl for two tables related by a column permutation']))


def _transpose():
    """L-TRANSPOSE: the transposed table has the derivation operators exchanged, hence exactly the dual lattice: (A, B) is a concept
    of K1 iff (B, A) is a concept of K2; the order is reversed (A <= A' iff Up(A') <= Up(A)); the intent of a join is the meet of the
    intents and the intent of a meet is the closure of the union of the intents (join and meet exchanged)."""
    from pyvc.bits import band, bor
    from contracts.fcbo import is_concept
    from contracts.lemmas_z3 import st_antitone, st_extensive, st_up_cl, use_galois
    C1, C2 = Ctx('K1.'), Ctx('K2.')
    i = Int('i')
    link = [
        ('shapes-swapped', And(C2.n == C1.m, C2.m == C1.n)),
        ('rows-are-the-columns', ForAll([i], Implies(And(0 <= i, i < C1.m), C2.O.other_at(i) == C1.O.self_at(i)), patterns=[C2.O.other_at(i)])),
        ('columns-are-the-rows', ForAll([i], Implies(And(0 <= i, i < C1.n), C2.O.self_at(i) == C1.O.other_at(i)), patterns=[C2.O.self_at(i)])),
    ]
    seen = {str(f) for _, f in C1.axioms()}
    axioms = C1.axioms() + [('K2.' + n, f) for n, f in C2.axioms() if str(f) not in seen] + link

    def prove(path):
        A, A2, B = Ints('A A2 B')
        O1, P1, O2, P2 = Side(C1, 'O'), Side(C1, 'P'), Side(C2, 'O'), Side(C2, 'P')
        path.oblige('domains-swapped', 'lemma', And(C1.is_propset(B) == C2.is_objset(B), C1.is_objset(A) == C2.is_propset(A)))
        for S in (O1, P2):
            path.assume(st_dom(S, A))
        for S in (P1, O2):
            path.assume(st_dom(S, B))
        ext(path, C2.Up(B), C1.Dn(B))
        path.oblige('up2-is-dn1', 'lemma', Implies(C1.is_propset(B), C2.Up(B) == C1.Dn(B)))
        ext(path, C2.Dn(A), C1.Up(A))
        path.oblige('dn2-is-up1', 'lemma', Implies(C1.is_objset(A), C2.Dn(A) == C1.Up(A)))
        path.oblige('concept-swapped', 'lemma', is_concept(C1, A, B) == is_concept(C2, B, A))
        # ---- within one table: order reversed on intents, join/meet exchanged
        del path.pc[:]
        sub = C1.sets.subset
        isx = lambda v: And(C1.is_objset(v), C1.Cl(v) == v)
        path.assume(And(isx(A), isx(A2)))
        for X in (A, A2, bor(A, A2), band(A, A2)):
            use_galois(path, O1, X)
        for Y in (C1.Up(A), C1.Up(A2), bor(C1.Up(A), C1.Up(A2))):
            use_galois(path, P1, Y)
        path.assume([st_antitone(O1, A, A2), st_antitone(P1, C1.Up(A2), C1.Up(A))])
        path.oblige('order-reversed', 'lemma', sub(A, A2) == sub(C1.Up(A2), C1.Up(A)))
        ext(path, C1.Up(bor(A, A2)), band(C1.Up(A), C1.Up(A2)))
        path.oblige('union-derivation', 'lemma', C1.Up(bor(A, A2)) == band(C1.Up(A), C1.Up(A2)))
        path.oblige('intent-of-join-is-meet-of-intents', 'lemma', C1.Up(C1.Cl(bor(A, A2))) == band(C1.Up(A), C1.Up(A2)))
        BB = bor(C1.Up(A), C1.Up(A2))
        ext(path, C1.Dn(BB), band(A, A2))
        path.oblige('meet-is-derivation-of-the-union-of-intents', 'lemma', C1.Dn(BB) == band(A, A2))
        path.oblige('intent-of-meet-is-join-of-intents', 'lemma', C1.Up(band(A, A2)) == C1.Cl2(BB))
    return axioms, prove


register(Unit('lemma.transpose', None, None, _transpose,
              assumptions=['definitions of Up/Dn/Cl for a table and its transpose (link axioms: shapes swapped, rows = columns); instances of lemma.galois/galois2']))
