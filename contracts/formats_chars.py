"""CHARACTER-level round trip of the CXT format (C12): what `Cxt.loadf` reads back from the text `Cxt.dumpf` writes.

The line-level units of contracts/formats_lines.py prove WHICH lines are written and WHICH slice of the lines read becomes which
component, with the string layer assumed.  This module closes that layer for cxt as far as it can be closed:

  pyvc/texts.py        TEXT theory: texts as lists of characters; every lemma stated once as a schema over an interpretation
                       (z3 terms here, CPython's own str functions in the self-test)
  lemmas/Text.lean     the definitions (strip, split(), split(c), split(a+b), join, print-each-line, f'{n:d}', int(), row texts,
                       str.isspace) over `List Char` and the PROOFS of all the schemas marked "Lean"
  ASSUMED, VALIDATED   "CPython's functions compute the functions defined in Text.lean": pyvc/texts.py selftest() (CPython against
                       every schema and against a python copy of the definitions) and selftest_lean() (CPython against the Lean
                       definitions themselves, run with #eval) -- an enumerated scope, not a proof.

Units
  lemma.cxt.roundtrip             composition over the CONTRACTS of the proved units (iter_cxt_lines, Cxt.dumpf, Format.dumps / loads,
                                  Cxt.loadf): under REP below, Cxt.loads(Cxt.dumps(objects, properties, bools)) returns
                                  ContextArgs(objects, properties, bools) -- same lengths, same labels, same cells.
  formats.cxt.Cxt.loadf.written   the REAL code of Cxt.loadf executed by the engine on the written text, its string calls answered by
                                  the TEXT theory: the "assumed shape of the source" of the line-level unit (three parts, two counts,
                                  y + x + rows lines) is an OBLIGATION here (= no ValueError from the two unpackings), every
                                  character looked up in `values` must be shown to be a key (= no KeyError), and the result must be
                                  the given triple.  Same conclusion as the lemma, without restating the loadf contract by hand.

Every step is one of
  [contract]  the statement proved by another unit, used as a hypothesis (named in assumptions=[...]);
  [source]    a constant READ FROM THE SOURCE (SYMBOLS, Cxt.symbols, Cxt.values, Cxt.dumps_rstrip, Format.newline) and checked by an
              obligation;
  [library]   a stated library assumption (print / io.StringIO / f'{n:d}' = dec, ''.join = concatenation, and the identification
              of CPython's string functions with the definitions of Text.lean);
  [lean]      an instance of a theorem of lemmas/Text.lean: its premises are OBLIGATIONS (z3), only then is its conclusion assumed;
  [z3]        an obligation discharged by the solvers from the above.

REP, the representability precondition (each conjunct is NECESSARY: see the failures below)
  n = len(objects) >= 1, len(bools) == n, every row has m = len(properties) cells      (the asserts of iter_cxt_lines)
  m >= 1
  every object / property label x:  x != '',  '\\n' not in x,  '\\r' not in x,  x does not start or end with a whitespace
  character (str.isspace: '\\t' '\\n' '\\x0b' '\\x0c' '\\r' '\\x1c'-'\\x1f' ' ' '\\x85' '\\xa0' U+1680 U+2000-U+200A U+2028 U+2029 U+202F U+205F
  U+3000).  Inner whitespace other than '\\n' / '\\r' is fine ('x y', 'x\\x0cy', 'x\\u2028y' round-trip), so are U+FEFF, U+200B, '\\x00'.

NEGATIVE KNOWLEDGE: the real round trip Cxt.loads(Cxt.dumps(...)) on the UNCHANGED tree (confirmed with /venv/bin/python, objects
['a','b'], properties ['c','d'], bools [(True, False), (False, True)], one label replaced at a time):
  label ''       first object:      NO exception, WRONG result (['b','c'], ['d','X.'], [(False, True)]) -- the leading blank line is
                                    eaten by strip(), every later line shifts by one
                 elsewhere:         ValueError: too many values to unpack (expected 3)   (a blank line = one more '\\n\\n')
  label ' ', '\\x1c', '\\x85' (whitespace only)   first object: as ''; elsewhere: read back as ''
  label ' x', '\\tx', '\\x1cx', '\\xa0x', '\\u3000x', '\\u2028x', 'x ', 'x\\x0b', 'x\\x85', 'x\\x1f'   anywhere: read back as 'x'
  label 'x\\ny'  anywhere:          KeyError ('d' or 'y'): one line too many, a label line is decoded as a row
  label 'x\\n\\ny' anywhere:         ValueError: too many values to unpack (expected 3)
  label 'x\\ry'  anywhere:          KeyError: io.StringIO(newline=None) / a text-mode file turns '\\r' into '\\n' when writing / reading
  properties == []:                 bools comes back as [] instead of one empty tuple per object (the row lines are empty, strip()
                                    and the line count lose them)
  objects == []:                    AssertionError in iter_cxt_lines (set(map(len, bools)) is empty)
REP is EXACT on an enumerated scope (bounded/cxt_rep.py, 692 357 tables with n, m <= 2 over 24 labels, 14 of them not representable): the real
round trip succeeds if and only if REP holds (22 200 successes; 388 314 ValueError, 80 748 KeyError, 3 AssertionError, 201 092 WRONG RESULTS WITHOUT AN EXCEPTION).
NOT covered by the statement: files written by other programs (loadf accepts more than dumpf writes), `dump` / `load` through real files
(encodings, os.linesep; bounded side), dumps_rstrip = True (the unit requires the value False it reads from the source).
"""
import ast

from z3 import And, BoolSort, BoolVal, Const, ForAll, Function, If, Implies, Int, IntSort

from pyvc import bits, extract, texts
from pyvc.engine import BoolV, FuncV, IntV, IterV, ObjV, SeqV, StrV, Unsupported
from contracts.persist import meth
from contracts.registry import Unit, register

I, B = IntSort(), BoolSort()
CXT, BASE = 'concepts/formats/cxt.py', 'concepts/formats/base.py'
HEADER = 'B'


# ---------------------------------------------------------------------------------------------------------------------
# [source] the constants of the format, evaluated from the (possibly overridden) source text

def _const_eval(node, scope):
    """literals, names of the scope, dict displays, `{k: v for a, b in NAME.items()}`: all the class body of Cxt needs"""
    if isinstance(node, ast.Constant):
        return node.value
    if isinstance(node, ast.Name):
        if node.id not in scope:
            raise Unsupported('constant expression uses the unknown name %r' % node.id)
        return scope[node.id]
    if isinstance(node, ast.Dict) and all(k is not None for k in node.keys):
        return {_const_eval(k, scope): _const_eval(v, scope) for k, v in zip(node.keys, node.values)}
    if isinstance(node, ast.Tuple):
        return tuple(_const_eval(e, scope) for e in node.elts)
    if isinstance(node, ast.DictComp) and len(node.generators) == 1 and not node.generators[0].ifs:
        g = node.generators[0]
        it = g.iter
        if isinstance(it, ast.Call) and isinstance(it.func, ast.Attribute) and it.func.attr == 'items' and not it.args and not it.keywords:
            src = _const_eval(it.func.value, scope)
            if isinstance(src, dict) and isinstance(g.target, ast.Tuple) and all(isinstance(e, ast.Name) for e in g.target.elts) \
                    and len(g.target.elts) == 2:
                out = {}
                for kv in src.items():          # insertion order; a later item overwrites an earlier one, as in python
                    inner = dict(scope, **{e.id: x for e, x in zip(g.target.elts, kv)})
                    out[_const_eval(node.key, inner)] = _const_eval(node.value, inner)
                return out
    if isinstance(node, ast.UnaryOp) and isinstance(node.op, ast.Not):
        return not _const_eval(node.operand, scope)
    raise Unsupported('constant expression %s' % ast.dump(node)[:80])


def _simple_assigns(body, scope):
    for st in body:
        if isinstance(st, ast.Assign) and len(st.targets) == 1 and isinstance(st.targets[0], ast.Name):
            try:
                scope[st.targets[0].id] = _const_eval(st.value, scope)
            except Unsupported:
                scope.pop(st.targets[0].id, None)
    return scope


def _class_body(tree, name):
    for st in tree.body:
        if isinstance(st, ast.ClassDef) and st.name == name:
            return st
    raise Unsupported('no class %s' % name)


def _assigned(body):
    return {st.targets[0].id for st in body if isinstance(st, ast.Assign) and len(st.targets) == 1 and isinstance(st.targets[0], ast.Name)}


def cxt_constants():
    """{'symbols', 'values', 'dumps_rstrip', 'newline'} of the class Cxt as the class statement computes them: the attributes the
    body of Cxt assigns (evaluated in order over the module-level constants of cxt.py), else the defaults of Format (base.py);
    KeyError (the class) where neither assigns the name or the expression is outside the constant fragment"""
    _, base = extract.parse_file(BASE)
    _, mod = extract.parse_file(CXT)
    cls = _class_body(mod, 'Cxt')
    inherited = _simple_assigns(_class_body(base, 'Format').body, {})
    own = _simple_assigns(cls.body, _simple_assigns(mod.body, {}))
    assigned = _assigned(cls.body)
    out = {k: (own.get(k, KeyError) if k in assigned else inherited.get(k, KeyError)) for k in ('symbols', 'values', 'dumps_rstrip', 'newline')}
    out['subclass_of_Format'] = len(cls.bases) == 1 and isinstance(cls.bases[0], ast.Name) and cls.bases[0].id == 'Format'
    return out


# ---------------------------------------------------------------------------------------------------------------------
# applying a lemma schema: premises are obligations, then (and only then) the conclusion is assumed

def _q(lo, hi, body, pat):
    q = Int('q')
    return ForAll([q], Implies(And(lo <= q, q < hi), body(q)), patterns=[pat(q)])


def prove_items(path, tag, items):
    for it in items:
        if it[0] == 'fact':
            path.oblige('%s/%s' % (tag, it[1]), 'lemma', it[2])
        else:
            _, name, lo, hi, body, pat = it
            t = path.fresh_int('t')
            path.oblige('%s/%s' % (tag, name), 'lemma', Implies(And(lo <= t, t < hi), body(t)))
            path.assume(_q(lo, hi, body, pat))          # proved for an arbitrary t: holds for all


def assume_items(path, items):
    for it in items:
        path.assume(it[2] if it[0] == 'fact' else _q(*it[2:]))


def use(path, tag, schema):
    prem, concl = schema
    prove_items(path, tag + '/premise', prem)
    assume_items(path, concl)


def use_indexed(path, tag, lo, hi, schema_at, pat_at):
    """the schema at every index lo <= q < hi: premises proved at an arbitrary index t of the range, the conclusions assumed for all q
    (schema_at(t) -> (premises, conclusions), pat_at(q) -> the trigger term of the quantified conclusion)"""
    t, q, c = path.fresh_int('t'), Int('q'), Int('c')
    prem, concl = schema_at(t)
    guard = And(lo <= t, t < hi)
    for it in prem:
        if it[0] != 'fact':
            raise Unsupported('indexed schema with a quantified premise')
        path.oblige('%s/premise/%s' % (tag, it[1]), 'lemma', Implies(guard, it[2]))
    sub = lambda f: z3_subst(f, t, q)
    for it in concl:
        if it[0] == 'fact':
            path.assume(ForAll([q], Implies(sub(guard), sub(it[2])), patterns=[pat_at(q)]))
        else:
            _, _, lo2, hi2, body, pat = it
            path.assume(ForAll([q, c], Implies(And(sub(guard), sub(lo2) <= c, c < sub(hi2)), sub(body(c))), patterns=[sub(pat(c))]))


# ---------------------------------------------------------------------------------------------------------------------
# the written text and everything the lemma library says about it (shared by the two units)

class Written:
    """The abstract table (n objects, m properties, cells), REP, the constants of the source, the lines and the text written by
    Cxt.dumps, and the instances of the lemma library for that text."""

    def __init__(self, path, T, drop=()):
        """drop: names of REP conjuncts to leave out (used only by `necessity()`, the self-test of the precondition)"""
        self.T = T
        n, m = self.n, self.m = Int('len(objects)'), Int('len(properties)')
        Obj, Prp = self.Obj, self.Prp = Function('objects', I, T.Txt), Function('properties', I, T.Txt)
        cell, ncols = self.cell, self.ncols = Function('cell', I, I, B), Function('len(row)', I, I)
        Row = self.Row = Function('row-text', I, T.Txt)           # ''.join(symbols[v] for v in bools[r])
        nb = self.nb = Int('len(bools)')
        q = Int('q')
        path.assume(And(n >= 0, m >= 0, nb >= 0, ForAll([q], ncols(q) >= 0, patterns=[ncols(q)])))

        # ---- REP (hypotheses)
        def label(x):
            return And(T.ne(x), T.nonl(x), T.nocr(x), T.lead(x), T.trail(x))
        rep = {'one-row-per-object': nb == n, 'at-least-one-object': n >= 1, 'at-least-one-property': m >= 1,
               'one-cell-per-property': ForAll([q], Implies(And(0 <= q, q < nb), ncols(q) == m), patterns=[ncols(q)]),
               'object-labels-representable': ForAll([q], Implies(And(0 <= q, q < n), label(Obj(q))), patterns=[Obj(q)]),
               'property-labels-representable': ForAll([q], Implies(And(0 <= q, q < m), label(Prp(q))), patterns=[Prp(q)])}
        self.rep_names = sorted(rep)
        for name in self.rep_names:
            if name not in drop:
                path.assume(rep[name])
        for weaker in drop:                       # necessity(): a conjunct replaced by a weaker one ("all but one part of label")
            if weaker.startswith('label-without:'):
                part = weaker.split(':')[1]
                keep = [f for nm, f in (('ne', T.ne), ('nonl', T.nonl), ('nocr', T.nocr), ('lead', T.lead), ('trail', T.trail)) if nm != part]
                for seq, hi in ((Obj, n), (Prp, m)):
                    path.assume(ForAll([q], Implies(And(0 <= q, q < hi), And(*[f(seq(q)) for f in keep])), patterns=[seq(q)]))

        # ---- [source] the constants
        k = self.consts = cxt_constants()
        sym = k['symbols']
        ok_sym = isinstance(sym, dict) and set(sym) == {False, True} and len(sym) == 2 and all(isinstance(s, str) for s in sym.values())
        path.oblige('source/Cxt-is-a-Format-and-symbols-maps-False-and-True-to-texts', 'source', BoolVal(bool(k['subclass_of_Format'] and ok_sym)))
        path.oblige('source/dumps_rstrip-is-false', 'source', BoolVal(k['dumps_rstrip'] is not KeyError and not k['dumps_rstrip']))
        path.oblige('source/newline-is-None', 'source', BoolVal(k['newline'] is None))
        vals = k['values']
        ok_val = isinstance(vals, dict) and all(isinstance(s, str) and isinstance(b, bool) for s, b in vals.items())
        path.oblige('source/values-maps-texts-to-bools', 'source', BoolVal(ok_val))
        if not (ok_sym and ok_val):
            sym, vals = {False: '.', True: 'X'}, {}
        T.sym = lambda b: T.lit(sym[bool(b)])
        T.row_text, T.row_len, T.row_cell = (lambda r: Row(r)), (lambda r: ncols(r)), (lambda r, c: cell(r, c))
        for s, b in vals.items():                 # the dict `values` as read: its keys and what they map to
            path.assume(And(T.is_key(T.lit(s)), T.value_of(T.lit(s)) == b))
        B_, E_ = T.lit(HEADER), T.lit('')
        N, M = self.N, self.M = T.dec(n), T.dec(m)
        T.sym(True), T.sym(False)
        for _, f in T.literal_facts():            # the predicates evaluated on the literals 'B', '', the symbols, the keys of values
            path.assume(f)

        # ---- [contract] the lines (iter_cxt_lines; its REQUIRES, the two asserts of the function, from REP) ...
        t = path.fresh_int('t')
        path.oblige('contract/iter_cxt_lines-requires-a-row-per-object-at-least-one-and-a-cell-per-property', 'lemma',
                    And(nb == n, nb >= 1, Implies(And(0 <= t, t < nb), ncols(t) == m)))
        Tbl, All = self.Tbl, self.All = Const('table-lines', T.Lines), Const('all-lines', T.Lines)
        path.assume(And(T.llen(Tbl) == n + m + nb,
                        ForAll([q], Implies(And(0 <= q, q < n + m + nb),
                                            T.lat(Tbl, q) == If(q < n, Obj(q), If(q < n + m, Prp(q - n), Row(q - n - m)))), patterns=[T.lat(Tbl, q)])))
        path.assume(And(T.llen(All) == 5 + n + m + nb,
                        T.lat(All, 0) == B_, T.lat(All, 1) == E_, T.lat(All, 2) == N, T.lat(All, 3) == M, T.lat(All, 4) == E_,
                        ForAll([q], Implies(And(5 <= q, q < 5 + n + m + nb),
                                            T.lat(All, q) == If(q < 5 + n, Obj(q - 5), If(q < 5 + n + m, Prp(q - 5 - n), Row(q - 5 - n - m)))),
                               patterns=[T.lat(All, q)])))
        # ---- ... [lean] the numbers and the rows
        use(path, 'dec(n)', texts.L_dec(T, n))
        use(path, 'dec(m)', texts.L_dec(T, m))
        use(path, 'nows(dec(n))', texts.L_nows(T, N))
        use(path, 'nows(dec(m))', texts.L_nows(T, M))
        use_indexed(path, 'row', 0, nb, lambda t: texts.L_row(T, t), lambda q_: Row(q_))
        use_indexed(path, 'nows(row)', 0, nb, lambda t: texts.L_nows(T, Row(t)), lambda q_: Row(q_))
        # ---- [library] print / StringIO: the text
        use(path, 'written', texts.L_written(T, All))
        self.W = T.written(All)
        # ---- [lean] the parts of the text, the numbers, the lines of the table block, strip on every line
        use(path, 'parts', texts.L_source_parts(T, B_, N, M, All, Tbl))
        use(path, 'numbers', texts.L_numbers(T, N, M))
        use(path, 'table', texts.L_table_lines(T, Tbl))
        use_indexed(path, 'strip(line)', 0, T.llen(Tbl), lambda t: texts.L_strip_id(T, T.lat(Tbl, t)), lambda q_: T.lat(Tbl, q_))


def z3_subst(f, old, new):
    import z3
    return z3.substitute(f, (old, new)) if z3.is_expr(f) else f


def under(path, guard, thunk):
    """run thunk with `guard` among the hypotheses; what it adds to the path condition is kept as `guard -> fact`"""
    mark = len(path.pc)
    path.pc.append(guard)
    try:
        return thunk()
    finally:
        new = path.pc[mark + 1:]
        del path.pc[mark:]
        path.pc.extend(Implies(guard, f) for f in new)


def _axioms(T):
    return bits.axioms() + T.axioms()


# =====================================================================================================================
# lemma.cxt.roundtrip: over the contracts

def loadf_contract(T, raw, rows):
    """The contract of unit formats.cxt.Cxt.loadf (contracts/formats_lines.py), its opaque string operations read as the functions
    of the TEXT theory (file.read() = raw, .strip() = strip, .split('\\n\\n') = split_nlnl, .split() = split_ws, int = int_of,
    .split('\\n') = split_nl, iteration over a str = chr_at / tlen, cls.values[ch] = value_of):
      REQUIRES  (the ASSUMED SHAPE of that unit)  three parts; two number texts, each f'{k:d}' of a natural k (int() raises ValueError on other
                texts: out of the model); y, x, rows >= 0; y + x + rows table lines;
                every character of a row line is a key of values (KeyError otherwise: "not modelled" there, required here)
      ENSURES   objects = the first y stripped lines, properties = the next x, bools[r][c] = values[c-th character of stripped
                line y + x + r] for r < rows, c < its length.
    -> (requires, y, x, line)"""
    parts = T.split_nlnl(T.strip(raw))
    yx, table = T.lat(parts, 1), T.lat(parts, 2)
    nums = T.split_ws(yx)
    y, x = T.int_of(T.lat(nums, 0)), T.int_of(T.lat(nums, 1))
    rawlines = T.split_nl(T.strip(table))

    def line(t):
        return T.strip(T.lat(rawlines, t))
    requires = [('three-parts', T.llen(parts) == 3), ('two-numbers', T.llen(nums) == 2),
                # int() is only claimed to compute int_of (and not to raise ValueError) on the decimal text of a natural number
                ('the-numbers-are-decimal-texts-of-naturals', And(T.lat(nums, 0) == T.dec(y), T.lat(nums, 1) == T.dec(x))),
                ('counts-are-natural', And(y >= 0, x >= 0, rows >= 0)),
                ('y+x+rows-table-lines', T.llen(rawlines) == y + x + rows)]
    return requires, y, x, line


def _roundtrip_lemma(drop=()):
    def make():
        T = texts.Z3T()

        def prove(path):
            w = Written(path, T, drop=drop)
            n, m = w.n, w.m
            # [contract] Format.loads: loadf(io.StringIO(text)); [library] its read() gives the text (conclusion of L_written)
            raw = T.read_back(w.W)
            requires, y, x, line = loadf_contract(T, raw, n)
            for name, f in requires:
                path.oblige('loadf-requires/' + name, 'lemma', f)
            r, c = path.fresh_int('r'), path.fresh_int('c')
            path.oblige('loadf-requires/every-row-character-is-a-key-of-values', 'lemma',
                        Implies(And(0 <= r, r < n, 0 <= c, c < T.tlen(line(y + x + r))), T.is_key(T.chr_at(line(y + x + r), c))))
            # [contract] what loadf returns: ContextArgs(objects, properties, bools) with
            R_objs_len, R_props_len, R_bools_len = Int('result.objects.len'), Int('result.properties.len'), Int('result.bools.len')
            R_obj, R_prop = Function('result.objects', I, T.Txt), Function('result.properties', I, T.Txt)
            R_rowlen, R_cell = Function('result.bools.rowlen', I, I), Function('result.bools.cell', I, I, B)
            q, q2 = Int('q'), Int('q2')
            path.assume(And(R_objs_len == y, ForAll([q], Implies(And(0 <= q, q < y), R_obj(q) == line(q)), patterns=[R_obj(q)])))
            path.assume(And(R_props_len == x, ForAll([q], Implies(And(0 <= q, q < x), R_prop(q) == line(y + q)), patterns=[R_prop(q)])))
            path.assume(And(R_bools_len == n,
                            ForAll([q], Implies(And(0 <= q, q < n), R_rowlen(q) == T.tlen(line(y + x + q))), patterns=[R_rowlen(q)]),
                            ForAll([q, q2], Implies(And(0 <= q, q < n, 0 <= q2, q2 < T.tlen(line(y + x + q))),
                                                    R_cell(q, q2) == T.value_of(T.chr_at(line(y + x + q), q2))), patterns=[R_cell(q, q2)])))
            # [z3] the goals
            j = path.fresh_int('j')
            path.oblige('objects-as-given', 'lemma', And(R_objs_len == n, Implies(And(0 <= j, j < n), R_obj(j) == w.Obj(j))))
            path.oblige('properties-as-given', 'lemma', And(R_props_len == m, Implies(And(0 <= j, j < m), R_prop(j) == w.Prp(j))))
            path.oblige('bools-shape-as-given', 'lemma', And(R_bools_len == n, Implies(And(0 <= j, j < n), R_rowlen(j) == m)))
            path.oblige('bools-as-given', 'lemma', Implies(And(0 <= j, j < n, 0 <= c, c < m), R_cell(j, c) == w.cell(j, c)))
        return _axioms(T), prove
    return make


_LIBRARY = ['ASSUMED library contract: CPython str.strip() / .split() / .split(sep) / sep.join / int() / f"{n:d}" / str.isspace compute the '
            'functions defined in lemmas/Text.lean (validated on an enumerated scope: pyvc/texts.py selftest(), selftest_lean(); not proved)',
            'ASSUMED library contract: print(text, file=buf) appends text + "\\n" to an io.StringIO(newline=None) unless "\\r" is written; '
            'getvalue() is the concatenation; io.StringIO(text).read() is text (schema L_written, validated by selftest())',
            'Lean (lemmas/Text.lean, premises obliged here): cxt_source_parts, splitWs_pair, intOf_dec, dec_ne_nil, dec_not_ws, nows_facts, '
            'table_lines, strip_eq_self, length_rowText, rowText_facts, mem_rowText, values_rowText_any; SMT <-> Lean: lemmas/README.md',
            'the predicates ne / nonl / nocr / nows / lead / trail on the literals of the source are evaluated with CPython',
            'REP: len(bools) == len(objects) >= 1, every row has len(properties) >= 1 cells, every label is non-empty, has no "\\n" / "\\r" and '
            'neither starts nor ends with whitespace (each conjunct necessary: module docstring, necessity())']

register(Unit('lemma.cxt.roundtrip', None, None, _roundtrip_lemma(),
              assumptions=['contracts of the proved units formats.cxt.iter_cxt_lines (the line sequence), formats.cxt.Cxt.dumpf (each line printed once, '
                           'in order), formats.Format.dumps / loads (StringIO plumbing), formats.cxt.Cxt.loadf (slicing at the parsed counts; its assumed '
                           'shape of the source is an obligation here)',
                           'constants read from the source and checked: SYMBOLS, Cxt.symbols, Cxt.values, Cxt.dumps_rstrip is False, Format.newline is None'] + _LIBRARY))


# =====================================================================================================================
# formats.cxt.Cxt.loadf.written: the real loadf on the written text

def txt(T, term, name=None):
    """a python str known as the term `term` of the TEXT theory"""
    o = ObjV('str', {}, name=name or str(term))
    o.ident = term
    o.truth_fn = lambda: T.tlen(term) > 0
    o.fields['__len__'] = FuncV('str.__len__', lambda p, a, k: IntV(T.tlen(term)))

    def strip(p, a, k):
        if k or len(a) != 1:
            raise Unsupported('str.strip with arguments')
        return txt(T, T.strip(term))

    def split(p, a, k):
        if k or len(a) > 2:
            raise Unsupported('str.split arguments')
        if len(a) == 1:
            L = T.split_ws(term)
        elif isinstance(a[1], StrV) and a[1].value == '\n\n':
            L = T.split_nlnl(term)
        elif isinstance(a[1], StrV) and a[1].value == '\n':
            L = T.split_nl(term)
        else:
            raise Unsupported('no function of the TEXT theory for str.split(%r)' % (a[1],))
        r = SeqV(lambda t: txt(T, T.lat(L, t)), T.llen(L), 'split(%s)' % term)
        r.lines = L
        return r
    o.fields['strip'] = meth(strip, 'str.strip')
    o.fields['split'] = meth(split, 'str.split')
    o.fields['__iter__'] = FuncV('str.__iter__', lambda p, a, k: IterV(lambda c: txt(T, T.chr_at(term, c)), T.tlen(term), 'chars(%s)' % term))
    return o


def _loadf_written_unit():
    def make():
        from contracts import formats_lines as fl
        T = texts.Z3T()

        def harness(path):
            w = Written(path, T)
            n, m = w.n, w.m
            calls = []
            raw = txt(T, T.read_back(w.W), 'file.read()')
            file = ObjV('file', {'read': meth(lambda p, a, k: (fl._expect_args(a, k, [], 'file.read'), raw)[1], 'file.read')}, name='file')

            def int_(p, a, k):
                if k or len(a) != 1 or not fl.is_text(a[0]) or isinstance(a[0], StrV):
                    raise Unsupported('int(%r)' % (a,))
                v = T.int_of(a[0].ident)
                p.oblige('int(text)/the-text-is-the-decimal-text-of-a-natural (no ValueError)', 'call', And(v >= 0, a[0].ident == T.dec(v)))
                return IntV(v)

            def values_getitem(p, a, k):
                ch = a[-1]
                if not (isinstance(ch, ObjV) and getattr(ch, 'ident', None) is not None):
                    raise Unsupported('cls.values[%r]' % (ch,))
                p.oblige('values[character]/the-character-is-a-key (no KeyError)', 'call', T.is_key(ch.ident))
                return BoolV(T.value_of(ch.ident))
            values = ObjV('dict', {'__getitem__': meth(values_getitem, 'dict.__getitem__')}, name='cls.values')
            cls = ObjV('class', {'values': values}, name='cls')

            def finish(path, env_, outcome):
                if not fl._no_exception(path, outcome):
                    return
                ok = len(calls) == 1 and outcome[1] is calls[0][2] and len(calls[0][0]) == 3 and not calls[0][1]
                path.oblige('post/returns-ContextArgs-of-three', 'post', BoolVal(ok))
                if not ok:
                    return
                objects, properties, bools = calls[0][0]
                given_objects = SeqV(lambda t: txt(T, w.Obj(t)), n, 'objects')
                given_properties = SeqV(lambda t: txt(T, w.Prp(t)), m, 'properties')
                given_bools = SeqV(lambda r: SeqV(lambda c: BoolV(w.cell(r, c)), m, 'bools[%s]' % r), n, 'bools')
                path.oblige('post/objects-as-given', 'post', fl.same(path, objects, given_objects) if fl.is_seq(objects) else BoolVal(False))
                path.oblige('post/properties-as-given', 'post', fl.same(path, properties, given_properties) if fl.is_seq(properties) else BoolVal(False))
                if not fl.is_seq(bools):
                    path.oblige('post/bools-as-given', 'post', BoolVal(False))
                    return
                # the rows are computed lazily (closed form of the comprehension): row r and its cell c are evaluated UNDER their index
                # guards, so that the obligations raised while evaluating them (the key lookups) are judged for the indexes that exist
                path.oblige('post/bools-has-a-row-per-object', 'post', fl.seq_len(bools) == n)
                r, c = path.fresh_int('r'), path.fresh_int('c')

                def row_checks():
                    row = fl.seq_at(bools, r)
                    if not fl.is_seq(row):
                        path.oblige('post/bools-rows-are-sequences', 'post', BoolVal(False))
                        return
                    path.oblige('post/bools-row-has-a-cell-per-property', 'post', fl.seq_len(row) == m)

                    def cell_checks():
                        v = fl.seq_at(row, c)
                        path.oblige('post/bools-cell-as-given', 'post', v.t == w.cell(r, c) if isinstance(v, BoolV) else BoolVal(False))
                    under(path, And(0 <= c, c < m), cell_checks)
                under(path, And(0 <= r, r < n), row_checks)
            loops = fl.base_loops({'int': FuncV('int', int_), 'ContextArgs': fl._context_args(calls)})
            loops['closed_form'] = {'ListComp#0': fl.default_comprehension('ListComp#0', fl.sliceable)}
            return {'cls': cls, 'file': file}, loops, finish
        return _axioms(T), harness
    return make


register(Unit('formats.cxt.Cxt.loadf.written', CXT, 'Cxt.loadf', _loadf_written_unit(),
              assumptions=['contracts of the proved units formats.cxt.iter_cxt_lines, formats.cxt.Cxt.dumpf, formats.Format.dumps / loads: the text handed to '
                           'loadf is what print leaves of the lines "B", "", f"{n:d}", f"{m:d}", "", objects, properties, row texts',
                           'constants read from the source and checked: SYMBOLS, Cxt.symbols, Cxt.values, Cxt.dumps_rstrip is False, Format.newline is None',
                           'iterating a str gives its characters; a slice with 0 <= lo <= hi <= len is the hi - lo items from lo on; unpacking a list of k '
                           'items into k names (ValueError otherwise: an obligation)'] + _LIBRARY,
              linkage=[('concepts.formats.Format["cxt"].loadf', None)]))


# =====================================================================================================================
# self-test of the precondition: without any one conjunct of REP the lemma is NOT provable (thorough tier)

def necessity():
    """Run lemma.cxt.roundtrip with one conjunct of REP left out (or one part of `label` left out) at a time; every such run must
    lose at least one obligation.  Returns the number of weakened preconditions tried.  (That the real round trip FAILS without
    them is the module docstring's negative knowledge; this shows the proof uses them.)"""
    from pyvc import engine, solve
    tried = 0
    for drop in (('at-least-one-property',), ('at-least-one-object',), ('one-row-per-object',), ('one-cell-per-property',),
                 ('object-labels-representable',), ('property-labels-representable',),
                 ('object-labels-representable', 'property-labels-representable', 'label-without:ne'),
                 ('object-labels-representable', 'property-labels-representable', 'label-without:nonl'),
                 ('object-labels-representable', 'property-labels-representable', 'label-without:nocr'),
                 ('object-labels-representable', 'property-labels-representable', 'label-without:lead'),
                 ('object-labels-representable', 'property-labels-representable', 'label-without:trail')):
        axioms, prove = _roundtrip_lemma(drop=drop)()
        eng = engine.Engine('necessity', axioms)
        lost = 0
        for vc in eng.run_lemma(prove):
            solve.discharge(vc, axioms, use_cvc5=False)
            lost += vc.status != 'discharged'
        assert lost > 0, ('the lemma is provable without', drop)
        tried += 1
    return tried
