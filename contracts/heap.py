"""Heap objects for the heap stage (A-HEAP): python lists and sets of labels as mutable objects with identity
(= identity of the ObjV) whose *contents* are terms of the SEQ / SET theories (pyvc/seqs.py).  The methods are the
assumed contracts of the builtin list / set types.  Every object allocated during an execution is recorded in
path.ghost['allocs'] (freshness obligations)."""
from z3 import And, BoolVal, Const, ForAll, If, Implies, Int, K, Not, Or, Select, Store

from pyvc import seqs
from pyvc.seqs import Name, NSet, PSet, Seq
from pyvc.engine import BoolV, FuncV, IntV, IterV, NONE, ObjV, PyRaise, TermV, TupleV, Unsupported


def _alloc(path, o):
    path.ghost.setdefault('allocs', []).append(o)
    return o


def _method(o, name, fn):
    f = FuncV('%s.%s' % (o.cls, name), fn)
    f.is_method = True
    o.fields[name] = f


def name_of(v):
    if isinstance(v, TermV) and v.t.sort() == Name:
        return v.t
    raise Unsupported('expected a label, got %r' % (v,))


def fresh_name(path, hint='x'):
    return TermV(Const('%s!%d' % (hint, next(path.eng.counter)), Name))


def fresh_seq(path, hint='s'):
    return Const('%s!%d' % (hint, next(path.eng.counter)), Seq)


class ListObj(ObjV):
    """a python list of labels"""

    def __init__(self, path, s, name='list', record=True):
        ObjV.__init__(self, 'list', {}, name=name)
        self.s = s
        self.s0 = s
        if record:
            _alloc(path, self)
        self.truth_fn = lambda: seqs.slen(self.s) > 0
        _method(self, 'append', self._append)
        _method(self, 'remove', self._remove)
        _method(self, 'index', self._index)
        _method(self, 'pop', self._pop)
        _method(self, 'insert', self._insert)
        _method(self, '__setitem__', self._setitem)
        _method(self, '__iter__', lambda p, a, k: self.iterv())
        _method(self, '__len__', lambda p, a, k: IntV(seqs.slen(self.s)))
        _method(self, '__contains__', lambda p, a, k: BoolV(seqs.mem(self.s, name_of(a[1]))))
        _method(self, '__list__', lambda p, a, k: ListObj(p, self.s, 'list(%s)' % self.name))
        _method(self, '__tuple__', lambda p, a, k: TupleObj(p, self.s))
        self.fields['__getslice__'] = self._slice

    def havoc(self, path):
        self.s = fresh_seq(path, self.name)

    def iterv(self):
        s = self.s      # the iterator walks the list as it is; bodies that mutate the iterated list are rejected elsewhere
        return IterV(lambda k: TermV(seqs.at(s, k)), seqs.slen(s), 'iter(%s)' % self.name)

    def _append(self, p, a, k):
        self.s = seqs.app(self.s, name_of(a[1]))
        return NONE

    def _remove(self, p, a, k):
        x = name_of(a[1])
        if p.branch(seqs.mem(self.s, x)):
            self.s = seqs.erase(self.s, x)
            return NONE
        raise PyRaise('ValueError')

    def _index(self, p, a, k):
        x = name_of(a[1])
        if p.branch(seqs.mem(self.s, x)):
            return IntV(seqs.idx(self.s, x))
        raise PyRaise('ValueError')

    def _pop(self, p, a, k):
        if len(a) != 2 or not isinstance(a[1], IntV):
            raise Unsupported('list.pop() without index')
        i = a[1].t
        p.oblige('index@list.pop', 'index', And(0 <= i, i < seqs.slen(self.s)))
        x = seqs.at(self.s, i)
        self.s = seqs.pop_at(self.s, i)
        return TermV(x)

    def _insert(self, p, a, k):
        if not isinstance(a[1], IntV):
            raise Unsupported('list.insert index')
        self.s = seqs.ins_at(self.s, a[1].t, name_of(a[2]))
        return NONE

    def _setitem(self, p, a, k):
        i = a[1].t
        p.oblige('index@list.__setitem__', 'index', And(0 <= i, i < seqs.slen(self.s)))
        self.s = seqs.set_at(self.s, i, name_of(a[2]))
        return NONE

    def _slice(self, interp, env, o, sl):
        if sl.lower is not None or sl.upper is not None or sl.step is not None:
            raise Unsupported('list slice other than [:]')
        return ListObj(interp.path, self.s, 'copy(%s)' % self.name)


class TupleObj(ObjV):
    """an immutable tuple of labels"""

    def __init__(self, path, s, name='tuple'):
        ObjV.__init__(self, 'tuple', {}, name=name)
        self.s = s
        _method(self, '__iter__', lambda p, a, k: IterV(lambda kk: TermV(seqs.at(self.s, kk)), seqs.slen(self.s), 'iter(tuple)'))
        _method(self, '__len__', lambda p, a, k: IntV(seqs.slen(self.s)))
        self.truth_fn = lambda: seqs.slen(self.s) > 0


class SetObj(ObjV):
    """a python set of labels"""

    def __init__(self, path, S, name='set', record=True):
        ObjV.__init__(self, 'set', {}, name=name)
        self.S = S
        self.S0 = S
        if record:
            _alloc(path, self)
        _method(self, 'add', self._add)
        _method(self, 'remove', self._remove)
        _method(self, 'discard', self._discard)
        _method(self, 'copy', lambda p, a, k: SetObj(p, self.S, 'copy(%s)' % self.name))
        c = FuncV('set.__contains__', lambda p, a, k: BoolV(Select(self.S, name_of(a[-1]))))
        c.is_method = True
        self.fields['__contains__'] = c

    def havoc(self, path):
        self.S = Const('%s!%d' % (self.name, next(path.eng.counter)), NSet)

    def _add(self, p, a, k):
        self.S = Store(self.S, name_of(a[1]), True)
        return NONE

    def _discard(self, p, a, k):
        self.S = Store(self.S, name_of(a[1]), False)
        return NONE

    def _remove(self, p, a, k):
        x = name_of(a[1])
        if p.branch(Select(self.S, x)):
            self.S = Store(self.S, x, False)
            return NONE
        raise PyRaise('KeyError')


def pair_of(v):
    if isinstance(v, TupleV) and len(v.items) == 2:
        return name_of(v.items[0]), name_of(v.items[1])
    raise Unsupported('expected a pair of labels, got %r' % (v,))


class PairSetObj(ObjV):
    """a python set of (object label, property label) pairs"""

    def __init__(self, path, P, name='pairs', record=True):
        ObjV.__init__(self, 'set', {}, name=name)
        self.P = P
        self.P0 = P
        if record:
            _alloc(path, self)
        _method(self, 'add', lambda p, a, k: self._store(a[1], True))
        _method(self, 'discard', lambda p, a, k: self._store(a[1], False))
        _method(self, 'remove', self._remove)
        _method(self, 'copy', lambda p, a, k: PairSetObj(p, self.P, 'copy(%s)' % self.name))
        c = FuncV('set.__contains__', lambda p, a, k: BoolV(Select(self.P, *pair_of(a[-1]))))
        c.is_method = True
        self.fields['__contains__'] = c

    def havoc(self, path):
        self.P = Const('%s!%d' % (self.name, next(path.eng.counter)), PSet)

    def _store(self, v, b):
        o, pp = pair_of(v)
        self.P = Store(self.P, o, pp, b)
        return NONE

    def _remove(self, p, a, k):
        o, pp = pair_of(a[1])
        if p.branch(Select(self.P, o, pp)):
            self.P = Store(self.P, o, pp, False)
            return NONE
        raise PyRaise('KeyError')


def wf_unique(items, seen):
    """WF of a tools.Unique: _seen is the set of _items and _items has no duplicates."""
    x = Const('x', Name)
    return And(seqs.nodup(items), ForAll([x], Select(seen, x) == seqs.mem(items, x),
                                         patterns=[Select(seen, x), seqs.mem(items, x)]))
