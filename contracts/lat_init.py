"""Contracts for lattices.Data._init / _make_mapping / __init__ and the accessors infimum / supremum / atoms:
establishing LatInv from the generator's output (C03, C05, C06, C10; DESIGN 5.3).

Members are identified by their position i in `concepts` (0 <= i < N); per-member state is kept in ghost functions
(dindex(i), cls(i), atom-selection atomsel(i,t)), updated pointwise by attribute stores on a symbolic member.
"""
from z3 import And, BoolSort, BoolVal, ForAll, Function, If, Implies, Int, IntSort, Ints, MultiPattern, Not, Or

from pyvc import bits
from pyvc.bits import bit, bor
from pyvc.engine import (BoolV, ClassV, FilterV, FuncV, IntV, IterV, ListV, LoopSpec, NONE, ObjV, SeqV, StrV, TermV, TupleV,
                         Unsupported, truthy)
from contracts import lib
from contracts.ctxtheory import Ctx
from contracts.latinv import Lat
from contracts.registry import Unit, register

I = IntSort()
B = BoolSort()
CLS = {'Concept': 0, 'Atom': 1, 'Supremum': 2, 'Infimum': 3}


def _init_unit():
    def make():
        C = Ctx()
        L = Lat(C)
        lrk = Function('lrk', I, I)             # longlex rank of an extent (bitsets contract of longlex())
        natoms = Int('atoms.len')
        atom_i = Function('atoms.index', I, I)  # member index of the t-th atom of the lattice
        perm = Function('sorted.perm', I, I)
        permi = Function('sorted.perm.inv', I, I)
        t_, u_, i_, j_ = Ints('t u i j')
        from contracts.lemmas_z3 import st_bits_subset
        axioms = C.axioms() + L.facts() + st_bits_subset()[1] + [
            ('atoms', And(natoms >= 0, ForAll([t_], Implies(And(0 <= t_, t_ < natoms), And(0 <= atom_i(t_), atom_i(t_) < L.N)),
                                              patterns=[atom_i(t_)]))),
            # contract of sorted(concepts, key=longlex): a permutation of the positions, ascending in the key
            ('sorted.perm', ForAll([t_], Implies(And(0 <= t_, t_ < L.N), And(0 <= perm(t_), perm(t_) < L.N, permi(perm(t_)) == t_)),
                                   patterns=[perm(t_)])),
            ('sorted.onto', ForAll([i_], Implies(And(0 <= i_, i_ < L.N), And(0 <= permi(i_), permi(i_) < L.N, perm(permi(i_)) == i_)),
                                   patterns=[permi(i_)])),
            ('sorted.asc', ForAll([t_, u_], Implies(And(0 <= t_, t_ < u_, u_ < L.N), lrk(L.ext(perm(t_))) <= lrk(L.ext(perm(u_)))),
                                  patterns=[MultiPattern(perm(t_), perm(u_))])),
            # longlex keys of distinct extents differ (L-SLEX: the key realises a strict total order)
            ('lrk.inj', ForAll([i_, j_], Implies(And(0 <= i_, i_ < L.N, 0 <= j_, j_ < L.N, lrk(L.ext(i_)) == lrk(L.ext(j_))), i_ == j_),
                               patterns=[MultiPattern(lrk(L.ext(i_)), lrk(L.ext(j_)))])),
        ]

        def harness(path):
            cnt = path.eng.counter

            def fn(name, *sorts):
                return Function('%s!%d' % (name, next(cnt)), *sorts)
            st = {'dindex': fn('dindex', I, I), 'cls': fn('cls', I, I), 'atomsel': fn('atomsel', I, I, B), 'has_atoms': fn('has_atoms', I, B)}
            path.assume(ForAll([i_], st['cls'](i_) == CLS['Concept'], patterns=[st['cls'](i_)]))
            path.assume(ForAll([i_], Not(st['has_atoms'](i_)), patterns=[st['has_atoms'](i_)]))
            calls = []

            def member(i):
                c = ObjV('Concept', {'_extent': IntV(L.ext(i), 'Objects')}, name='member[%s]' % i)
                c.ident = i

                def setattr_(p, o, attr, v):
                    if attr == 'dindex':
                        d2 = fn('dindex', I, I)
                        p.assume(ForAll([i_], d2(i_) == If(i_ == i, v.t, st['dindex'](i_)), patterns=[d2(i_), st['dindex'](i_)]))
                        st['dindex'] = d2
                    elif attr == '__class__':
                        c2 = fn('cls', I, I)
                        p.assume(ForAll([i_], c2(i_) == If(i_ == i, CLS[v.name], st['cls'](i_)), patterns=[c2(i_), st['cls'](i_)]))
                        st['cls'] = c2
                    elif attr == 'atoms':
                        ok = isinstance(v, FilterV) and v.base is atoms_seq
                        p.oblige('store/atoms-is-a-filter-of-lattice.atoms', 'post', BoolVal(ok))
                        if not ok:
                            return
                        t = p.fresh_int('t')
                        el = v.elt(t)
                        p.oblige('store/atoms-elements-are-the-atoms-themselves', 'post', el.ident == atom_i(t))
                        a2, h2 = fn('atomsel', I, I, B), fn('has_atoms', I, B)
                        # the condition is evaluated from the real AST at a symbolic position of lattice.atoms
                        tt = Int('tt')
                        sel = v.cond(tt)
                        p.assume(ForAll([i_, tt], a2(i_, tt) == If(i_ == i, sel, st['atomsel'](i_, tt)),
                                        patterns=[a2(i_, tt), st['atomsel'](i_, tt)]))
                        p.assume(ForAll([i_], h2(i_) == Or(i_ == i, st['has_atoms'](i_)), patterns=[h2(i_), st['has_atoms'](i_)]))
                        st['atomsel'], st['has_atoms'] = a2, h2
                    else:
                        raise Unsupported('store to member.%s' % attr)
                c.fields['__setattr__'] = setattr_
                return c
            atoms_seq = SeqV(lambda t: member(atom_i(t)), natoms, 'lattice.atoms')
            concepts = SeqV(member, L.N, 'concepts')
            mapping = ObjV('dict', {}, name='mapping')
            context = ObjV('Context', {}, name='context')
            inst = ObjV('Lattice', {}, name='inst')
            # accessors by contract (units lattices.infimum / supremum / atoms)
            for nm, val in (('atoms', lambda: atoms_seq), ('infimum', lambda: member(IntVal_(0))), ('supremum', lambda: member(L.N - 1))):
                f = FuncV('Lattice.' + nm, lambda p, a, k, _v=val: _v())
                f.is_property = True
                inst.fields[nm] = f
            inst.fields['_longlex'] = FuncV('_longlex', lambda p, a, k: IntV(lrk(a[-1].fields['_extent'].t), 'Key'))
            inst.fields['_annotate'] = FuncV('_annotate', lambda p, a, k: calls.append(('annotate', a, k)) or NONE)
            inst.fields['_make_mapping'] = FuncV('_make_mapping', lambda p, a, k: calls.append(('make_mapping', a, k)) or mapping)

            def sort_contract(p, seq, kw):
                """sorted(concepts, key=longlex) / list(concepts).sort(key=longlex): the members in ascending order of the key"""
                ok = seq is concepts and set(kw) == {'key'}
                p.oblige('pre@sorted/concepts-by-longlex', 'pre@call', BoolVal(ok))
                if ok:
                    r = kw['key'].fn(p, [member(p.fresh_int('s'))], {})
                    p.oblige('pre@sorted/key-is-longlex', 'pre@call', BoolVal(isinstance(r, IntV) and r.tag == 'Key'))
                return SeqV(lambda t: member(perm(t)), L.N, 'sorted(concepts)')

            def sorted_(p, args, kw):
                (seq,) = args
                return sort_contract(p, seq, kw)

            def list_(p, args, kw):
                # list(concepts): a NEW list with the same members in the same order (sorting it leaves `concepts` as it is)
                if len(args) != 1 or args[0] is not concepts or kw:
                    return lib.builtins()['list'].fn(p, args, kw)
                o = ObjV('list', {}, name='list(concepts)')
                o.of, o.cur = concepts, SeqV(concepts.at, concepts.length, 'list(concepts)')

                def sort(p2, a2, k2):
                    o.cur = sort_contract(p2, o.of, k2)
                    o.of = None        # (a second sort would sort the sorted copy: not modelled)
                    return NONE
                f = FuncV('list.sort', sort)
                f.is_method = True
                o.fields['sort'] = f
                o.fields['__iter__'] = FuncV('list.__iter__', lambda p2, a2, k2: IterV(o.cur.at, o.cur.length, 'iter(%s)' % o.cur.name))
                return o
            g = dict(lib.builtins(), sorted=FuncV('sorted', sorted_), list=FuncV('list', list_), Atom=ClassV('Atom'), Supremum=ClassV('Supremum'),
                     Infimum=ClassV('Infimum'))

            def tuple_(p, args, kw):
                (v,) = args
                if isinstance(v, FilterV):
                    return v
                raise Unsupported('tuple of %r' % (v,))
            g['tuple'] = FuncV('tuple', tuple_)

            def dloop_inv(e, k):
                d, a, h = st['dindex'], st['atomsel'], st['has_atoms']
                S = C.sets
                return [('dindex', ForAll([t_], Implies(And(0 <= t_, t_ < k), d(perm(t_)) == t_), patterns=[perm(t_)])),
                        ('atoms', ForAll([i_, t_], Implies(And(h(i_), 0 <= t_, t_ < natoms),
                                                           a(i_, t_) == S.subset(L.ext(atom_i(t_)), L.ext(i_))),
                                         patterns=[a(i_, t_)])),
                        ('atoms-done', ForAll([i_], h(i_) == And(0 <= permi(i_), permi(i_) < k, 0 <= i_, i_ < L.N), patterns=[h(i_)]))]
            dloop = LoopSpec(dloop_inv, ghost_havoc=lambda p, env_: st.update(
                {'dindex': fn('dindex', I, I), 'atomsel': fn('atomsel', I, I, B), 'has_atoms': fn('has_atoms', I, B)}))

            def aloop_inv(e, k):
                c = st['cls']
                return [('tags', ForAll([i_], c(i_) == If(And(0 <= rank_atom(i_), rank_atom(i_) < k, is_atom(i_)), CLS['Atom'], CLS['Concept']),
                                        patterns=[c(i_)]))]
            # atoms as a duplicate-free sequence (LatInv.5: upper covers of the infimum, each once)
            rank_atom = Function('atoms.rank', I, I)
            is_atom = Function('is_atom', I, B)
            path.assume(ForAll([t_], Implies(And(0 <= t_, t_ < natoms), And(is_atom(atom_i(t_)), rank_atom(atom_i(t_)) == t_)), patterns=[atom_i(t_)]))
            path.assume(ForAll([i_], Implies(is_atom(i_), And(0 <= rank_atom(i_), rank_atom(i_) < natoms, atom_i(rank_atom(i_)) == i_)),
                               patterns=[is_atom(i_)]))
            aloop = LoopSpec(aloop_inv, ghost_havoc=lambda p, env_: st.update({'cls': fn('cls', I, I)}))
            unpickle = path.fresh_bool('unpickle')
            with_mapping = path.fresh_bool('mapping_given')
            env = {'inst': inst, 'context': context, 'concepts': concepts, 'unpickle': BoolV(unpickle)}
            given = path.branch(with_mapping)
            env['mapping'] = mapping if given else NONE

            def finish(path, env_, outcome):
                if outcome[0] != 'return':
                    path.oblige('post/no-exception', 'post', BoolVal(False))
                    return
                ok = inst.fields.get('_context') is context and inst.fields.get('_concepts') is concepts and inst.fields.get('_mapping') is mapping
                path.oblige('post/fields', 'post', BoolVal(ok))
                mm = [c for c in calls if c[0] == 'make_mapping']
                path.oblige('post/mapping-built-iff-not-given', 'post',
                            BoolVal((len(mm) == 0) if given else (len(mm) == 1 and mm[0][1][-1] is concepts)))
                an = [c for c in calls if c[0] == 'annotate']
                if not path.branch(unpickle):
                    d, a, h, c = st['dindex'], st['atomsel'], st['has_atoms'], st['cls']
                    S = C.sets
                    # LatInv.3: dindex is the position in long-lexicographic order
                    path.oblige('post/dindex-is-the-position-in-the-sorted-order', 'post',
                                ForAll([i_], Implies(And(0 <= i_, i_ < L.N), And(d(i_) == permi(i_), 0 <= d(i_), d(i_) < L.N)), patterns=[d(i_)]))
                    path.oblige('post/dindex-follows-longlex', 'post',
                                ForAll([i_, j_], Implies(And(0 <= i_, i_ < L.N, 0 <= j_, j_ < L.N, lrk(L.ext(i_)) < lrk(L.ext(j_))), d(i_) < d(j_)),
                                       patterns=[MultiPattern(d(i_), d(j_))]))
                    # LatInv.6: concept.atoms = the lattice atoms below or equal to it, in lattice.atoms order
                    path.oblige('post/atoms', 'post',
                                ForAll([i_, t_], Implies(And(0 <= i_, i_ < L.N, 0 <= t_, t_ < natoms),
                                                         And(h(i_), a(i_, t_) == S.subset(L.ext(atom_i(t_)), L.ext(i_)))), patterns=[a(i_, t_)]))
                    # LatInv.8: class tags, later assignment wins
                    path.oblige('post/class-tags', 'post',
                                ForAll([i_], Implies(And(0 <= i_, i_ < L.N),
                                                     c(i_) == If(i_ == 0, CLS['Infimum'], If(i_ == L.N - 1, CLS['Supremum'],
                                                                                           If(is_atom(i_), CLS['Atom'], CLS['Concept'])))),
                                       patterns=[c(i_)]))
                    okan = len(an) == 1 and an[0][1][-2] is context and an[0][1][-1] is mapping
                    path.oblige('post/annotate-called-once-with-context-and-mapping', 'post', BoolVal(okan))
                else:
                    path.oblige('post/unpickle-does-nothing-else', 'post', BoolVal(not an))
            return env, {'globals': g, 0: dloop, 1: aloop}, finish
        return axioms, harness
    return make


def IntVal_(v):
    from z3 import IntVal
    return IntVal(v)


register(Unit('lattices._init', 'concepts/lattices.py', 'Data._init', _init_unit(),
              assumptions=['concepts = the members in canonical order with LatInv.1 (from lindig.lattice + __init__), lattice.atoms duplicate-free (LatInv.5)',
                           'contract of sorted() (permutation, ascending by key), longlex() keys of distinct extents differ (bitsets; L-SLEX)',
                           'contracts of _annotate (unit lattices._annotate), _make_mapping, the accessors infimum/supremum/atoms'],
              linkage=[('type(lat)._init', None)]))


# =============================================================================================
# Lattice.__init__ : from the generator's tuples to member objects (LatInv.1, .2, .4, .5)

def _ctor_unit():
    def make():
        C = Ctx()
        L = Lat(C)
        cover = Function('cover', I, I, B)
        rk, lrk = Function('rk', I, I), Function('lrk', I, I)
        nU, nL = Function('upper.len', I, I), Function('lower.len', I, I)          # lengths of the generator's lists of member i
        uE, lE = Function('upper.E', I, I, I), Function('lower.E', I, I, I)        # their elements (extents)
        uR, lR = Function('upper.rank', I, I, I), Function('lower.rank', I, I, I)
        pU, pUi = Function('sortedU.perm', I, I, I), Function('sortedU.perm.inv', I, I, I)
        pL, pLi = Function('sortedL.perm', I, I, I), Function('sortedL.perm.inv', I, I, I)
        i_, j_, s_, t_, e_, f_ = Ints('i j s t e f')
        rng = lambda x: And(0 <= x, x < L.N)
        axioms = C.axioms() + L.facts() + [
            # postcondition of lindig.lattice (unit lindig.lattice): canonical order, and per member the lists of its covers
            ('gen.order', ForAll([i_, j_], Implies(And(rng(i_), rng(j_), i_ < j_), rk(L.ext(i_)) < rk(L.ext(j_))),
                                 patterns=[MultiPattern(L.ext(i_), L.ext(j_))])),
            ('gen.upper', ForAll([i_, s_], Implies(And(rng(i_), 0 <= s_, s_ < nU(i_)),
                                                   And(cover(L.ext(i_), uE(i_, s_)), uR(i_, uE(i_, s_)) == s_)), patterns=[uE(i_, s_)])),
            ('gen.upper.onto', ForAll([i_, f_], Implies(And(rng(i_), cover(L.ext(i_), f_)),
                                                        And(0 <= uR(i_, f_), uR(i_, f_) < nU(i_), uE(i_, uR(i_, f_)) == f_)),
                                      patterns=[cover(L.ext(i_), f_)])),
            ('gen.lower', ForAll([i_, s_], Implies(And(rng(i_), 0 <= s_, s_ < nL(i_)),
                                                   And(cover(lE(i_, s_), L.ext(i_)), lR(i_, lE(i_, s_)) == s_)), patterns=[lE(i_, s_)])),
            ('gen.lower.onto', ForAll([i_, e_], Implies(And(rng(i_), cover(e_, L.ext(i_))),
                                                        And(0 <= lR(i_, e_), lR(i_, e_) < nL(i_), lE(i_, lR(i_, e_)) == e_)),
                                      patterns=[cover(e_, L.ext(i_))])),
            ('gen.len', ForAll([i_], And(nU(i_) >= 0, nL(i_) >= 0), patterns=[nU(i_)])),
            # covers relate extents (both sides are members)
            ('cover.ext', ForAll([e_, f_], Implies(cover(e_, f_), And(C.is_objset(e_), C.Cl(e_) == e_, C.is_objset(f_), C.Cl(f_) == f_)),
                                 patterns=[cover(e_, f_)])),
        ]

        def perm_facts(p_, pi_, n_, key, i):
            """contract of sorted(seq, key) for the list of member i: a permutation of positions, ascending in the key"""
            return And(
                ForAll([s_], Implies(And(0 <= s_, s_ < n_(i)), And(0 <= p_(i, s_), p_(i, s_) < n_(i), pi_(i, p_(i, s_)) == s_)), patterns=[p_(i, s_)]),
                ForAll([s_], Implies(And(0 <= s_, s_ < n_(i)), And(0 <= pi_(i, s_), pi_(i, s_) < n_(i), p_(i, pi_(i, s_)) == s_)), patterns=[pi_(i, s_)]),
                ForAll([s_, t_], Implies(And(0 <= s_, s_ < t_, t_ < n_(i)), key(i, p_(i, s_)) <= key(i, p_(i, t_))),
                       patterns=[MultiPattern(p_(i, s_), p_(i, t_))]))
        keyU = lambda i, s: rk(uE(i, s))
        keyL = lambda i, s: lrk(lE(i, s))

        def harness(path):
            cnt = path.eng.counter

            def fn(name, *sorts):
                return Function('%s!%d' % (name, next(cnt)), *sorts)
            st = {'index': fn('index', I, I), 'unlen': fn('un.len', I, I), 'unat': fn('un.at', I, I, I),
                  'lnlen': fn('ln.len', I, I), 'lnat': fn('ln.at', I, I, I), 'conv': fn('converted', I, B)}
            path.assume(ForAll([i_], Not(st['conv'](i_)), patterns=[st['conv'](i_)]))
            calls = []
            this = ObjV('Lattice', {}, name='self')

            def member(i):
                c = ObjV('Concept', {'_extent': IntV(L.ext(i), 'Objects'), '_intent': IntV(C.Up(L.ext(i)), 'Properties'), 'lattice': this},
                         name='member[%s]' % i)
                c.ident = i

                def getattr_(p, o, attr):
                    if attr in ('upper_neighbors', 'lower_neighbors'):
                        # read in iteration i before the conversion of member i: the generator's raw list of extents
                        p.oblige('read/raw-list-of-the-current-member', 'pre@call', Not(st['conv'](i)))
                        if attr == 'upper_neighbors':
                            return SeqV(lambda s: IntV(uE(i, s), 'Objects'), nU(i), 'raw-upper[%s]' % i)
                        return SeqV(lambda s: IntV(lE(i, s), 'Objects'), nL(i), 'raw-lower[%s]' % i)
                    raise Unsupported('member attribute %s' % attr)

                def setattr_(p, o, attr, v):
                    if attr == 'index':
                        x2 = fn('index', I, I)
                        p.assume(ForAll([i_], x2(i_) == If(i_ == i, v.t, st['index'](i_)), patterns=[x2(i_), st['index'](i_)]))
                        st['index'] = x2
                    elif attr in ('upper_neighbors', 'lower_neighbors'):
                        ln, at = ('unlen', 'unat') if attr == 'upper_neighbors' else ('lnlen', 'lnat')
                        if not isinstance(v, SeqV):
                            raise Unsupported('store of %r to %s' % (v, attr))
                        l2, a2 = fn(ln, I, I), fn(at, I, I, I)
                        ss = Int('ss')
                        el = v.at(ss)
                        p.assume(ForAll([i_], l2(i_) == If(i_ == i, v.length, st[ln](i_)), patterns=[l2(i_), st[ln](i_)]))
                        p.assume(ForAll([i_, ss], a2(i_, ss) == If(i_ == i, el.ident, st[at](i_, ss)), patterns=[a2(i_, ss), st[at](i_, ss)]))
                        st[ln], st[at] = l2, a2
                        if attr == 'lower_neighbors':
                            c2 = fn('converted', I, B)
                            p.assume(ForAll([i_], c2(i_) == Or(i_ == i, st['conv'](i_)), patterns=[c2(i_), st['conv'](i_)]))
                            st['conv'] = c2
                    else:
                        raise Unsupported('store to member.%s' % attr)
                c.fields['__getattr__'] = getattr_
                c.fields['__setattr__'] = setattr_
                return c

            def concept_ctor(p, args, kw):
                ok = len(args) == 5 and args[0] is this and all(isinstance(a, (IntV, SeqV)) for a in args[1:])
                p.oblige('Concept(...)/arguments', 'pre@call', BoolVal(ok))
                gi = getattr(args[1], 'gen_index', None)
                p.oblige('Concept(...)/from-generator-tuple', 'pre@call', BoolVal(gi is not None
                         and all(getattr(a, 'gen_index', None) is gi for a in args[1:])
                         and [getattr(a, 'gen_field', None) for a in args[1:]] == [0, 1, 2, 3]))
                return member(gi)

            def gen_tuple(t):
                items = [IntV(L.ext(t), 'Objects'), IntV(C.Up(L.ext(t)), 'Properties'),
                         SeqV(lambda s: IntV(uE(t, s), 'Objects'), nU(t), 'upper'), SeqV(lambda s: IntV(lE(t, s), 'Objects'), nL(t), 'lower')]
                for n_, it in enumerate(items):
                    it.gen_index, it.gen_field = t, n_
                return TupleV(items)
            context = ObjV('Context', {}, name='context')

            def _lattice(p, args, kw):
                calls.append(('_lattice', args, kw))
                return IterV(gen_tuple, L.N, 'context._lattice(infimum)')
            context.fields['_lattice'] = FuncV('Context._lattice', _lattice)
            mapping = ObjV('dict', {}, name='mapping')

            def m_get(p, args, kw):
                key = args[-1]
                p.oblige('key@mapping', 'key', And(C.is_objset(key.t), C.Cl(key.t) == key.t))
                return member(L.idx(key.t))
            mapping.fields['__getitem__'] = FuncV('dict.__getitem__', m_get)

            def make_mapping(p, args, kw):
                calls.append(('_make_mapping', args, kw))
                return mapping
            this.fields['_make_mapping'] = FuncV('_make_mapping', make_mapping)
            this.fields['_shortlex'] = FuncV('_shortlex', lambda p, a, k: IntV(rk(a[-1].fields['_extent'].t), 'slexKey'))
            this.fields['_longlex'] = FuncV('_longlex', lambda p, a, k: IntV(lrk(a[-1].fields['_extent'].t), 'llexKey'))
            this.fields['_init'] = FuncV('_init', lambda p, a, k: calls.append(('_init', a, k)) or NONE)

            def sorted_(p, args, kw):
                (seq,) = args
                k = p.ghost['k']
                r = kw['key'].fn(p, [member(p.fresh_int('s'))], {}) if set(kw) == {'key'} else None
                which = {'slexKey': 'U', 'llexKey': 'L'}.get(getattr(r, 'tag', None))
                p.oblige('pre@sorted/key', 'pre@call', BoolVal(which is not None))
                if which is None:
                    raise Unsupported('sorted key')
                pp, ppi, n_, key, E = (pU, pUi, nU, keyU, uE) if which == 'U' else (pL, pLi, nL, keyL, lE)
                t = p.fresh_int('t')
                p.oblige('pre@sorted/length-%s' % which, 'pre@call', seq.length == n_(k))
                # hypothetically, for an arbitrary position t of the sequence: evaluating the element emits the key obligation of
                # mapping[...]; the sequence is the image under `mapping` of the current member's raw list for that key
                n0 = len(p.pc)
                p.pc.append(And(0 <= t, t < n_(k)))
                el = seq.at(t)
                p.oblige('pre@sorted/sequence-%s' % which, 'pre@call', el.ident == L.idx(E(k, t)))
                del p.pc[n0:]
                p.assume(perm_facts(pp, ppi, n_, key, k))
                return SeqV(lambda s: member(L.idx(E(k, pp(k, s)))), n_(k), 'sorted-%s' % which)
            g = dict(lib.builtins(), sorted=FuncV('sorted', sorted_), Concept=FuncV('Concept', concept_ctor))

            def inv(e, k):
                ix, ul, ua, ll, la, cv = st['index'], st['unlen'], st['unat'], st['lnlen'], st['lnat'], st['conv']
                done = lambda i: And(0 <= i, i < k)
                return [
                    ('index', ForAll([i_], Implies(done(i_), ix(i_) == i_), patterns=[ix(i_)])),
                    ('converted', ForAll([i_], cv(i_) == done(i_), patterns=[cv(i_)])),
                    ('upper', ForAll([i_], Implies(done(i_), And(ul(i_) == nU(i_), perm_facts(pU, pUi, nU, keyU, i_))), patterns=[ul(i_)])),
                    ('upper-elements', ForAll([i_, s_], Implies(And(done(i_), 0 <= s_, s_ < nU(i_)), ua(i_, s_) == L.idx(uE(i_, pU(i_, s_)))),
                                              patterns=[ua(i_, s_)])),
                    ('lower', ForAll([i_], Implies(done(i_), And(ll(i_) == nL(i_), perm_facts(pL, pLi, nL, keyL, i_))), patterns=[ll(i_)])),
                    ('lower-elements', ForAll([i_, s_], Implies(And(done(i_), 0 <= s_, s_ < nL(i_)), la(i_, s_) == L.idx(lE(i_, pL(i_, s_)))),
                                              patterns=[la(i_, s_)])),
                ]
            loop = LoopSpec(inv, ghost_havoc=lambda p, env_: st.update(
                {'index': fn('index', I, I), 'unlen': fn('un.len', I, I), 'unat': fn('un.at', I, I, I),
                 'lnlen': fn('ln.len', I, I), 'lnat': fn('ln.at', I, I, I), 'conv': fn('converted', I, B)}))
            infimum = TupleV([])
            env = {'self': this, 'context': context, 'infimum': infimum}

            def closed_concepts(interp, env_, node):
                # [Concept(self, *args) for args in context._lattice(infimum)]: element-wise map of the generator (checked on a symbolic element)
                gnode = node.generators[0]
                it = interp.eval(gnode.iter, env_)
                ok = isinstance(it, IterV) and not gnode.ifs
                path.oblige('closed-form/concepts', 'post', BoolVal(ok))
                t = path.fresh_int('t')
                inner = dict(env_)
                interp.assign(gnode.target, it.at(t), inner)
                el = interp.eval(node.elt, inner)
                path.oblige('closed-form/concepts-element', 'post', (el.ident == t) if getattr(el, 'ident', None) is not None else BoolVal(False))
                sq = SeqV(member, L.N, 'concepts')
                path.ghost['concepts'] = sq
                return sq

            def finish(path, env_, outcome):
                if outcome[0] != 'return':
                    path.oblige('post/no-exception', 'post', BoolVal(False))
                    return
                names = [c[0] for c in calls]
                path.oblige('post/calls', 'post', BoolVal(names == ['_lattice', '_make_mapping', '_init']))
                if names != ['_lattice', '_make_mapping', '_init']:
                    return
                cs = path.ghost.get('concepts')
                path.oblige('post/generator-call', 'post', BoolVal(len(calls[0][1]) == 1 and calls[0][1][0] is infimum))
                path.oblige('post/mapping-of-concepts', 'post', BoolVal(calls[1][1][-1] is cs))
                a, k = calls[2][1], calls[2][2]
                path.oblige('post/_init-call', 'post', BoolVal(len(a) == 3 and a[0] is this and a[1] is context and a[2] is cs
                                                                and set(k) == {'mapping'} and k['mapping'] is mapping))
                ix, ul, ua, ll, la = st['index'], st['unlen'], st['unat'], st['lnlen'], st['lnat']
                # LatInv.2: index = position (iteration order is the generator's canonical order)
                path.oblige('post/index-is-position', 'post', ForAll([i_], Implies(rng(i_), ix(i_) == i_), patterns=[ix(i_)]))
                # LatInv.5: upper_neighbors = the upper covers as member objects, each once, in shortlex order
                path.oblige('post/upper-neighbors-are-covers', 'post',
                            ForAll([i_, s_], Implies(And(rng(i_), 0 <= s_, s_ < ul(i_)), cover(L.ext(i_), L.ext(ua(i_, s_)))), patterns=[ua(i_, s_)]))
                path.oblige('post/every-upper-cover-once', 'post',
                            ForAll([i_, f_], Implies(And(rng(i_), cover(L.ext(i_), f_)),
                                                     And(0 <= pUi(i_, uR(i_, f_)), pUi(i_, uR(i_, f_)) < ul(i_), ua(i_, pUi(i_, uR(i_, f_))) == L.idx(f_))),
                                   patterns=[cover(L.ext(i_), f_)]))
                path.oblige('post/upper-neighbors-sorted-by-shortlex', 'post',
                            ForAll([i_, s_, t_], Implies(And(rng(i_), 0 <= s_, s_ < t_, t_ < ul(i_)), rk(L.ext(ua(i_, s_))) <= rk(L.ext(ua(i_, t_)))),
                                   patterns=[MultiPattern(ua(i_, s_), ua(i_, t_))]))
                path.oblige('post/lower-neighbors-are-covers', 'post',
                            ForAll([i_, s_], Implies(And(rng(i_), 0 <= s_, s_ < ll(i_)), cover(L.ext(la(i_, s_)), L.ext(i_))), patterns=[la(i_, s_)]))
                path.oblige('post/every-lower-cover-once', 'post',
                            ForAll([i_, e_], Implies(And(rng(i_), cover(e_, L.ext(i_))),
                                                     And(0 <= pLi(i_, lR(i_, e_)), pLi(i_, lR(i_, e_)) < ll(i_), la(i_, pLi(i_, lR(i_, e_))) == L.idx(e_))),
                                   patterns=[cover(e_, L.ext(i_))]))
                path.oblige('post/lower-neighbors-sorted-by-longlex', 'post',
                            ForAll([i_, s_, t_], Implies(And(rng(i_), 0 <= s_, s_ < t_, t_ < ll(i_)), lrk(L.ext(la(i_, s_))) <= lrk(L.ext(la(i_, t_)))),
                                   patterns=[MultiPattern(la(i_, s_), la(i_, t_))]))
            return env, {'globals': g, 0: loop, 'closed_form': {'ListComp#0': closed_concepts}}, finish
        return axioms, harness
    return make


register(Unit('lattices.__init__', 'concepts/lattices.py', 'Data.__init__', _ctor_unit(),
              assumptions=['postcondition of lindig.lattice (unit lindig.lattice): canonical order, upper/lower lists = covers each once',
                           'contract of sorted() (permutation, ascending by key); _shortlex/_longlex return the bitsets keys of the extent',
                           'contract of _make_mapping: {extent: member}; Pair.__init__ stores its arguments',
                           'contract of _init (unit lattices._init)'],
              linkage=[('type(lat).__init__', None)]))


# =============================================================================================
# small accessors / collection protocol of Lattice and Pair (straight-line)

def _simple_unit(setup):
    def make():
        def harness(path):
            env, g, check = setup(path)
            gg = dict(lib.builtins())
            gg.update(g or {})

            def finish(path, env_, outcome):
                if outcome[0] != 'return':
                    path.oblige('post/no-exception', 'post', BoolVal(False))
                    return
                for nm, f in check(path, outcome[1]):
                    path.oblige('post/' + nm, 'post', f)
            return env, {'globals': gg}, finish
        return bits.axioms(), harness
    return make


def _lat_obj(path):
    N = Int('N')
    path.assume(N >= 1)

    def member(i):
        c = ObjV('Concept', {}, name='member[%s]' % i)
        c.ident = i
        c.fields['upper_neighbors'] = ObjV('tuple', {}, name='upper_neighbors[%s]' % i)
        c.fields['upper_neighbors'].owner = i
        return c
    concepts = ObjV('list', {}, name='_concepts')

    def getitem(p, args, kw):
        i = args[-1]
        if not isinstance(i, IntV):
            raise Unsupported('list index %r' % (i,))
        # python list indexing: 0 <= i < N, or -N <= i < 0 counting from the end
        from z3 import simplify, is_int_value
        v = simplify(i.t)
        if is_int_value(v) and v.as_long() < 0:
            return member(N + v.as_long())
        return member(i.t)
    concepts.fields['__getitem__'] = FuncV('list.__getitem__', getitem)
    concepts.fields['__len__'] = FuncV('list.__len__', lambda p, a, k: IntV(N))
    concepts.fields['__iter__'] = FuncV('list.__iter__', lambda p, a, k: IterV(member, N, 'iter(_concepts)'))
    lat = ObjV('Lattice', {'_concepts': concepts}, name='self')
    return lat, N, member


def _accessor(which):
    def setup(path):
        lat, N, member = _lat_obj(path)
        if which == 'atoms':
            f = FuncV('Lattice.infimum', lambda p, a, k: member(IntVal_(0)))
            f.is_property = True
            lat.fields['infimum'] = f

        def check(path, val):
            if which == 'infimum':
                return [('first-member', val.ident == 0)]
            if which == 'supremum':
                return [('last-member', val.ident == N - 1)]
            if which == 'atoms':
                return [('upper-neighbors-of-the-infimum', BoolVal(getattr(val, 'owner', None) is not None) if getattr(val, 'owner', None) is None
                         else val.owner == 0)]
            if which == '__len__':
                return [('number-of-members', val.t == N if isinstance(val, IntV) else BoolVal(False))]
            if which == '__iter__':
                t = path.fresh_int('t')
                ok = isinstance(val, IterV)
                return [('iterates-the-members-in-order', And(val.length == N, val.at(t).ident == t) if ok else BoolVal(False))]
            return []

        def iter_(p, args, kw):
            (o,) = args
            return o.fields['__iter__'].fn(p, [o], {})
        return {'self': lat}, {'iter': FuncV('iter', iter_)}, check
    return setup


for _w in ('infimum', 'supremum', 'atoms'):
    register(Unit('lattices.' + _w, 'concepts/lattices.py', 'Lattice.' + _w, _simple_unit(_accessor(_w)),
                  assumptions=['list indexing of _concepts (non-empty: N >= 1)'], linkage=[('type(lat).%s' % _w, None)]))
for _w in ('__len__', '__iter__'):
    register(Unit('lattices.' + _w, 'concepts/lattices.py', 'CollectionMixin.' + _w, _simple_unit(_accessor(_w)),
                  assumptions=['len/iter of the list _concepts'], linkage=[('type(lat).%s' % _w, None)]))


def _key_setup(which):
    def setup(path):
        ext = ObjV('Bitset', {}, name='extent')
        keys = {}
        for nm in ('shortlex', 'longlex'):
            k = ObjV('Key', {}, name=nm + '-key')
            keys[nm] = k
            f = FuncV(nm, lambda p, a, kw, _k=k: _k)
            f.is_method = True
            ext.fields[nm] = f
        c = ObjV('Concept', {'_extent': ext}, name='concept')
        return {'concept': c}, None, lambda path, val: [('key-of-the-extent', BoolVal(val is keys[which]))]
    return setup


register(Unit('lattices._shortlex', 'concepts/lattices.py', 'Data._shortlex', _simple_unit(_key_setup('shortlex')),
              assumptions=['bitsets shortlex()'], linkage=[('type(lat)._shortlex', None)]))
register(Unit('lattices._longlex', 'concepts/lattices.py', 'Data._longlex', _simple_unit(_key_setup('longlex')),
              assumptions=['bitsets longlex()'], linkage=[('type(lat)._longlex', None)]))


def _pair_init_setup(path):
    this = ObjV('Concept', {}, name='self')
    args = {n: ObjV('Arg', {}, name=n) for n in ('lattice', 'extent', 'intent', 'upper', 'lower')}
    env = dict(args, self=this)

    def check(path, val):
        f = this.fields
        ok = (f.get('lattice') is args['lattice'] and f.get('_extent') is args['extent'] and f.get('_intent') is args['intent']
              and f.get('upper_neighbors') is args['upper'] and f.get('lower_neighbors') is args['lower'] and len(f) == 5)
        return [('stores-its-arguments', BoolVal(ok))]
    return env, None, check


register(Unit('members.Pair.__init__', 'concepts/lattice_members.py', 'Pair.__init__', _simple_unit(_pair_init_setup),
              assumptions=[], linkage=[('concepts.lattice_members.Pair.__init__', None)]))


def _pair_iter_setup(path):
    def bitset(nm):
        o = ObjV('Bitset', {}, name=nm)
        f = FuncV('members', lambda p, a, k: ObjV('LabelTuple', {'of': o}, name='members(%s)' % nm))
        f.is_method = True
        o.fields['members'] = f
        return o
    e, i = bitset('extent'), bitset('intent')
    this = ObjV('Concept', {'_extent': e, '_intent': i}, name='self')

    def check(path, val):
        out = path.out
        ok = len(out) == 2 and all(isinstance(x, ObjV) and x.cls == 'LabelTuple' for x in out) \
            and out[0].fields['of'] is e and out[1].fields['of'] is i
        return [('yields-extent-labels-then-intent-labels', BoolVal(ok))]
    return {'self': this}, None, check


register(Unit('members.Pair.__iter__', 'concepts/lattice_members.py', 'Pair.__iter__', _simple_unit(_pair_iter_setup),
              assumptions=['bitsets members()'], linkage=[('concepts.lattice_members.Pair.__iter__', None)]))


def _make_mapping_setup(path):
    from pyvc.engine import MapV
    N = Int('N')

    def member(i):
        c = ObjV('Concept', {'_extent': IntV(Function('ext', I, I)(i), 'Objects')}, name='member[%s]' % i)
        c.ident = i
        return c
    concepts = SeqV(member, N, 'concepts')

    def check(path, val):
        ok = isinstance(val, MapV) and val.base is concepts
        if not ok:
            return [('dict-over-concepts', BoolVal(False))]
        t = path.fresh_int('t')
        k, v = val.kv(t)
        return [('dict-over-concepts', BoolVal(True)),
                ('extent-to-member', And(k.t == Function('ext', I, I)(t), v.ident == t))]
    return {'concepts': concepts}, None, check


register(Unit('lattices._make_mapping', 'concepts/lattices.py', 'Data._make_mapping', _simple_unit(_make_mapping_setup),
              assumptions=['dict comprehension: {key: value} for every element (later elements win; extents are pairwise distinct by LatInv.1)'],
              linkage=[('type(lat)._make_mapping', None)]))


def _ctx_lattice_setup(which):
    def setup(path):
        calls = []
        Objects = ObjV('BitSetClass', {}, name='_Objects')
        ctx = ObjV('Context', {'_Objects': Objects}, name='self')
        res = ObjV('Result', {}, name='result')

        def rec(name):
            def f(p, args, kw):
                calls.append((name, list(args), dict(kw)))
                return res
            return FuncV(name, f)
        g = {'algorithms': ObjV('module', {'lattice': rec('algorithms.lattice')}, name='algorithms'),
             'lattices': ObjV('module', {'Lattice': rec('lattices.Lattice')}, name='lattices')}
        env = {'self': ctx}
        inf = ObjV('Arg', {}, name='infimum')
        if which == '_lattice':
            env['infimum'] = inf

        def check(path, val):
            if which == '_lattice':
                ok = len(calls) == 1 and calls[0][0] == 'algorithms.lattice' and calls[0][1] == [Objects] and set(calls[0][2]) == {'infimum'} \
                    and calls[0][2]['infimum'] is inf
            else:
                ok = len(calls) == 1 and calls[0][0] == 'lattices.Lattice' and calls[0][1] == [ctx] and not calls[0][2]
            return [('pass-through', BoolVal(ok and val is res))]
        return env, g, check
    return setup


register(Unit('contexts._lattice', 'concepts/contexts.py', 'LatticeMixin._lattice', _simple_unit(_ctx_lattice_setup('_lattice')),
              assumptions=['contract of lindig.lattice (unit lindig.lattice)'], linkage=[('type(ctx)._lattice', None)]))
register(Unit('contexts.lattice', 'concepts/contexts.py', 'LatticeMixin.lattice', _simple_unit(_ctx_lattice_setup('lattice')),
              assumptions=['tools.lazyproperty: computed once, then cached in the instance dict (unit tools.lazyproperty.__get__)',
                           'contract of Lattice.__init__ (unit lattices.__init__)'],
              linkage=[('concepts.contexts.LatticeMixin.__dict__["lattice"].fget', None)]))


def _lazy_get_setup(path):
    from pyvc.engine import DictV
    calls = []
    res = ObjV('Result', {}, name='fget-result')

    def fget(p, args, kw):
        calls.append(args)
        return res
    d = ObjV('dict', {}, name='instance.__dict__')
    stores = []
    d.fields['__setitem__'] = FuncV('dict.__setitem__', lambda p, a, k: stores.append((a[1], a[2])) or NONE)
    inst = ObjV('Instance', {'__dict__': d}, name='instance')
    this = ObjV('lazyproperty', {'fget': FuncV('fget', fget), '__name__': StrV('lattice')}, name='self')
    owner = ObjV('class', {}, name='owner')

    def check(path, val):
        ok = len(calls) == 1 and calls[0] == [inst] and val is res and len(stores) == 1 \
            and getattr(stores[0][0], 'value', None) == 'lattice' and stores[0][1] is res
        return [('computes-once-and-caches-under-its-name', BoolVal(ok))]
    return {'self': this, 'instance': inst, 'owner': owner}, None, check


register(Unit('tools.lazyproperty.__get__', 'concepts/tools.py', 'lazyproperty.__get__', _simple_unit(_lazy_get_setup),
              assumptions=['non-data descriptor protocol: an entry in the instance dict shadows the descriptor on later reads'],
              linkage=[('concepts.tools.lazyproperty.__get__', None)]))
