"""C09: tools.maximal under contract and the corollary lemmas that connect the proved worklist generator
(unit common.iterunion) and the wrapper units (members.upset/downset, lattices.upset_union/downset_union) to the statement
of C09:  relative to LatInv the traversals yield exactly the filter / ideal (of the union), once each, in rank order.

  unit tools.maximal            the real generator expression over itertools.permutations / groupby / starmap:
                                result enumerates exactly  S = {x in I | no y in I, y != x, with comparison(x, y)}, each once
                                (I = the set of the given items); for fewer than two items: I itself.
  lemma.traversal.up / .down    Reach theory of iterunion instantiated with key = index (dindex), nxt = upper (lower) covers:
                                  - the requirements of iterunion hold (keys >= 0, strictly increasing along nxt)
                                  - reach = {j | some seed s with ext(s) <= ext(j)}        (L-REACH leastness + L-UPSET / L-DOWNSET, Lean)
                                  - with seeds = maximal(I):  reach = {j | some x in I with ext(x) <= ext(j)}   (L-MINIMAL, Lean)
"""
from z3 import And, BoolSort, BoolVal, Exists, ForAll, Function, If, Implies, Int, IntSort, Ints, MultiPattern, Not, Or

from pyvc import bits
from pyvc.engine import BoolV, FilterV, FuncV, IntV, IterV, NONE, ObjV, SeqV, TupleV, Unsupported, truthy
from contracts import lib
from contracts.common_alg import Reach, item
from contracts.ctxtheory import Ctx
from contracts.latinv import Lat
from contracts.registry import Unit, register

I = IntSort()
B = BoolSort()


# ---------------------------------------------------------------------------------------------------------------------
# tools.maximal

def _maximal_unit():
    def make():
        ilen = Int('iterable.len')
        ikey = Function('iterable.key', I, I)
        irank = Function('iterable.rank', I, I)
        inI = Function('inI', I, B)
        n = Int('set.len')
        ekey = Function('set.key', I, I)
        erank = Function('set.rank', I, I)
        oth = Function('perm.other', I, I, I)
        inv = Function('perm.inv', I, I, I)
        cmp_ = Function('comparison', I, I, B)
        spec = Function('S', I, B)
        wS = Function('w.S', I, I)
        t, u, k, y, r = Ints('t u k y r')
        axioms = bits.axioms() + [
            ('iterable.len', ilen >= 0),
            ('inI.iter', ForAll([t], Implies(And(0 <= t, t < ilen), inI(ikey(t))), patterns=[ikey(t)])),
            ('inI.onto', ForAll([k], Implies(inI(k), And(0 <= irank(k), irank(k) < ilen, ikey(irank(k)) == k)), patterns=[inI(k)])),
            # spec set S (definitional, skolemised)
            ('S.elim', ForAll([k, y], Implies(And(spec(k), inI(y), y != k), Not(cmp_(k, y))), patterns=[MultiPattern(spec(k), cmp_(k, y))])),
            ('S.in', ForAll([k], Implies(spec(k), inI(k)), patterns=[spec(k)])),
            ('S.intro', ForAll([k], Implies(And(inI(k), Not(spec(k))), And(inI(wS(k)), wS(k) != k, cmp_(k, wS(k)))), patterns=[spec(k)])),
        ]
        # library contracts (assumed): builtin set, itertools.permutations(., 2) + groupby(key=first item)
        set_contract = [
            And(0 <= n, n <= ilen, (n == 0) == (ilen == 0)),
            ForAll([t], Implies(And(0 <= t, t < n), And(inI(ekey(t)), erank(ekey(t)) == t)), patterns=[ekey(t)]),
            ForAll([k], Implies(inI(k), And(0 <= erank(k), erank(k) < n, ekey(erank(k)) == k)), patterns=[erank(k), inI(k)]),
        ]
        perm_contract = [
            # the group of the element at position t: the pairs (elem t, elem r) for every other position r, each once
            ForAll([t, u], Implies(And(0 <= t, t < n, 0 <= u, u < n - 1),
                                   And(0 <= oth(t, u), oth(t, u) < n, oth(t, u) != t, inv(t, oth(t, u)) == u)), patterns=[oth(t, u)]),
            ForAll([t, r], Implies(And(0 <= t, t < n, 0 <= r, r < n, r != t),
                                   And(0 <= inv(t, r), inv(t, r) < n - 1, oth(t, inv(t, r)) == r)), patterns=[inv(t, r)]),
        ]

        def harness(path):
            sets = []

            def set_(p, args, kw):
                (v,) = args
                ok = isinstance(v, IterV) and getattr(v, 'is_input', False)
                p.oblige('set/of-the-given-iterable', 'pre@call', BoolVal(ok))
                p.assume(set_contract)
                s = ObjV('set', {}, name='set(iterable)')
                s.fields['__len__'] = FuncV('set.__len__', lambda p2, a2, k2: IntV(n))
                s.fields['__iter__'] = FuncV('set.__iter__', lambda p2, a2, k2: IterV(lambda tt: item(ekey(tt)), n, 'iter(set)'))
                sets.append(s)
                return s

            def iter_(p, args, kw):
                (v,) = args
                if isinstance(v, ObjV) and '__iter__' in v.fields:
                    return v.fields['__iter__'].fn(p, [v], {})
                raise Unsupported('iter of %r' % (v,))

            def permutations(p, args, kw):
                ok = len(args) == 2 and not kw and args[0] in sets and isinstance(args[1], IntV)
                p.oblige('permutations/of-the-set-by-2', 'pre@call', And(BoolVal(ok), args[1].t == 2) if ok else BoolVal(False))
                o = ObjV('permutations', {}, name='permutations(set, 2)')
                return o

            def groupby(p, args, kw):
                ok = len(args) == 1 and getattr(args[0], 'cls', None) == 'permutations' and set(kw) == {'key'} \
                    and getattr(kw['key'], 'index', None) == 0
                p.oblige('groupby/permutations-by-first-item', 'pre@call', BoolVal(ok))
                p.assume(perm_contract)

                def group(tt):
                    pairs = IterV(lambda uu: TupleV([item(ekey(tt)), item(ekey(oth(tt, uu)))]), n - 1, 'pairs')
                    return TupleV([item(ekey(tt)), pairs])
                # permutations(s, 2) of fewer than two elements is EMPTY: no pair, hence no group (groupby yields one group per run of equal keys)
                return IterV(group, If(n >= 2, n, 0), 'groupby')

            def starmap(p, args, kw):
                f, it = args
                if not isinstance(it, IterV):
                    raise Unsupported('starmap over %r' % (it,))
                return IterV(lambda uu: f.fn(p, list(it.at(uu).items), {}), it.length, 'starmap')

            def any_(p, args, kw):
                (it,) = args
                if not isinstance(it, IterV):
                    raise Unsupported('any of %r' % (it,))
                c = next(p.eng.counter)
                from z3 import Bool
                res, w, tt = Bool('any!%d' % c), Int('any.w!%d' % c), Int('any.t!%d' % c)
                p.assume(Implies(res, And(0 <= w, w < it.length, truthy(it.at(w)))))
                p.assume(Implies(Not(res), ForAll([tt], Implies(And(0 <= tt, tt < it.length), Not(truthy(it.at(tt)))))))
                return BoolV(res)

            def itemgetter(p, args, kw):
                f = FuncV('itemgetter', lambda p2, a2, k2: a2[0].items[args[0].t.as_long()])
                f.index = args[0].t.as_long() if isinstance(args[0], IntV) else None
                return f
            operator = ObjV('module', {'itemgetter': FuncV('operator.itemgetter', itemgetter),
                                       'lt': FuncV('operator.lt', lambda p, a, k: NONE)}, name='operator')
            comparison = FuncV('comparison', lambda p, a, k: BoolV(cmp_(a[0].ident, a[1].ident)))
            iterable = IterV(lambda tt: item(ikey(tt)), ilen, 'iterable')
            iterable.is_input = True
            g = dict(lib.builtins(), set=FuncV('set', set_), iter=FuncV('iter', iter_), permutations=FuncV('permutations', permutations),
                     groupby=FuncV('groupby', groupby), starmap=FuncV('starmap', starmap), any=FuncV('any', any_), operator=operator)
            env = {'iterable': iterable, 'comparison': comparison}

            def finish(path, env_, outcome):
                if outcome[0] != 'return':
                    path.oblige('post/no-exception', 'post', BoolVal(False))
                    return
                R = outcome[1]
                tt = path.fresh_int('t')
                kk = path.fresh_int('k')
                if isinstance(R, IterV):
                    # fewer than two items: the set itself
                    n0 = len(path.pc)
                    path.pc.append(And(0 <= tt, tt < R.length))
                    el = R.at(tt)
                    ok = getattr(el, 'ident', None) is not None
                    path.oblige('post/elements-are-in-S', 'post', spec(el.ident) if ok else BoolVal(False))
                    del path.pc[n0:]
                    if ok:
                        path.oblige('post/every-member-of-S-once', 'post',
                                    Implies(spec(kk), And(0 <= erank(kk), erank(kk) < R.length, R.at(erank(kk)).ident == kk)))
                        path.oblige('post/no-repeats', 'post', Implies(And(0 <= tt, tt < R.length), erank(R.at(tt).ident) == tt))
                    return
                ok = isinstance(R, FilterV) and isinstance(R.base, IterV)
                path.oblige('post/filter-of-the-groups', 'post', BoolVal(ok))
                if not ok:
                    return
                path.oblige('post/one-group-per-element', 'post', R.base.length == n)      # only reached with two or more elements
                n0 = len(path.pc)
                path.pc.append(And(0 <= tt, tt < n))
                c = R.cond(tt)
                el = R.elt(tt)
                okel = getattr(el, 'ident', None) is not None
                hyp = list(path.pc[n0:])
                del path.pc[n0:]
                # hints: the position of the spec witness among the pairs of group t
                rr = erank(wS(ekey(tt)))
                path.assume(Implies(And(0 <= tt, tt < n), And(*hyp)) if hyp else True)
                path.assume(inv(tt, rr) == inv(tt, rr))
                h = Function('hint!%d' % next(path.eng.counter), I, B)
                path.assume(h(inv(tt, rr)))
                path.oblige('post/yields-the-element-of-the-group', 'post', Implies(And(0 <= tt, tt < n), el.ident == ekey(tt)) if okel else BoolVal(False))
                path.oblige('post/kept-iff-in-S', 'post', Implies(And(0 <= tt, tt < n), c == spec(ekey(tt))))
            return env, {'globals': g}, finish
        return axioms, harness
    return make


register(Unit('tools.maximal', 'concepts/tools.py', 'maximal', _maximal_unit(),
              assumptions=['builtin set(iterable): the distinct elements in some fixed order; itertools.permutations(s, 2) grouped by first item '
                           '(groupby, key=itemgetter(0)): per element t the pairs (t, r) for every other element r, each once; starmap; any -- assumed library contracts',
                           'elements are compared by identity of the item (hashable concept objects)'],
              linkage=[('concepts.tools.maximal', None)]))


# ---------------------------------------------------------------------------------------------------------------------
# corollary lemmas for the four traversals

def _traversal(direction):
    up = direction == 'up'

    def make():
        C = Ctx()
        L = Lat(C)
        R = Reach()
        sub = C.sets.subset
        cover = Function('cover', I, I, B)
        key = Function('rankkey', I, I)            # index (up) / dindex (down) of the member with the given index
        member = Function('keymember', I, I)       # inverse: the member with the given key
        inI = Function('inI', I, B)
        e, f, i, j, s, k, x = Ints('e f i j s k x')
        isext = lambda v: And(C.is_objset(v), C.Cl(v) == v)
        inr = lambda v: And(0 <= v, v < L.N)
        below = (lambda a, b: sub(L.ext(a), L.ext(b))) if up else (lambda a, b: sub(L.ext(b), L.ext(a)))   # a before b in direction
        cov = (lambda a, b: cover(L.ext(a), L.ext(b))) if up else (lambda a, b: cover(L.ext(b), L.ext(a)))
        axioms = C.axioms() + L.facts() + [a for a in R.axioms() if not a[0].startswith('req.')] + [
            # the covering relation of the lattice of extents (IsCov of lemmas/Upset.lean): what is used here
            ('cover.ext', ForAll([e, f], Implies(cover(e, f), And(isext(e), isext(f), sub(e, f), e != f)), patterns=[cover(e, f)])),
            # LatInv.2/3 + L-SLEX / L-LLEX: the rank key (index / dindex) is a bijection members <-> 0..N-1, strictly increasing in the direction
            ('key.range', ForAll([i], Implies(inr(i), And(inr(key(i)), member(key(i)) == i)), patterns=[key(i)])),
            ('key.onto', ForAll([k], Implies(inr(k), And(inr(member(k)), key(member(k)) == k)), patterns=[member(k)])),
            ('key.monotone', ForAll([i, j], Implies(And(inr(i), inr(j), below(i, j), i != j), key(i) < key(j)),
                                    patterns=[MultiPattern(key(i), key(j))])),
            # items of iterunion are identified by their KEY: seed keys are keys of members; LatInv.5: next_concepts(member) = the members
            # whose extents are the upper (lower) covers, each once
            ('seeds.members', ForAll([k], Implies(R.seed(k), inr(k)), patterns=[R.seed(k)])),
            ('nxt.def', ForAll([i, j], R.nxt(i, j) == And(inr(i), inr(j), cov(member(i), member(j))), patterns=[R.nxt(i, j)])),
        ]

        def prove(path):
            wup = Function('w.up', I, I)
            upf = Function('up', I, B)     # up(k): k is the key of a member above (below) some seed
            path.assume(ForAll([k], upf(k) == And(inr(k), R.seed(wup(k)), below(member(wup(k)), member(k))), patterns=[upf(k)]))
            kk, ii, jj, ss = Ints('kk ii jj ss')
            # ---- L-REACH (Worklist.lean: reach_subset) with Y = up:  seeds in up, up closed under nxt
            path.assume(ForAll([s, k], Implies(And(R.seed(s), inr(k), below(member(s), member(k))), upf(k)),
                               patterns=[MultiPattern(R.seed(s), upf(k))]))      # any seed witnesses up(k) (definition of "some seed")
            path.oblige('L-REACH/seeds-in-up', 'lemma.use', Implies(R.seed(ss), upf(ss)))
            path.oblige('L-REACH/up-closed-under-nxt', 'lemma.use', Implies(And(upf(ii), R.nxt(ii, jj)), upf(jj)))
            path.assume(ForAll([k], Implies(R.reach(k), upf(k)), patterns=[R.reach(k)]))
            # ---- the requirements of iterunion
            path.oblige('iterunion.requires/key-nonneg', 'lemma', Implies(R.reach(kk), kk >= 0))
            path.oblige('iterunion.requires/key-increasing', 'lemma', Implies(And(R.reach(ii), R.nxt(ii, jj)), ii < jj))
            # ---- L-UPSET / L-DOWNSET (lemmas/Upset.lean: upset_complete / downset_complete) with S = {E extent | reach(key of its member)}, A0 = ext(seed)
            inS = lambda E: And(isext(E), R.reach(key(L.idx(E))))
            E1, E2 = Ints('E1 E2')
            path.oblige('L-UPSET/seed-in-S', 'lemma.use', Implies(R.seed(ss), inS(L.ext(member(ss)))))
            hb = Function('hint!%d' % next(path.eng.counter), B, B)
            path.assume(hb(R.nxt(key(L.idx(E1)), key(L.idx(E2)))))       # term hint for nxt.def / reach.step
            path.oblige('L-UPSET/S-closed-under-covers', 'lemma.use',
                        Implies(And(inS(E1), cover(E1, E2) if up else cover(E2, E1)), inS(E2)))
            concl = ForAll([s, e], Implies(And(R.seed(s), isext(e), sub(L.ext(member(s)), e) if up else sub(e, L.ext(member(s)))), inS(e)),
                           patterns=[MultiPattern(R.seed(s), L.idx(e))])
            path.assume(concl)
            path.oblige('post/reach-is-the-%s-of-the-seeds' % ('filter' if up else 'ideal'), 'lemma', R.reach(kk) == upf(kk))
            # ---- seeds = tools.maximal(I) (unit tools.maximal with comparison = properly_subsumes / properly_implies), L-MINIMAL (Upset.lean)
            path.assume(ForAll([x], Implies(inI(x), inr(x)), patterns=[inI(x)]))
            strict = lambda a, b: And(below(member(b), member(a)), L.ext(member(a)) != L.ext(member(b)))     # comparison(a, b): b strictly before a
            path.assume(ForAll([k], R.seed(k) == And(inI(k), ForAll([x], Implies(And(inI(x), x != k), Not(strict(k, x))))), patterns=[R.seed(k)]))
            wmin = Function('w.min', I, I)
            path.assume(ForAll([x], Implies(inI(x), And(R.seed(wmin(x)), below(member(wmin(x)), member(x)))), patterns=[inI(x)]))   # L-MINIMAL instance
            wI = Function('w.I', I, I)
            upI = Function('upI', I, B)
            path.assume(ForAll([k], upI(k) == And(inr(k), inI(wI(k)), below(member(wI(k)), member(k))), patterns=[upI(k)]))
            path.assume(ForAll([x, k], Implies(And(inI(x), inr(k), below(member(x), member(k))), upI(k)), patterns=[MultiPattern(inI(x), upI(k))]))
            path.oblige('post/union: reach-is-the-%s-of-the-collection' % ('filter' if up else 'ideal'), 'lemma', R.reach(kk) == upI(kk))
        return axioms, prove
    return make


for _d in ('up', 'down'):
    register(Unit('lemma.traversal.' + _d, None, None, _traversal(_d),
                  assumptions=['relative to LatInv: index/dindex a bijection onto 0..N-1 that is strictly increasing with strict inclusion (reverse inclusion) '
                               '(LatInv.2/3 + L-SLEX/L-LLEX), upper/lower_neighbors = the upper/lower covers (LatInv.5)',
                               'lemmas L-REACH (Worklist.lean), L-UPSET / L-DOWNSET / L-MINIMAL (Upset.lean) proved in Lean; SMT <-> Lean transcription by hand',
                               'contract of tools.maximal (unit tools.maximal) and of iterunion (unit common.iterunion)']))
