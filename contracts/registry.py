"""Registry of proof units: one unit = one real function of /repo under one contract harness."""

UNITS = {}


class Unit:
    def __init__(self, uid, relpath, qualname, make, assumptions=(), linkage=(), max_paths=400):
        """make() -> (axioms, harness).  linkage: list of (python expression reaching the live function object in a
        namespace with `ctx` (a Context), `lat`, `c` (a concept), `concepts` (the package); expected qualname or None)."""
        self.uid, self.relpath, self.qualname, self.make = uid, relpath, qualname, make
        self.assumptions, self.linkage, self.max_paths = list(assumptions), list(linkage), max_paths


def register(unit):
    assert unit.uid not in UNITS, unit.uid
    UNITS[unit.uid] = unit
    return unit


def load_all():
    import importlib
    for m in ('matrices', 'members', 'lemmas_z3', 'contexts', 'lindig', 'common_alg', 'visualize', 'fcbo', 'fcbo_theory', 'fcbo_complete', 'algorithms_init', 'ctx_init', 'lattices', 'tools_unique', 'definitions', 'annotate', 'lat_init', 'junctors', 'persist', 'lat_fromlist', 'formats', 'invariance', 'traversal', 'agreement', 'bitsets_lib', 'bitsets_powerset', 'formats_lines', 'formats_csv', 'cover_io', 'cover_core', 'formats_chars', 'formats_chars_table', 'formats_chars_csv', 'bitsets_bin'):
        importlib.import_module('contracts.' + m)
    return UNITS
