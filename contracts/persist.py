"""Contracts for the structured persistence functions (C11): todict / _tolist (encoding shape), fromjson / tojson
(pass-through of every flag), __getstate__/__setstate__ and __reduce__ (inverse pairs with the constructors)."""
from z3 import And, BoolVal, Function, Int, IntSort, Not, Or

from pyvc import bits
from pyvc.engine import (BoolV, DictV, FuncV, IntV, IterV, ListV, NONE, NoneV, ObjV, SeqV, StrV, TupleV, Unsupported, truthy)
from contracts import lib
from contracts.registry import Unit, register

I = IntSort()


def _simple(setup):
    def make():
        def harness(path):
            env, g, check = setup(path)
            gg = dict(lib.builtins())
            gg.update(g or {})

            def finish(path, env_, outcome):
                if outcome[0] != 'return':
                    path.oblige('post/no-exception', 'post', BoolVal(False))
                    return
                for nm, f in check(path, outcome[1]):
                    path.oblige('post/' + nm, 'post', f)
            return env, {'globals': gg}, finish
        return bits.axioms(), harness
    return make


def prop(fn):
    f = FuncV('property', fn)
    f.is_property = True
    return f


def meth(fn, name='method'):
    f = FuncV(name, fn)
    f.is_method = True
    return f


# ---- todict

def _todict(case):
    def setup(path):
        objects, properties = ObjV('tuple', {}, name='objects'), ObjV('tuple', {}, name='properties')
        index_sets, tolist = ObjV('list', {}, name='index_sets'), ObjV('list', {}, name='_tolist()')
        computed = path.fresh_bool('lattice_already_computed')
        accessed = []
        lat = ObjV('Lattice', {'_tolist': meth(lambda p, a, k: tolist)}, name='lattice')
        this = ObjV('Context', {'objects': prop(lambda p, a, k: objects), 'properties': prop(lambda p, a, k: properties),
                                '_intents': ObjV('Vectors', {'index_sets': meth(lambda p, a, k: index_sets)}, name='_intents'),
                                'lattice': prop(lambda p, a, k: accessed.append(1) or lat)}, name='self')
        this.fields['__dict__'] = ObjV('dict', {'__contains__': meth(lambda p, a, k: BoolV(computed))}, name='__dict__')
        arg = {'true': BoolV(True), 'false': BoolV(False), 'none': NONE}[case]

        def check(path, val):
            ok = isinstance(val, DictV) and list(val.items)[:3] == ['objects', 'properties', 'context']
            out = [('dict-with-the-documented-keys', BoolVal(ok))]
            if not ok:
                return out
            out.append(('table-encoding', BoolVal(val.items['objects'] is objects and val.items['properties'] is properties
                                                  and val.items['context'] is index_sets)))
            has = 'lattice' in val.items
            if case == 'true':
                out.append(('lattice-omitted-when-ignored', BoolVal(not has and not accessed)))
            elif case == 'false':
                out.append(('lattice-included', BoolVal(has and val.items.get('lattice') is tolist)))
            else:
                # ignore_lattice=None: the lattice is included exactly when it has been computed already (never computed for this)
                out.append(('lattice-included-iff-already-computed', computed == BoolVal(has)))
                out.append(('no-computation-when-absent', Or(computed, BoolVal(not accessed))))
                if has:
                    out.append(('lattice-value', BoolVal(val.items['lattice'] is tolist)))
            out.append(('only-documented-keys', BoolVal(set(val.items) <= {'objects', 'properties', 'context', 'lattice'})))
            return out
        return {'self': this, 'ignore_lattice': arg}, None, check
    return setup


for _c in ('true', 'false', 'none'):
    register(Unit('contexts.todict.' + _c, 'concepts/contexts.py', 'ExportableMixin.todict', _simple(_todict(_c)),
                  assumptions=['bitsets index_sets(): per row the ascending indexes of the true cells', 'contract of Lattice._tolist (unit lattices._tolist)'],
                  linkage=[('type(ctx).todict', None)]))


# ---- _tolist

def _tolist_setup(path):
    N = Int('N')

    def idxset(nm, t):
        o = ObjV('Bitset', {}, name='%s[%s]' % (nm, t))
        o.fields['iter_set'] = meth(lambda p, a, k: ObjV('IndexIter', {'of': o}, name='iter_set(%s)' % o.name))
        return o
    nU, nL = Function('un.len', I, I), Function('ln.len', I, I)
    uI, lI = Function('un.index', I, I, I), Function('ln.index', I, I, I)

    def member(t):
        c = ObjV('Concept', {}, name='member[%s]' % t)
        c.ident = t
        c.fields['_extent'], c.fields['_intent'] = idxset('extent', t), idxset('intent', t)
        nb = lambda f, s: ObjV('Concept', {'index': IntV(f(t, s))}, name='nb')
        c.fields['upper_neighbors'] = SeqV(lambda s: nb(uI, s), nU(t), 'upper[%s]' % t)
        c.fields['lower_neighbors'] = SeqV(lambda s: nb(lI, s), nL(t), 'lower[%s]' % t)
        return c
    this = ObjV('Lattice', {'_concepts': SeqV(member, N, '_concepts')}, name='self')

    def tuple_(p, args, kw):
        (v,) = args
        if isinstance(v, ObjV) and v.cls == 'IndexIter':
            return ObjV('IndexTuple', {'of': v.fields['of']}, name='tuple(%s)' % v.name)
        if isinstance(v, (IterV, SeqV)):
            return SeqV(v.at, v.length, 'tuple(%s)' % v.name)
        raise Unsupported('tuple of %r' % (v,))

    def check(path, val):
        ok = isinstance(val, (IterV, SeqV))
        if not ok:
            return [('one-entry-per-concept-in-order', BoolVal(False))]
        t, s = path.fresh_int('t'), path.fresh_int('s')
        el = val.at(t)
        okel = isinstance(el, TupleV) and len(el.items) == 4 and all(getattr(el.items[i], 'cls', None) == 'IndexTuple' for i in (0, 1)) \
            and all(isinstance(el.items[i], SeqV) for i in (2, 3))
        out = [('one-entry-per-concept-in-order', val.length == N), ('entry-shape', BoolVal(okel))]
        if okel:
            m = member(t)
            out.append(('extent-and-intent-index-tuples', BoolVal(el.items[0].fields['of'].name == 'extent[%s]' % t
                                                                 and el.items[1].fields['of'].name == 'intent[%s]' % t)))
            out.append(('upper-neighbour-indexes-in-stored-order', And(el.items[2].length == nU(t), el.items[2].at(s).t == uI(t, s))))
            out.append(('lower-neighbour-indexes-in-stored-order', And(el.items[3].length == nL(t), el.items[3].at(s).t == lI(t, s))))
        return out
    return {'self': this}, {'tuple': FuncV('tuple', tuple_)}, check


register(Unit('lattices._tolist', 'concepts/lattices.py', 'Data._tolist', _simple(_tolist_setup),
              assumptions=['bitsets iter_set(): ascending indexes of the set bits; comprehension = element-wise map in order'],
              linkage=[('type(lat)._tolist', None)]))


# ---- fromjson / tojson: every flag is passed on

def _fromjson_setup(path):
    calls = []
    loaded = ObjV('dict', {}, name='loaded-dict')
    res = ObjV('Context', {}, name='result')
    tools = ObjV('module', {'load_json': FuncV('tools.load_json', lambda p, a, k: calls.append(('load_json', a, k)) or loaded)}, name='tools')
    cls = ObjV('class', {'fromdict': FuncV('cls.fromdict', lambda p, a, k: calls.append(('fromdict', a, k)) or res)}, name='cls')
    args = {n: ObjV('Arg', {}, name=n) for n in ('path_or_fileobj', 'encoding', 'ignore_lattice', 'require_lattice', 'raw')}

    def check(path, val):
        ok = [c[0] for c in calls] == ['load_json', 'fromdict']
        out = [('calls', BoolVal(ok))]
        if ok:
            a, k = calls[0][1], calls[0][2]
            out.append(('load_json-arguments', BoolVal(a == [args['path_or_fileobj']] and set(k) == {'encoding'} and k['encoding'] is args['encoding'])))
            a, k = calls[1][1], calls[1][2]
            out.append(('fromdict-gets-the-loaded-dict-and-every-flag', BoolVal(
                a[-1:] == [loaded] and set(k) == {'ignore_lattice', 'require_lattice', 'raw'}
                and all(k[n] is args[n] for n in ('ignore_lattice', 'require_lattice', 'raw')))))
            out.append(('returns-the-context', BoolVal(val is res)))
        return out
    return dict(args, cls=cls), {'tools': tools}, check


def _tojson_setup(path):
    calls = []
    dd = ObjV('dict', {}, name='todict-result')
    tools = ObjV('module', {'dump_json': FuncV('tools.dump_json', lambda p, a, k: calls.append(('dump_json', a, k)) or NONE)}, name='tools')
    this = ObjV('Context', {'todict': meth(lambda p, a, k: calls.append(('todict', a[1:], k)) or dd)}, name='self')
    args = {n: ObjV('Arg', {}, name=n) for n in ('path_or_fileobj', 'encoding', 'indent', 'sort_keys', 'ignore_lattice')}

    def check(path, val):
        ok = [c[0] for c in calls] == ['todict', 'dump_json']
        out = [('calls', BoolVal(ok))]
        if ok:
            a, k = calls[0][1], calls[0][2]
            out.append(('todict-ignore_lattice', BoolVal(not a and set(k) == {'ignore_lattice'} and k['ignore_lattice'] is args['ignore_lattice'])))
            a, k = calls[1][1], calls[1][2]
            out.append(('dump_json-arguments', BoolVal(a == [dd, args['path_or_fileobj']] and set(k) == {'encoding', 'indent', 'sort_keys'}
                                                       and all(k[n] is args[n] for n in ('encoding', 'indent', 'sort_keys')))))
        return out
    return dict(args, self=this), {'tools': tools}, check


register(Unit('contexts.fromjson', 'concepts/contexts.py', 'Data.fromjson', _simple(_fromjson_setup),
              assumptions=['tools.load_json / json: assumed inverse of dump_json on dicts of str/int/list values'],
              linkage=[('concepts.Context.fromjson', None)]))
register(Unit('contexts.tojson', 'concepts/contexts.py', 'ExportableMixin.tojson', _simple(_tojson_setup),
              assumptions=['tools.dump_json / json codec (external)'], linkage=[('type(ctx).tojson', None)]))


# ---- pickling hooks: inverse pairs

def _ctx_getstate_setup(path):
    a, b = ObjV('Vectors', {}, name='_intents'), ObjV('Vectors', {}, name='_extents')
    this = ObjV('Context', {'_intents': a, '_extents': b}, name='self')
    return {'self': this}, None, lambda path, val: [('state-is-(intents, extents)', BoolVal(
        isinstance(val, TupleV) and len(val.items) == 2 and val.items[0] is a and val.items[1] is b))]


def _ctx_setstate_setup(path):
    xa, xb = ObjV('BitSetClass', {}, name='Properties'), ObjV('BitSetClass', {}, name='Objects')
    a, b = ObjV('Vectors', {'BitSet': xa}, name='_intents'), ObjV('Vectors', {'BitSet': xb}, name='_extents')
    this = ObjV('Context', {}, name='self')

    def check(path, val):
        f = this.fields
        return [('restores-the-four-fields-as-__init__-sets-them', BoolVal(
            f.get('_intents') is a and f.get('_extents') is b and f.get('_Properties') is xa and f.get('_Objects') is xb and len(f) == 4))]
    return {'self': this, 'state': TupleV([a, b])}, None, check


def _lat_getstate_setup(path):
    a, b = ObjV('Context', {}, name='_context'), ObjV('list', {}, name='_concepts')
    this = ObjV('Lattice', {'_context': a, '_concepts': b}, name='self')
    return {'self': this}, None, lambda path, val: [('state-is-(context, concepts)', BoolVal(
        isinstance(val, TupleV) and len(val.items) == 2 and val.items[0] is a and val.items[1] is b))]


def _lat_setstate_setup(path):
    a, b = ObjV('Context', {}, name='context'), ObjV('list', {}, name='concepts')
    calls = []
    this = ObjV('Lattice', {}, name='self')
    this.fields['_init'] = FuncV('_init', lambda p, ar, k: calls.append((ar, k)) or NONE)

    def check(path, val):
        ok = len(calls) == 1 and calls[0][0] == [this, a, b] and set(calls[0][1]) == {'unpickle'} and isinstance(calls[0][1]['unpickle'], BoolV)
        return [('re-initialises-from-the-state-in-unpickle-mode', And(BoolVal(ok), calls[0][1]['unpickle'].t) if ok else BoolVal(False))]
    return {'self': this, 'state': TupleV([a, b])}, None, check


for _n, _q, _f, _s in (('contexts.__getstate__', 'Data.__getstate__', 'concepts/contexts.py', _ctx_getstate_setup),
                       ('contexts.__setstate__', 'Data.__setstate__', 'concepts/contexts.py', _ctx_setstate_setup),
                       ('lattices.__getstate__', 'Data.__getstate__', 'concepts/lattices.py', _lat_getstate_setup),
                       ('lattices.__setstate__', 'Data.__setstate__', 'concepts/lattices.py', _lat_setstate_setup)):
    register(Unit(_n, _f, _q, _simple(_s), assumptions=['the pickler rebuilds every reduced value and calls __setstate__ with the state (CPython pickle protocol, assumed)'],
                  linkage=[(('type(ctx).' if 'contexts' in _n else 'type(lat).') + _q.split('.')[1], None)]))


def _rel_reduce_setup(path):
    def cls(nm):
        return ObjV('BitSetClass', {'__name__': ObjV('str', {}, name=nm + '.__name__'), '_members': ObjV('tuple', {}, name=nm + '._members'),
                                    '_id': ObjV('int', {}, name=nm + '._id')}, name=nm)
    X, Y = cls('X'), cls('Y')
    rows = ObjV('Rows', {}, name='rows-of-x')
    x = ObjV('Vectors', {'BitSet': X, 'bools': meth(lambda p, a, k: rows)}, name='x')
    y = ObjV('Vectors', {'BitSet': Y}, name='y')
    this = ObjV('Relation', {}, name='self')
    this.fields['__iter__'] = FuncV('iter', lambda p, a, k: ListV([x, y]))
    this.fields['__getitem__'] = FuncV('getitem', lambda p, a, k: [x, y][int(str(a[-1].t))])
    this.fields['__class__'] = ObjV('class', {}, name='Relation')

    def check(path, val):
        ok = isinstance(val, TupleV) and len(val.items) == 2 and val.items[0] is this.fields['__class__'] and isinstance(val.items[1], TupleV) \
            and len(val.items[1].items) == 6
        out = [('reduce-shape', BoolVal(ok))]
        if ok:
            a = val.items[1].items
            # the argument order of Relation.__new__: xname, yname, xmembers, ymembers, xbools, _ids=(xid, yid)
            out.append(('arguments-in-the-order-of-__new__', BoolVal(
                a[0] is X.fields['__name__'] and a[1] is Y.fields['__name__'] and a[2] is X.fields['_members'] and a[3] is Y.fields['_members']
                and a[4] is rows and isinstance(a[5], TupleV) and len(a[5].items) == 2 and a[5].items[0] is X.fields['_id'] and a[5].items[1] is Y.fields['_id'])))
        return out
    return {'self': this}, None, check


register(Unit('matrices.Relation.__reduce__', 'concepts/matrices.py', 'Relation.__reduce__', _simple(_rel_reduce_setup),
              assumptions=['inverse pair with Relation.__new__ (its parameter order xname, yname, xmembers, ymembers, xbools, _ids); bitsets class registry keyed by (name, members, id)'],
              linkage=[('concepts.matrices.Relation.__reduce__', None)]))


def _vec_reduce_setup(path):
    rel, ix = ObjV('Relation', {}, name='relation'), ObjV('int', {}, name='relation_index')
    this = ObjV('Vectors', {'relation': rel, 'relation_index': ix}, name='self')
    return {'self': this}, None, lambda path, val: [('reduces-to-relation(index)', BoolVal(
        isinstance(val, TupleV) and len(val.items) == 2 and val.items[0] is rel and isinstance(val.items[1], TupleV)
        and len(val.items[1].items) == 1 and val.items[1].items[0] is ix))]


register(Unit('matrices.Vectors.__reduce__', 'concepts/matrices.py', 'Vectors.__reduce__', _simple(_vec_reduce_setup),
              assumptions=['Relation.__call__ is tuple.__getitem__: relation(index) is the Vectors object at that index (set by _pair_with)'],
              linkage=[('concepts.matrices.Vectors.__reduce__', None)]))
