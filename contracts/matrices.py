"""Contracts for concepts/matrices.py: the three closures created by Vectors._pair_with.

PairEnv(self, other) is the environment of the closures built by `self._pair_with(relation, index, other)`
(DESIGN 5.1).  The proof is done once for an arbitrary (self, other) satisfying PairEnv; Relation.__new__
instantiates it twice (rows/columns), which is also the code half of the duality clause of C15.

Spec functions (per PairEnv, prefix P):
  accO(b,i,j)  :=  forall k. 0 <= k < i /\ bit(b,k)  ->  bit(other[k], j)          (skolemised, witness wO)
  accS(b,i,j)  :=  the same over self[k]                                             (witness wS)
  primeF(b)    :=  the natural r with  bit(r,j) <-> 0 <= j < len(self)  /\ accO(b, len(other), j)
  doubleF(b)   :=  the natural r with  bit(r,k) <-> 0 <= k < len(other) /\ accS(primeF(b), len(self), k)
"""
from z3 import (And, BoolSort, BoolVal, ForAll, Function, Implies, Int, IntSort, Ints, MultiPattern, Not, Or)

from pyvc import bits
from pyvc.bits import bit
from pyvc.engine import FuncV, IntV, LoopSpec, SeqV, TupleV

I = IntSort()


class PairEnv:
    def __init__(self, prefix='E'):
        P = prefix
        self.prefix = P
        self.len_self = Int(P + '.len_self')
        self.len_other = Int(P + '.len_other')
        self.self_at = Function(P + '.self_at', I, I)
        self.other_at = Function(P + '.other_at', I, I)
        self.Prime = Int(P + '.Prime')
        self.Double = Int(P + '.Double')
        self.accO = Function(P + '.accO', I, I, I, BoolSort())
        self.wO = Function(P + '.wO', I, I, I, I)
        self.accS = Function(P + '.accS', I, I, I, BoolSort())
        self.wS = Function(P + '.wS', I, I, I, I)
        self.primeF = Function(P + '.primeF', I, I)
        self.doubleF = Function(P + '.doubleF', I, I)

    def dual(self, prefix):
        """The environment of the closures of the *other* Vectors object of the same Relation: self/other exchanged,
        sharing the two sequences and the acc spec functions (accS of one is accO of the other)."""
        D = PairEnv(prefix)
        D.len_self, D.len_other = self.len_other, self.len_self
        D.self_at, D.other_at = self.other_at, self.self_at
        D.Prime, D.Double = self.Double, self.Prime
        D.accO, D.wO, D.accS, D.wS = self.accS, self.wS, self.accO, self.wO
        return D

    # ---- the assumptions PairEnv stands for (established by Relation.__new__, see contracts/lib.py)
    def facts(self):
        k, i, j, b = Ints('k i j b')
        E = self
        fs = [
            ('len', And(E.len_self >= 0, E.len_other >= 0)),
            ('Prime', And(E.Prime >= 0, ForAll([k], bit(E.Prime, k) == And(0 <= k, k < E.len_self),
                                               patterns=[bit(E.Prime, k)]))),
            ('Double', And(E.Double >= 0, ForAll([k], bit(E.Double, k) == And(0 <= k, k < E.len_other),
                                                 patterns=[bit(E.Double, k)]))),
            ('other.range', ForAll([k], Implies(And(0 <= k, k < E.len_other), E.other_at(k) >= 0),
                                   patterns=[E.other_at(k)])),
            ('other.width', ForAll([k, i], Implies(And(0 <= k, k < E.len_other, bit(E.other_at(k), i)), i < E.len_self),
                                   patterns=[bit(E.other_at(k), i)])),
            ('self.range', ForAll([k], Implies(And(0 <= k, k < E.len_self), E.self_at(k) >= 0),
                                  patterns=[E.self_at(k)])),
            ('self.width', ForAll([k, i], Implies(And(0 <= k, k < E.len_self, bit(E.self_at(k), i)), i < E.len_other),
                                  patterns=[bit(E.self_at(k), i)])),
            ('transpose', ForAll([k, i], Implies(And(0 <= k, k < E.len_other, 0 <= i, i < E.len_self),
                                                 bit(E.other_at(k), i) == bit(E.self_at(i), k)),
                                 patterns=[bit(E.other_at(k), i), bit(E.self_at(i), k)])),
        ]
        return fs

    # ---- definitions of the spec functions (conservative extensions: definitional axioms)
    def defs(self):
        k, i, j, b = Ints('k i j b')
        E = self
        out = []
        for acc, w, at, nm in ((E.accO, E.wO, E.other_at, 'accO'), (E.accS, E.wS, E.self_at, 'accS')):
            out.append((nm + '.elim', ForAll([b, i, j, k],
                                             Implies(And(acc(b, i, j), 0 <= k, k < i, bit(b, k)), bit(at(k), j)),
                                             patterns=[MultiPattern(acc(b, i, j), bit(b, k))])))
            out.append((nm + '.intro', ForAll([b, i, j],
                                              Implies(Not(acc(b, i, j)),
                                                      And(0 <= w(b, i, j), w(b, i, j) < i, bit(b, w(b, i, j)),
                                                          Not(bit(at(w(b, i, j)), j)))),
                                              patterns=[acc(b, i, j)])))
        out.append(('primeF.def', ForAll([b, j], bit(E.primeF(b), j) ==
                                         And(0 <= j, j < E.len_self, E.accO(b, E.len_other, j)),
                                         patterns=[bit(E.primeF(b), j)])))
        out.append(('primeF.nat', ForAll([b], E.primeF(b) >= 0, patterns=[E.primeF(b)])))
        out.append(('doubleF.def', ForAll([b, k], bit(E.doubleF(b), k) ==
                                          And(0 <= k, k < E.len_other, E.accS(E.primeF(b), E.len_self, k)),
                                          patterns=[bit(E.doubleF(b), k)])))
        out.append(('doubleF.nat', ForAll([b], E.doubleF(b) >= 0, patterns=[E.doubleF(b)])))
        return out

    def in_domain(self, b):
        """b is a bitset over the domain of self.BitSet (width len(other))."""
        k = Int('k')
        return And(b >= 0, ForAll([k], Implies(bit(b, k), k < self.len_other), patterns=[bit(b, k)]))

    def axioms(self):
        return bits.axioms() + self.facts() + self.defs()

    # ---- values for the closure's free variables
    def free_vars(self, tag_self='SelfBits', tag_other='OtherBits'):
        E = self
        ident = lambda tag: FuncV('fromint', lambda p, args, kw: IntV(args[0].t, tag))
        return {
            'Prime': IntV(E.Prime, tag_other),
            'Double': IntV(E.Double, tag_self),
            'other': SeqV(lambda t: IntV(E.other_at(t), tag_other), E.len_other, 'other'),
            'self': SeqV(lambda t: IntV(E.self_at(t), tag_self), E.len_self, 'self'),
            'make_prime': ident(tag_other),
            'make_double': ident(tag_self),
        }


def _shift_invariant(E, cur, b0, i):
    """Loop-carried facts about the shifting variable: cur = b0 >> i, as bit statements in both directions."""
    k = Int('k')
    return [
        ('i-nonneg', i >= 0),
        ('cur-nonneg', cur >= 0),
        ('shift-fwd', ForAll([k], Implies(k >= 0, bit(cur, k) == bit(b0, k + i)), patterns=[bit(cur, k)])),
        ('shift-bwd', ForAll([k], Implies(k >= i, bit(b0, k) == bit(cur, k - i)), patterns=[bit(b0, k)])),
    ]


def _acc_invariant(E, acc, accvar, b0, i, width):
    j = Int('j')
    return [
        ('acc-nonneg', accvar >= 0),
        ('acc-bits', ForAll([j], bit(accvar, j) == And(0 <= j, j < width, acc(b0, i, j)),
                            patterns=[bit(accvar, j)])),
    ]


def while_roles(relpath, qualname, env=None):
    """Roles of the loop-carried variables of the zero-skipping loops, read off the real AST (robust against renamed
    locals): per `while V:` loop -> (shift variable V, accumulator A of `A &= seq[I]`, index I).  The loops are those of the
    function's EXPANSION (engine.Expansion), in the order of their clause ordinals: its own loops and those of the functions it
    executes in place (a sibling closure of `_pair_with` that both `double` and `doubleprime` call)."""
    import ast
    from pyvc import extract
    from pyvc.engine import expanded_loops
    out = []
    for node in (n for n in expanded_loops(extract.get_function(relpath, qualname), env) if isinstance(n, ast.While)):
        sv = node.test.id if isinstance(node.test, ast.Name) else None
        acc = idx = None
        for st in ast.walk(node):
            if isinstance(st, ast.AugAssign) and isinstance(st.op, ast.BitAnd) and isinstance(st.target, ast.Name) \
                    and isinstance(st.value, ast.Subscript) and isinstance(st.value.slice, ast.Name):
                acc, idx = st.target.id, st.value.slice.id
        out.append((sv, acc, idx))
    return out


def loop_prime(E, shiftvar, accname, which, idxname='i'):
    """The zero-skipping loop: `shiftvar` is shifted right, `accname` is and-ed with other[i] (which='O') or
    self[i] (which='S').  Ghost b0 = value of shiftvar at loop entry (recorded by on_entry)."""
    acc, width = (E.accO, E.len_self) if which == 'O' else (E.accS, E.len_other)
    gname = 'b0@' + which

    def inv(e):
        b0 = e._path.ghost[gname]
        i = getattr(e, idxname)
        return (_shift_invariant(E, getattr(e, shiftvar), b0, i)
                + _acc_invariant(E, acc, getattr(e, accname), b0, i, width))

    def on_entry(p, env):
        p.ghost[gname] = env[shiftvar].t

    spec = LoopSpec(inv, decreases=lambda e: getattr(e, shiftvar))
    spec.on_entry = on_entry
    return spec


def prime_post(E, b0, r, which='O'):
    """r is the natural number whose bits are acc(b0, full length, j)."""
    j = Int('j')
    acc, width, full = (E.accO, E.len_self, E.len_other) if which == 'O' else (E.accS, E.len_other, E.len_self)
    return [('nonneg', r >= 0),
            ('bits', ForAll([j], bit(r, j) == And(0 <= j, j < width, acc(b0, full, j)), patterns=[bit(r, j)]))]


# ---------------------------------------------------------------------------------------------
# proof units

def _closure_unit(name):
    from pyvc.engine import IntV
    from z3 import Int, BoolVal

    def make(E=None):
        E = E or PairEnv('E')

        def harness(path):
            b = Int('bitset0')
            path.assume(E.in_domain(b))
            env = dict(E.free_vars())
            env['bitset'] = IntV(b, 'SelfBits')
            roles = while_roles('concepts/matrices.py', 'Vectors._pair_with.<locals>.' + name, env)
            want = 1 if name == 'prime' else 2
            if len(roles) != want or any(None in r for r in roles):
                from pyvc.engine import Unsupported
                raise Unsupported('expected %d zero-skipping while loops of the form `while V: ... A &= seq[I]`' % want)
            loops = {0: loop_prime(E, roles[0][0], roles[0][1], 'O', roles[0][2])}
            if want == 2:
                loops[1] = loop_prime(E, roles[1][0], roles[1][1], 'S', roles[1][2])

            def value_post(path, tag, r, f):
                w = path.fresh_int('wext')
                path.assume(bits.ext_instance(r, f, w))      # lemma instance B9 (extensionality on naturals)
                path.oblige('post/%s-value' % tag, 'post', r == f)

            def finish(path, env, outcome):
                kind, val = outcome
                if kind != 'return':
                    path.oblige('post/no-exception', 'post', BoolVal(False))
                    return
                if name == 'prime':
                    for nm, f in prime_post(E, b, val.t):
                        path.oblige('post/prime-' + nm, 'post', f)
                    value_post(path, 'prime', val.t, E.primeF(b))
                    path.oblige('post/prime-tag', 'post', BoolVal(val.tag == 'OtherBits'))
                elif name == 'double':
                    # ghost: the value of `prime` between the two loops (entry value of the second loop's shift variable)
                    if 'b0@S' not in path.ghost:
                        path.oblige('post/second-loop-reached', 'post', BoolVal(False))
                        return
                    value_post(path, 'prime', path.ghost['b0@S'], E.primeF(b))
                    value_post(path, 'double', val.t, E.doubleF(b))
                    path.oblige('post/double-tag', 'post', BoolVal(val.tag == 'SelfBits'))
                else:
                    d, pr = val.items
                    value_post(path, 'prime', pr.t, E.primeF(b))
                    value_post(path, 'double', d.t, E.doubleF(b))
                    path.oblige('post/tags', 'post', BoolVal(d.tag == 'SelfBits' and pr.tag == 'OtherBits'))
            return env, loops, finish
        return E.axioms(), harness
    return make


from contracts.registry import Unit, register  # noqa: E402

for _n in ('prime', 'double', 'doubleprime'):
    register(Unit('matrices.' + _n, 'concepts/matrices.py', 'Vectors._pair_with.<locals>.' + _n, _closure_unit(_n),
                  assumptions=['A-INT', 'A-EVAL', 'BITS axioms B0-B8 (validated against CPython on |x|<40; Lean: see lemmas/)',
                               'PairEnv facts are established by Relation.__new__ from the bitsets library contracts (bounded)'],
                  linkage=[("ctx._Objects.%s" % _n, None), ("ctx._Properties.%s" % _n, None),
                           ("ctx._extents.%s" % _n, None), ("ctx._intents.%s" % _n, None)]))


# =============================================================================================
# Vectors._pair_with and Relation.__new__: how PairEnv comes about (freshness of the bitset classes, binding of the closures)

def _pair_with_unit():
    from pyvc.engine import ClosureV, ObjV, BoolV, StrV, NONE
    from contracts import lib

    def make():
        def harness(path):
            already = path.fresh_bool('already_paired')

            def vectors(nm):
                cls = ObjV('BitSetClass', {'supremum': ObjV('Bitset', {}, name=nm + '.BitSet.supremum'),
                                           'fromint': ObjV('Function', {}, name=nm + '.BitSet.fromint')}, name=nm + '.BitSet')
                return ObjV('Vectors', {'BitSet': cls}, name=nm)
            this, other = vectors('self'), vectors('other')
            relation, index = ObjV('Relation', {}, name='relation'), IntV(Int('index'))
            paired = path.branch(already)
            if paired:
                this.fields['prime'] = ObjV('Function', {}, name='old-prime')

            def hasattr_(p, args, kw):
                o, nm = args
                return BoolV(nm.value in o.fields)
            g = dict(lib.builtins(), hasattr=FuncV('hasattr', hasattr_))

            def finish(path, env, outcome):
                if paired:
                    # a Vectors object is paired at most once
                    path.oblige('post/second-pairing-rejected', 'post', BoolVal(outcome == ('raise', 'RuntimeError')))
                    return
                if outcome[0] != 'return':
                    path.oblige('post/no-exception', 'post', BoolVal(False))
                    return
                ok = this.fields.get('relation') is relation and this.fields.get('relation_index') is index
                path.oblige('post/relation-back-reference', 'post', BoolVal(ok))
                B = this.fields['BitSet']
                for nm in ('prime', 'double', 'doubleprime'):
                    c = this.fields.get(nm)
                    isclo = isinstance(c, ClosureV) and c.node.name == nm
                    path.oblige('post/%s-is-the-closure-defined-here' % nm, 'post', BoolVal(isclo))
                    path.oblige('post/%s-also-bound-on-the-bitset-class' % nm, 'post', BoolVal(B.fields.get(nm) is c))
                    if not isclo:
                        continue
                    e = c.env
                    # PairEnv: what the closure's free variables denote
                    okenv = (e.get('other') is other and e.get('self') is this
                             and e.get('Prime') is other.fields['BitSet'].fields['supremum']
                             and e.get('Double') is B.fields['supremum']
                             and e.get('make_prime') is other.fields['BitSet'].fields['fromint']
                             and e.get('make_double') is B.fields['fromint'])
                    path.oblige('post/%s-environment-is-PairEnv(self, other)' % nm, 'post', BoolVal(okenv))
            return {'self': this, 'relation': relation, 'index': index, 'other': other}, {'globals': g}, finish
        return bits.axioms(), harness
    return make


def _relation_new_unit(unpickle=False):
    from pyvc.engine import ObjV, NONE, TupleV, StrV, ListV, NoneV
    from contracts import lib

    def make():
        def harness(path):
            allocs, pairings, made = [], [], []
            MemberBits = ObjV('class', {}, name='bitsets.bases.MemberBits')
            VectorsCls = ObjV('class', {}, name='Vectors')

            def bitset_factory(p, args, kw):
                cls = ObjV('BitSetClass', {}, name='class#%d' % len(allocs))
                cls.made_with = (list(args), dict(kw))
                allocs.append(cls)

                def frombools(p2, a2, k2):
                    v = ObjV('Vectors', {'BitSet': cls}, name='vectors-of-' + cls.name)
                    v.frombools_arg = a2[-1]
                    f = FuncV('Vectors._pair_with', lambda p3, a3, k3, _v=v: pairings.append((_v, list(a3[-3:]))) or NONE)
                    v.fields['_pair_with'] = f
                    b = FuncV('Vectors.bools', lambda p3, a3, k3, _v=v: ObjV('Rows', {'of': _v}, name='bools(%s)' % _v.name))
                    v.fields['bools'] = b
                    return v
                cls.fields['Tuple'] = ObjV('class', {'frombools': FuncV('Tuple.frombools', frombools)}, name=cls.name + '.Tuple')
                return cls
            lookups = []

            def registry_lookup(p, args, kw):
                # bitsets.meta.bitset(name, members, id, base, list, tuple): the class REGISTERED under (name, members, id) if there
                # is one (the class every pickled bitset of that relation refers to), else a new class registered under that id
                c = bitset_factory(p, args, kw)
                lookups.append(c)
                return c
            bitsets = ObjV('module', {'bitset': FuncV('bitsets.bitset', bitset_factory),
                                      'meta': ObjV('module', {'bitset': FuncV('bitsets.meta.bitset', registry_lookup)}, name='bitsets.meta'),
                                      'bases': ObjV('module', {'MemberBits': MemberBits}, name='bitsets.bases')}, name='bitsets')

            def zip_(p, args, kw):
                (a,) = args
                return ObjV('Transposed', {'of': a}, name='zip(*rows)')

            def super_(p, args, kw):
                o = ObjV('super', {}, name='super()')

                def new(p2, a2, k2):
                    r = ObjV('Relation', {}, name='new-relation')
                    r.cls_arg, r.items = a2[0], a2[1]
                    made.append(r)
                    return r
                o.fields['__new__'] = FuncV('tuple.__new__', new)
                return o
            cls = ObjV('class', {}, name='Relation')
            names = {n: ObjV('Arg', {}, name=n) for n in ('xname', 'yname', 'xmembers', 'ymembers', 'xbools')}
            ids = [ObjV('Arg', {}, name='xid'), ObjV('Arg', {}, name='yid')]
            env = dict(names, cls=cls, _ids=TupleV(ids) if unpickle else NONE)
            g = dict(lib.builtins(), bitsets=bitsets, zip=FuncV('zip', zip_), super=FuncV('super', super_), Vectors=VectorsCls)
            # `*x.bools()` star-unpacking of an opaque row list: modelled by zip receiving the rows object
            loops = {'globals': g, 'module_constants': True, 'star_opaque': True}

            def finish(path, env_, outcome):
                if outcome[0] != 'return':
                    path.oblige('post/no-exception', 'post', BoolVal(False))
                    return
                r = outcome[1]
                ok = len(made) == 1 and r is made[0] and r.cls_arg is cls
                path.oblige('post/new-relation', 'post', BoolVal(ok))
                # freshness: two bitset classes created by THIS call (a per-relation class carries the closures as class attributes)
                okc = len(allocs) == 2
                path.oblige('fresh/two-bitset-classes-created-by-this-call', 'fresh', BoolVal(okc))
                if not (ok and okc):
                    return
                X, Y = allocs
                if unpickle:
                    # the classes are looked up in the bitsets registry under the pickled ids: every bitset pickled with the relation
                    # (concept extents/intents refer to their class by this id) gets the class that carries the closures
                    wantu = lambda c, nm, mem, i: (c in lookups and len(c.made_with[0]) == 6 and not c.made_with[1] and c.made_with[0][0] is names[nm]
                                                   and c.made_with[0][1] is names[mem] and c.made_with[0][2] is ids[i]
                                                   and c.made_with[0][3] is MemberBits and isinstance(c.made_with[0][4], NoneV)
                                                   and c.made_with[0][5] is VectorsCls)
                    path.oblige('post/classes-looked-up-under-the-pickled-ids', 'post',
                                BoolVal(wantu(X, 'xname', 'xmembers', 0) and wantu(Y, 'yname', 'ymembers', 1)))
                else:
                    path.oblige('post/no-registry-lookup', 'post', BoolVal(not lookups))
                want = lambda c, nm, mem: unpickle or (len(c.made_with[0]) == 3 and c.made_with[0][0] is names[nm] and c.made_with[0][1] is names[mem]
                                           and c.made_with[0][2] is MemberBits and set(c.made_with[1]) == {'tuple'}
                                           and c.made_with[1]['tuple'] is VectorsCls)
                path.oblige('post/classes-from-names-and-members', 'post', BoolVal(want(X, 'xname', 'xmembers') and want(Y, 'yname', 'ymembers')))
                okt = isinstance(r.items, TupleV) and len(r.items.items) == 2
                path.oblige('post/pair', 'post', BoolVal(okt))
                if not okt:
                    return
                x, y = r.items.items
                path.oblige('post/x-rows-from-xbools', 'post', BoolVal(x.fields['BitSet'] is X and x.frombools_arg is names['xbools']))
                tr = getattr(y, 'frombools_arg', None)
                path.oblige('post/y-rows-are-the-transposed-x-rows', 'post',
                            BoolVal(y.fields['BitSet'] is Y and getattr(tr, 'cls', None) == 'Transposed'
                                    and getattr(tr.fields['of'], 'cls', None) == 'Rows' and tr.fields['of'].fields['of'] is x))
                okp = (len(pairings) == 2 and pairings[0][0] is x and pairings[0][1][0] is r and str(pairings[0][1][1].t) == '0' and pairings[0][1][2] is y
                       and pairings[1][0] is y and pairings[1][1][0] is r and str(pairings[1][1][1].t) == '1' and pairings[1][1][2] is x)
                path.oblige('post/both-directions-paired', 'post', BoolVal(okp))
            return env, loops, finish
        return bits.axioms(), harness
    return make


register(Unit('matrices._pair_with', 'concepts/matrices.py', 'Vectors._pair_with', _pair_with_unit(),
              assumptions=['closures capture their defining environment by reference; none of the captured names is re-assigned after the definitions'],
              linkage=[('concepts.matrices.Vectors._pair_with', None)]))
register(Unit('matrices.Relation.__new__', 'concepts/matrices.py', 'Relation.__new__', _relation_new_unit(),
              assumptions=['requires _ids is None (construction; the unpickle branch is covered on the bounded side)',
                           'bitsets.bitset creates a NEW class on every call; Tuple.frombools builds one bitset per row (truncating to the domain); bools() the rows; '
                           'zip(*rows) transposes rectangular rows -- assumed bitsets/builtin contracts, together they give PairEnv for both Vectors objects',
                           'contract of Vectors._pair_with (unit matrices._pair_with)'],
              linkage=[('concepts.matrices.Relation.__new__', None)]))
register(Unit('matrices.Relation.__new__.unpickle', 'concepts/matrices.py', 'Relation.__new__', _relation_new_unit(unpickle=True),
              assumptions=['requires _ids == (xid, yid) (the reconstruction call made by pickle from Relation.__reduce__)',
                           'bitsets.meta.bitset(name, members, id, base, list, tuple) returns the class registered under that id or registers a new one under it; '
                           'pickled bitsets refer to their class by (name, members, id) -- assumed bitsets contracts',
                           'contract of Vectors._pair_with (unit matrices._pair_with)'],
              linkage=[('concepts.matrices.Relation.__new__', None)]))
